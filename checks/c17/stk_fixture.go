package c17

// Staking sub-product, part 1: the finite alphabet.
//
//	prepared states  x  staking messages  x  senders  x  funding classes  x  prices
//
// The prepared states put EVERY check of the staking handlers
// (staking/handler.go, staking/delegation_handler.go) on its boundary: the
// target validator T absent / far below / one LU below / exactly on / far
// above the point where adding `dv` tokens exceeds MaxStakes[role], with that
// total held in the validator record or in a pending record of the current
// staking period; T online / offline / expelled (expiry on both sides of the
// end of the period) / not accepting delegations; the delegator with 0 /
// max-1 / max other delegations (existing, or the last one pending); the
// delegator with no / an existing / a pending delegation to T; T with 0 /
// max-1 / max other delegators (existing, or the last one pending); a pending
// validator-create for the address the create message targets.  All limits
// are read from the protocol parameters, not written down here.
//
// States are built the way production builds them: CreateValidator,
// UpdateDelegation (what teDelegationAdd does), the PartialCopy +
// UpdateValidator pattern of doPenalize for expelled/offline, and for pending
// items exactly the writes the handlers make (AddStakingRecord,
// AddPendingRelationship).  Every built state has to satisfy the C08 link
// invariants (stx.CheckLinksOver) before it is used.

import (
	"crypto/ecdsa"
	"fmt"
	"math"
	"math/big"
	"sync"

	"github.com/youchainhq/go-youchain/common"
	"github.com/youchainhq/go-youchain/core"
	"github.com/youchainhq/go-youchain/core/state"
	"github.com/youchainhq/go-youchain/core/vm"
	"github.com/youchainhq/go-youchain/crypto"
	"github.com/youchainhq/go-youchain/params"
	"github.com/youchainhq/go-youchain/rlp"
	"github.com/youchainhq/go-youchain/staking"

	"verif/checks/stx"
)

const (
	stkNonceBase = uint64(1000) // the sender's nonce in the staking sub-product is stkNonceBase + worker id
)

// levels of the effective total E of T (= what the handlers add to: the
// pending record (0,T) if there is one, the validator's tokens otherwise)
const (
	lvAbsent = iota
	lvTiny   // below MinStakes[role]: cannot go online
	lvLow    // far below the maximum
	lvFit    // E + dv is one LU below the first amount that exceeds MaxStakes
	lvOver   // E + dv is the first amount that exceeds MaxStakes
	lvMax    // E = MaxStakes exactly: one more stake unit exceeds it, one more LU does not
	numLevels
)

var levelName = []string{"absent", "below-min-stakes", "low", "max-dv (dv just fits)", "max-dv+1LU (dv overflows)", "at-max"}

const (
	repToken   = iota // E is the validator's Token, no pending record for T
	repPending        // E is the FinalValue of the pending record (0,T)
)

var repName = []string{"in-record", "in-pending-total"}

const (
	flNormal = iota
	flOffline
	flExpelledLong  // expelled, expiry after the end of the period (status change denied)
	flExpelledShort // expelled, expiry = end of the period (status change allowed)
	flNoDelegation
)

var flagName = []string{"online", "offline", "expelled(expiry>period end)", "expelled(expiry=period end)", "not-accepting-delegations"}

// counts of "other" relationships: n existing + p pending, described relative to the limit
type cntClass struct {
	name     string
	existing int // relative to the limit: limit + existing (existing <= 0), or 0 for none
	pending  int
	none     bool
}

var cntClasses = []cntClass{
	{name: "0", none: true},
	{name: "max-1", existing: -1},
	{name: "max", existing: 0},
	{name: "max-1 (last pending)", existing: -2, pending: 1},
	{name: "max (last pending)", existing: -1, pending: 1},
}

func (c cntClass) counts(limit int) (ex, pend int) {
	if c.none {
		return 0, 0
	}
	return limit + c.existing, c.pending
}

const (
	drNone = iota
	drExisting
	drPending
)

var drName = []string{"none", "existing", "pending"}

// stkState describes one prepared state.
type stkState struct {
	Level  int
	Rep    int
	Flag   int
	DC     int // delegator's other relationships (index into cntClasses)
	DR     int // delegator's relationship with T
	VC     int // T's other delegators (index into cntClasses)
	PendV1 bool
}

func (s stkState) String() string {
	if s.Level == lvAbsent {
		return fmt.Sprintf("T=absent delegator-others=%s pending-create(V1)=%v", cntClasses[s.DC].name, s.PendV1)
	}
	return fmt.Sprintf("T=%s/%s/%s delegator-others=%s delegator->T=%s T-other-delegators=%s pending-create(V1)=%v",
		levelName[s.Level], repName[s.Rep], flagName[s.Flag], cntClasses[s.DC].name, drName[s.DR], cntClasses[s.VC].name, s.PendV1)
}

// ---- fixture identities ------------------------------------------------------

var (
	stkOnce sync.Once

	stkYP        params.YouParams // YouV5 of the test-case network
	stkYPSig     params.YouParams // YouV4 of the test-case network, master address replaced
	stkCfgSig    *vm.Config
	stkRole      = params.RoleHouse
	stkRoleS     = params.RoleSenator
	stkMax       *big.Int // MaxStakes[house] in LU
	stkDV        *big.Int // value of the add / deposit messages = MinDelegationTokens
	stkOwnDlg    *big.Int // S2's earlier delegation to T (2 x dv)
	stkPeriodEnd uint64

	stkMasterKey *ecdsa.PrivateKey
	stkOtherPub  [][]byte         // main keys of the other validators O_k
	stkOtherAddr []common.Address // their main addresses
	stkSelfPub   []byte           // validator whose main address is S2
	stkSelfAddr  common.Address
	stkSenPub    []byte // senator validator of the master-signature family
	stkSenAddr   common.Address
	stkDlg       []common.Address // other delegators D_j
	stkOp        = common.HexToAddress("0x0b00000000000000000000000000000000000001")
	stkCb        = common.HexToAddress("0x0b00000000000000000000000000000000000002")
	stkPrevTx    = common.HexToHash("0x7100000000000000000000000000000000000000000000000000000000000001") // hash of "an earlier staking tx of this period"
)

func stkKey(b byte) *ecdsa.PrivateKey {
	k, err := crypto.ToECDSA(common.LeftPadBytes([]byte{b}, 32))
	if err != nil {
		panic(err)
	}
	return k
}

func stkSetup() {
	setup()
	stkOnce.Do(func() {
		stkYP = params.Versions[params.YouCurrentVersion]
		if stkYP.Version != params.YouV5 {
			panic("harness: the staking sub-product is written for YouV5 as the current version")
		}
		stkMax = new(big.Int).Mul(new(big.Int).SetUint64(stkYP.MaxStakes[stkRole]), stx.Unit)
		stkDV = new(big.Int).Set(stkYP.MinDelegationTokens)
		stkOwnDlg = new(big.Int).Mul(stkDV, big.NewInt(2))
		f := stkYP.StakingTrieFrequency
		stkPeriodEnd = (blockNum/f+1)*f - 1
		if stkMax.Sign() == 0 || stkYP.SignatureRequired[stkRole] {
			panic("harness: the test-case parameters changed (no MaxStakes for house / master signature required)")
		}
		for k := 0; k < stkYP.MaxDelegationForDelegator; k++ {
			pub := crypto.CompressPubkey(&stkKey(byte(0x60 + k)).PublicKey)
			stkOtherPub = append(stkOtherPub, pub)
			stkOtherAddr = append(stkOtherAddr, state.PubToAddress(pub))
		}
		stkSelfPub = crypto.CompressPubkey(&keys[1].PublicKey)
		stkSelfAddr = state.PubToAddress(stkSelfPub)
		if stkSelfAddr != senders[1] {
			panic("harness: validator main address is not the account address of the same key")
		}
		stkSenPub = crypto.CompressPubkey(&stkKey(0x5e).PublicKey)
		stkSenAddr = state.PubToAddress(stkSenPub)
		for j := 0; j < stkYP.MaxDelegationForValidator; j++ {
			stkDlg = append(stkDlg, common.BigToAddress(new(big.Int).Add(new(big.Int).Lsh(big.NewInt(0xd1), 152), big.NewInt(int64(j+1)))))
		}
		// master-signature family: the YouV4 parameters (chancellor and senator need
		// the master's signature bound to the transaction nonce); the master key of
		// the shipped parameters is not available, its address is replaced
		stkMasterKey = stkKey(0x33)
		stkYPSig = params.Versions[params.YouV4]
		stkYPSig.MasterAddress = crypto.PubkeyToAddress(stkMasterKey.PublicKey)
		if !stkYPSig.SignatureRequired[stkRoleS] || stkYPSig.Version != params.YouV4 {
			panic("harness: YouV4 no longer requires the master signature for senators")
		}
		stkCfgSig = core.CombineVMConfig(&stkYPSig, vm.LocalConfig{})
		installStkCapture()
	})
}

// levelValue gives E for a level (role house).
func levelValue(level int) *big.Int {
	switch level {
	case lvTiny:
		return new(big.Int).Sub(new(big.Int).Mul(new(big.Int).SetUint64(stkYP.MinStakes[stkRole]), stx.Unit), big.NewInt(1))
	case lvLow:
		return stx.Tok(1000, 0)
	case lvFit: // E + dv = max + Unit - 1: the stake is still max
		e := new(big.Int).Sub(stkMax, stkDV)
		return e.Add(e, stx.Unit).Sub(e, big.NewInt(1))
	case lvOver: // E + dv = max + Unit: the stake is max+1
		e := new(big.Int).Sub(stkMax, stkDV)
		return e.Add(e, stx.Unit)
	case lvMax:
		return new(big.Int).Set(stkMax)
	}
	panic("level")
}

// ---- building a prepared state ---------------------------------------------------

// stkUniverse: every validator address / delegator the fixture can hold (for
// the link invariants and for naming differences).
func stkValidators() []common.Address {
	as := []common.Address{addrV0, addrV1, stkSelfAddr, stkSenAddr}
	return append(as, stkOtherAddr...)
}

func stkDelegators() []common.Address {
	return append([]common.Address{senders[0], senders[1]}, stkDlg...)
}

func (s stkState) build(family string) (*base, error) {
	db, _ := stx.NewDB()
	st, err := state.New(common.Hash{}, common.Hash{}, common.Hash{}, db)
	if err != nil {
		return nil, err
	}
	st.SetBalance(senders[0], large)
	st.SetNonce(senders[0], stkNonceBase)
	st.SetBalance(senders[1], large)
	st.SetNonce(senders[1], stkNonceBase)
	st.SetBalance(addrE, big.NewInt(5))
	st.SetBalance(stkOp, big.NewInt(7))
	for _, d := range stkDlg {
		st.SetBalance(d, big.NewInt(1))
	}
	dlgTok := stkDV
	mk := func(name string, op common.Address, role params.ValidatorRole, pub []byte, token *big.Int, accept uint16, status uint8) {
		if st.CreateValidator(name, op, stkCb, role, pub, []byte{9}, token, params.YOUToStake(token), accept, 1000, 5000, status) == nil {
			panic("harness: cannot create fixture validator " + name)
		}
	}
	delegate := func(d, v common.Address, tok *big.Int) {
		val := st.GetValidatorByMainAddr(v)
		if _, _, _, fl := st.UpdateDelegation(d, val, tok); fl != params.Create {
			panic(fmt.Sprintf("harness: fixture delegation not created (%v)", fl))
		}
	}
	pendingDelegation := func(d, v common.Address, tok *big.Int, hash common.Hash, bumpTotal bool) {
		// the writes of a successful handleDelegationAdd for a new relationship
		if bumpTotal {
			val := st.GetValidatorByMainAddr(v)
			tot := st.GetStakingRecordValue(common.Address{}, v)
			if tot.Sign() == 0 {
				tot.Set(val.Token)
			}
			st.AddStakingRecord(common.Address{}, v, common.Hash{}, tot.Add(tot, tok))
		}
		st.AddPendingRelationship(d, v)
		st.AddStakingRecord(d, v, hash, tok)
	}

	// the other validators and the validator whose main address is S2
	for k := range stkOtherPub {
		mk(fmt.Sprintf("o%d", k), stkOp, stkRole, stkOtherPub[k], stx.Tok(1000, 0), params.AcceptDelegation, params.ValidatorOnline)
	}
	mk("self", stkOp, stkRole, stkSelfPub, stx.Tok(1000, 0), params.AcceptDelegation, params.ValidatorOnline)

	if family == "mastersig" {
		// senator T' (needs the master's signature under YouV4), operator S1
		if s.Level != lvAbsent {
			status := uint8(params.ValidatorOnline)
			if s.Flag == flOffline {
				status = params.ValidatorOffline
			}
			mk("sen", senders[0], stkRoleS, stkSenPub, stx.Tok(1000, 0), params.AcceptDelegation, status)
		}
	} else if s.Level != lvAbsent {
		e := levelValue(s.Level)
		vEx, vPend := cntClasses[s.VC].counts(stkYP.MaxDelegationForValidator)
		existing := new(big.Int).Mul(dlgTok, big.NewInt(int64(vEx)))
		pendingAdds := new(big.Int).Mul(dlgTok, big.NewInt(int64(vPend)))
		if s.DR == drExisting {
			existing.Add(existing, stkOwnDlg)
		}
		if s.DR == drPending {
			pendingAdds.Add(pendingAdds, stkOwnDlg)
		}
		token := new(big.Int).Set(e)
		pendingDeposit := false
		switch {
		case s.Rep == repToken && pendingAdds.Sign() != 0:
			return nil, nil // not reachable: a pending delegation implies a pending total
		case s.Rep == repPending && pendingAdds.Sign() != 0:
			token.Sub(token, pendingAdds)
		case s.Rep == repPending:
			pendingDeposit = true
			token.Sub(token, stkDV)
		}
		self := new(big.Int).Sub(token, existing)
		if self.Sign() <= 0 {
			return nil, nil // level too small to hold these delegations
		}
		accept := uint16(params.AcceptDelegation)
		if s.Flag == flNoDelegation {
			accept = 0
		}
		status := uint8(params.ValidatorOnline)
		if s.Flag != flNormal && s.Flag != flNoDelegation {
			status = params.ValidatorOffline
		}
		mk("t", senders[0], stkRole, stx.ValPub[1], self, accept, status)
		for j := 0; j < vEx; j++ {
			delegate(stkDlg[j], addrV0, dlgTok)
		}
		if s.DR == drExisting {
			delegate(senders[1], addrV0, stkOwnDlg)
		}
		if s.Flag == flExpelledLong || s.Flag == flExpelledShort {
			old := st.GetValidatorByMainAddr(addrV0)
			nv := old.PartialCopy()
			nv.Expelled = true
			nv.ExpelExpired = stkPeriodEnd
			if s.Flag == flExpelledLong {
				nv.ExpelExpired = stkPeriodEnd + 1
			}
			if !st.UpdateValidator(nv, old) {
				panic("harness: cannot mark the fixture validator expelled")
			}
		}
		if tk := st.GetValidatorByMainAddr(addrV0).Token; tk.Cmp(token) != 0 {
			panic(fmt.Sprintf("harness: fixture validator token %v, want %v", tk, token))
		}
		// pending items of the current period
		if pendingDeposit {
			st.AddStakingRecord(common.Address{}, addrV0, stkPrevTx, e) // handleDeposit
		} else if s.Rep == repPending {
			st.AddStakingRecord(common.Address{}, addrV0, common.Hash{}, e) // checkAndUpdateTotalPendingStakesOfValidator
		}
		for j := 0; j < vPend; j++ {
			h := stkPrevTx
			h[31] = byte(0x10 + j)
			pendingDelegation(stkDlg[vEx+j], addrV0, dlgTok, h, false)
		}
		if s.DR == drPending {
			h := stkPrevTx
			h[31] = 0x02
			pendingDelegation(senders[1], addrV0, stkOwnDlg, h, false)
		}
	}
	// the delegator's other relationships
	dEx, dPend := cntClasses[s.DC].counts(stkYP.MaxDelegationForDelegator)
	for k := 0; k < dEx; k++ {
		delegate(senders[1], stkOtherAddr[k], dlgTok)
	}
	for k := 0; k < dPend; k++ {
		h := stkPrevTx
		h[31] = byte(0x30 + k)
		pendingDelegation(senders[1], stkOtherAddr[dEx+k], dlgTok, h, true)
	}
	if s.PendV1 {
		st.AddStakingRecord(common.Address{}, addrV1, func() common.Hash { h := stkPrevTx; h[31] = 0x03; return h }(), vcreateV) // handleCreate
	}
	if bad := stx.CheckLinksOver(st, stkValidators(), stkDelegators()); len(bad) > 0 {
		return nil, fmt.Errorf("prepared state %q breaks the link invariants: %v", s.String(), bad)
	}
	r0, r1, r2, err := st.Commit(true)
	if err != nil {
		return nil, err
	}
	return &base{db: db, roots: [3]common.Hash{r0, r1, r2}}, nil
}

// ---- families ---------------------------------------------------------------------

type stkMsg struct {
	Name      string
	Kind      string // create | update | deposit | withdraw | status | settle | dadd | dsub | dsettle | other
	Surcharge bool   // a decodable message with action ValidatorCreate (YouV5: creation surcharge)
	// build returns the wire data, the tokens the message stakes when it succeeds
	// (nil: none) and the validator they are staked on
	build func(st *state.StateDB, from int, nonce uint64) (data []byte, stake *big.Int, target common.Address)
}

type stkFamily struct {
	Name      string
	States    []stkState
	Msgs      []stkMsg
	Froms     []int
	Funds     []string
	Prices    []int64
	cfg       *vm.Config
	surcharge uint64
}

// funding classes: (gas limit, sender balance)
var stkFunds = []string{
	"limit=intrinsic-1,balance=large",
	"limit=needed,balance=gas+stake",
	"limit=needed-1,balance=large",
	"limit=ample,balance=gas-1",
	"limit=ample,balance=gas",
	"limit=ample,balance=gas+stake-1",
	"limit=ample,balance=gas+stake",
	"limit=ample,balance=large",
}

func encStk(action staking.ActionType, payload interface{}) []byte {
	bs, err := rlp.EncodeToBytes(payload)
	if err != nil {
		panic(err)
	}
	out, err := rlp.EncodeToBytes(&staking.Message{Action: action, Payload: bs})
	if err != nil {
		panic(err)
	}
	return out
}

func tokAdd(a *big.Int, lu int64) *big.Int { return new(big.Int).Add(a, big.NewInt(lu)) }

func fixed(data []byte, stake *big.Int, target common.Address) func(*state.StateDB, int, uint64) ([]byte, *big.Int, common.Address) {
	return func(*state.StateDB, int, uint64) ([]byte, *big.Int, common.Address) { return data, stake, target }
}

func createMsg(name string, role params.ValidatorRole, pub []byte, value *big.Int) stkMsg {
	target := state.PubToAddress(pub)
	return stkMsg{Name: name, Kind: "create", Surcharge: true, build: func(_ *state.StateDB, _ int, nonce uint64) ([]byte, *big.Int, common.Address) {
		return encStk(staking.ValidatorCreate, &staking.TxCreateValidator{Name: "v1", OperatorAddress: senders[0], Coinbase: addrE, MainPubKey: pub, BlsPubKey: []byte{1, 2, 3},
			Value: value, Nonce: nonce, Role: role, AcceptDelegation: 1, CommissionRate: 10, RiskObligation: 10}), value, target
	}}
}

// effective self-staking as handleWithdraw reads it (input construction only)
func curSelf(st *state.StateDB, v common.Address) *big.Int {
	cur := st.GetStakingRecordValue(common.Address{}, v)
	if cur.Sign() == 0 {
		if val := st.GetValidatorByMainAddr(v); val != nil {
			cur.Set(val.SelfToken)
		} else {
			cur.Set(stkDV)
		}
	}
	return cur
}

// effective delegation of d on v: pending record, else the delegation in the record, else 0
func effDelegation(st *state.StateDB, d, v common.Address) *big.Int {
	cur := st.GetStakingRecordValue(d, v)
	if cur.Sign() == 0 {
		if val := st.GetValidatorByMainAddr(v); val != nil {
			if df := val.GetDelegationFrom(d); df != nil {
				cur.Set(df.Token)
			}
		}
	}
	return cur
}

// effective total of v: pending total, else the validator's tokens, else 0
func effTotal(st *state.StateDB, v common.Address) *big.Int {
	cur := st.GetStakingRecordValue(common.Address{}, v)
	if cur.Sign() == 0 {
		if val := st.GetValidatorByMainAddr(v); val != nil {
			cur.Set(val.Token)
		}
	}
	return cur
}

func validatorMsgs() []stkMsg {
	unit := stx.Unit
	minSelfCh := new(big.Int).Mul(new(big.Int).SetUint64(stkYP.MinSelfStakes[params.RoleChancellor]), unit)
	overflow := new(big.Int).Add(stkMax, unit)
	dep := func(name string, v common.Address, value *big.Int) stkMsg {
		return stkMsg{Name: name, Kind: "deposit", build: func(_ *state.StateDB, _ int, nonce uint64) ([]byte, *big.Int, common.Address) {
			return encStk(staking.ValidatorDeposit, &staking.TxValidatorDeposit{MainAddress: v, Value: value, Nonce: nonce}), value, v
		}}
	}
	wd := func(name string, rcpt common.Address, value func(st *state.StateDB) *big.Int) stkMsg {
		return stkMsg{Name: name, Kind: "withdraw", build: func(st *state.StateDB, _ int, nonce uint64) ([]byte, *big.Int, common.Address) {
			return encStk(staking.ValidatorWithDraw, &staking.TxValidatorWithdraw{MainAddress: addrV0, Recipient: rcpt, Value: value(st), Nonce: nonce}), nil, addrV0
		}}
	}
	status := func(name string, s uint8) stkMsg {
		return stkMsg{Name: name, Kind: "status", build: func(_ *state.StateDB, _ int, nonce uint64) ([]byte, *big.Int, common.Address) {
			return encStk(staking.ValidatorChangeStatus, &staking.TxValidatorChangeStatus{MainAddress: addrV0, Status: s, Nonce: nonce}), nil, addrV0
		}}
	}
	upd := func(name, newName string) stkMsg {
		return stkMsg{Name: name, Kind: "update", build: func(_ *state.StateDB, _ int, nonce uint64) ([]byte, *big.Int, common.Address) {
			return encStk(staking.ValidatorUpdate, &staking.TxUpdateValidator{Nonce: nonce, Name: newName, MainAddress: addrV0,
				CommissionRate: math.MaxUint16, RiskObligation: math.MaxUint16, AcceptDelegation: params.AcceptDelegation}), nil, addrV0
		}}
	}
	return []stkMsg{
		createMsg("create(V1,house,2 units)", stkRole, stx.ValPub[2], vcreateV),
		createMsg("create(V1,chancellor,min-self-stake - 1LU)", params.RoleChancellor, stx.ValPub[2], tokAdd(minSelfCh, -1)),
		createMsg("create(V1,chancellor,min-self-stake)", params.RoleChancellor, stx.ValPub[2], minSelfCh),
		createMsg("create(V1,house,max+1unit-1LU)", stkRole, stx.ValPub[2], tokAdd(overflow, -1)),
		createMsg("create(V1,house,max+1unit)", stkRole, stx.ValPub[2], overflow),
		createMsg("create(main key of T)", stkRole, stx.ValPub[1], vcreateV),
		createMsg("create(main key of 10 bytes)", stkRole, []byte{1, 2, 3, 4, 5, 6, 7, 8, 9, 10}, vcreateV),
		upd("update(T,new name)", "renamed"),
		upd("update(T,nothing)", ""),
		dep("deposit(T,dv)", addrV0, stkDV),
		dep("deposit(T,1 LU)", addrV0, big.NewInt(1)),
		dep("deposit(T,1 unit)", addrV0, new(big.Int).Set(unit)),
		dep("deposit(T,0)", addrV0, new(big.Int)),
		dep("deposit(unknown validator,dv)", addrN, stkDV),
		wd("withdraw(T,dv)", addrE, func(*state.StateDB) *big.Int { return stkDV }),
		wd("withdraw(T,all)", addrE, func(st *state.StateDB) *big.Int { return curSelf(st, addrV0) }),
		wd("withdraw(T,all+1LU)", addrE, func(st *state.StateDB) *big.Int { return tokAdd(curSelf(st, addrV0), 1) }),
		wd("withdraw(T,dv,no recipient)", common.Address{}, func(*state.StateDB) *big.Int { return stkDV }),
		status("status(T,online)", params.ValidatorOnline),
		status("status(T,offline)", params.ValidatorOffline),
		status("status(T,2)", 2),
		{Name: "settle(T)", Kind: "settle", build: fixed(encStk(staking.ValidatorSettle, &staking.TxValidatorSettle{MainAddress: addrV0}), nil, addrV0)},
		{Name: "action 7", Kind: "other", build: fixed(encStk(staking.ActionType(7), &staking.TxValidatorSettle{MainAddress: addrV0}), nil, addrV0)},
		{Name: "deposit with undecodable payload", Kind: "deposit", build: fixed(func() []byte {
			out, _ := rlp.EncodeToBytes(&staking.Message{Action: staking.ValidatorDeposit, Payload: []byte{0xfe, 0x00, 0xfe}})
			return out
		}(), nil, addrV0)},
		{Name: "undecodable message", Kind: "other", build: fixed([]byte{0xfe, 0x00, 0xfe}, nil, addrV0)},
		{Name: "empty data", Kind: "other", build: fixed(nil, nil, addrV0)},
	}
}

func delegationMsgs() []stkMsg {
	add := func(name string, v common.Address, value *big.Int) stkMsg {
		return stkMsg{Name: name, Kind: "dadd", build: fixed(encStk(staking.DelegationAdd, &staking.TxDelegation{Validator: v, Value: value}), value, v)}
	}
	sub := func(name string, value func(st *state.StateDB, d common.Address) *big.Int) stkMsg {
		return stkMsg{Name: name, Kind: "dsub", build: func(st *state.StateDB, from int, _ uint64) ([]byte, *big.Int, common.Address) {
			return encStk(staking.DelegationSub, &staking.TxDelegation{Validator: addrV0, Value: value(st, senders[from])}), nil, addrV0
		}}
	}
	all := func(st *state.StateDB, d common.Address) *big.Int {
		if cur := effDelegation(st, d, addrV0); cur.Sign() > 0 {
			return cur
		}
		return new(big.Int).Set(stkDV)
	}
	return []stkMsg{
		add("delegate(T,dv)", addrV0, stkDV),
		add("delegate(T,dv-1LU)", addrV0, tokAdd(stkDV, -1)),
		add("delegate(validator whose main address is the sender,dv)", stkSelfAddr, stkDV),
		add("delegate(unknown validator,dv)", addrN, stkDV),
		sub("undelegate(T,dv)", func(*state.StateDB, common.Address) *big.Int { return stkDV }),
		sub("undelegate(T,all)", all),
		sub("undelegate(T,all+1LU)", func(st *state.StateDB, d common.Address) *big.Int { return tokAdd(all(st, d), 1) }),
		{Name: "settle-delegation(T)", Kind: "dsettle", build: fixed(encStk(staking.DelegationSettle, &staking.TxDelegationSettle{Validator: addrV0}), nil, addrV0)},
	}
}

// master-signature family: each message carries the master's signature over
// (message, message nonce); the transaction nonce is n.
var sigVariants = []string{"signed for n", "signed for n-1 (stale)", "signed for n+1", "unsigned", "signed by the sender instead of the master", "signed for n, nonce field then set to n-1"}

func masterSigMsgs() []stkMsg {
	var out []stkMsg
	type mk struct {
		name, kind string
		surcharge  bool
		action     staking.ActionType
		make       func(nonce uint64) (staking.Msg, func([]byte), func(uint64), *big.Int, common.Address)
	}
	mks := []mk{
		{"create(V1,senator,2 units)", "create", true, staking.ValidatorCreate, func(n uint64) (staking.Msg, func([]byte), func(uint64), *big.Int, common.Address) {
			m := &staking.TxCreateValidator{Name: "v1", OperatorAddress: senders[0], Coinbase: addrE, MainPubKey: stx.ValPub[2], BlsPubKey: []byte{1, 2, 3},
				Value: vcreateV, Nonce: n, Role: stkRoleS, AcceptDelegation: 1, CommissionRate: 10, RiskObligation: 10}
			return m, func(s []byte) { m.Sign = s }, func(x uint64) { m.Nonce = x }, vcreateV, addrV1
		}},
		{"update(T',new name)", "update", false, staking.ValidatorUpdate, func(n uint64) (staking.Msg, func([]byte), func(uint64), *big.Int, common.Address) {
			m := &staking.TxUpdateValidator{Nonce: n, Name: "renamed", MainAddress: stkSenAddr, CommissionRate: math.MaxUint16, RiskObligation: math.MaxUint16, AcceptDelegation: params.AcceptDelegation}
			return m, func(s []byte) { m.Sign = s }, func(x uint64) { m.Nonce = x }, nil, stkSenAddr
		}},
		{"deposit(T',dv)", "deposit", false, staking.ValidatorDeposit, func(n uint64) (staking.Msg, func([]byte), func(uint64), *big.Int, common.Address) {
			m := &staking.TxValidatorDeposit{MainAddress: stkSenAddr, Value: stkDV, Nonce: n}
			return m, func(s []byte) { m.Sign = s }, func(x uint64) { m.Nonce = x }, stkDV, stkSenAddr
		}},
		{"withdraw(T',dv)", "withdraw", false, staking.ValidatorWithDraw, func(n uint64) (staking.Msg, func([]byte), func(uint64), *big.Int, common.Address) {
			m := &staking.TxValidatorWithdraw{MainAddress: stkSenAddr, Recipient: addrE, Value: stkDV, Nonce: n}
			return m, func(s []byte) { m.Sign = s }, func(x uint64) { m.Nonce = x }, nil, stkSenAddr
		}},
		{"status(T',online)", "status", false, staking.ValidatorChangeStatus, func(n uint64) (staking.Msg, func([]byte), func(uint64), *big.Int, common.Address) {
			m := &staking.TxValidatorChangeStatus{MainAddress: stkSenAddr, Status: params.ValidatorOnline, Nonce: n}
			return m, func(s []byte) { m.Sign = s }, func(x uint64) { m.Nonce = x }, nil, stkSenAddr
		}},
		{"status(T',offline)", "status", false, staking.ValidatorChangeStatus, func(n uint64) (staking.Msg, func([]byte), func(uint64), *big.Int, common.Address) {
			m := &staking.TxValidatorChangeStatus{MainAddress: stkSenAddr, Status: params.ValidatorOffline, Nonce: n}
			return m, func(s []byte) { m.Sign = s }, func(x uint64) { m.Nonce = x }, nil, stkSenAddr
		}},
	}
	for i := range mks {
		m := mks[i]
		for v := range sigVariants {
			variant := v
			out = append(out, stkMsg{Name: m.name + " " + sigVariants[variant], Kind: m.kind, Surcharge: m.surcharge,
				build: func(_ *state.StateDB, from int, nonce uint64) ([]byte, *big.Int, common.Address) {
					msgNonce := nonce
					switch variant {
					case 1:
						msgNonce = nonce - 1
					case 2:
						msgNonce = nonce + 1
					}
					msg, setSign, setNonce, stake, target := m.make(msgNonce)
					key := stkMasterKey
					if variant == 4 {
						key = keys[from]
					}
					if variant != 3 {
						sig, err := staking.MakeSign(msg, key)
						if err != nil {
							panic(err)
						}
						setSign(sig)
					}
					if variant == 5 {
						setNonce(nonce - 1)
					}
					return encStk(m.action, msg), stake, target
				}})
		}
	}
	return out
}

// stkFamilies lists the three sub-products.
func stkFamilies(thorough bool) []*stkFamily {
	stkSetup()
	prices := []int64{2}
	if thorough {
		prices = []int64{0, 1, 2, 3}
	}
	val := &stkFamily{Name: "validator", Msgs: validatorMsgs(), Froms: []int{0, 1}, Funds: stkFunds, Prices: prices, cfg: vmCfg, surcharge: params.TxValCreationGas}
	for _, pend := range []bool{false, true} {
		val.States = append(val.States, stkState{Level: lvAbsent, PendV1: pend})
		for level := lvTiny; level < numLevels; level++ {
			for rep := repToken; rep <= repPending; rep++ {
				for _, fl := range []int{flNormal, flOffline, flExpelledLong, flExpelledShort} {
					val.States = append(val.States, stkState{Level: level, Rep: rep, Flag: fl, PendV1: pend})
				}
			}
		}
	}
	dlg := &stkFamily{Name: "delegation", Msgs: delegationMsgs(), Froms: []int{1}, Funds: stkFunds, Prices: prices, cfg: vmCfg, surcharge: params.TxValCreationGas}
	for dc := range cntClasses {
		dlg.States = append(dlg.States, stkState{Level: lvAbsent, DC: dc})
		for level := lvLow; level < numLevels; level++ {
			for rep := repToken; rep <= repPending; rep++ {
				for _, fl := range []int{flNormal, flNoDelegation, flExpelledLong} {
					for dr := drNone; dr <= drPending; dr++ {
						for vc := range cntClasses {
							if rep == repToken && (dr == drPending || cntClasses[vc].pending > 0) {
								continue // a pending delegation implies a pending total
							}
							dlg.States = append(dlg.States, stkState{Level: level, Rep: rep, Flag: fl, DC: dc, DR: dr, VC: vc})
						}
					}
				}
			}
		}
	}
	sig := &stkFamily{Name: "mastersig", Msgs: masterSigMsgs(), Froms: []int{0, 1}, Prices: prices, cfg: stkCfgSig, surcharge: 0,
		Funds: []string{"limit=needed,balance=gas+stake", "limit=ample,balance=gas", "limit=ample,balance=large"}}
	sig.States = []stkState{{Level: lvAbsent}, {Level: lvLow, Flag: flNormal}, {Level: lvLow, Flag: flOffline}}
	return []*stkFamily{val, dlg, sig}
}
