// Package c17: transactions are authentic, applied at most once, and charged
// exactly.
//
//	auth:    every single-field mutation of signed transactions, other network
//	         ids and the high-s twin through the real types.Sender/YouSigner;
//	product: the full boundary product of (sender, nonce, price, limit, to,
//	         value, payload, balance, pool) through the real
//	         StateProcessor.ApplyTransaction (staking converter registered)
//	         against an independent accounting model;
//	staking: the full product prepared state x staking message x sender x
//	         funding class x price for validator, delegation and master-signed
//	         messages (stk_fixture.go, stk_run.go): refused = nothing changes,
//	         failed = nonce+1 and the gas fee only, successful = the staked
//	         value leaves the sender and arrives in the pending records;
//	seq:     every sequence of <= 3 (thorough 4) transactions from a
//	         10-element alphabet sharing one GasPool and two senders.
package c17

import (
	"crypto/ecdsa"
	"fmt"
	"math/big"
	"sync"

	"github.com/youchainhq/go-youchain/common"
	"github.com/youchainhq/go-youchain/core"
	"github.com/youchainhq/go-youchain/core/state"
	"github.com/youchainhq/go-youchain/core/types"
	"github.com/youchainhq/go-youchain/core/vm"
	"github.com/youchainhq/go-youchain/crypto"
	"github.com/youchainhq/go-youchain/logging"
	"github.com/youchainhq/go-youchain/params"
	"github.com/youchainhq/go-youchain/staking"

	"verif/checks/stx"
)

const (
	netID      = params.NetworkIdForTestCase // 99
	blockLimit = uint64(8000000)
	blockNum   = 100
	nonceS1    = uint64(5)
	nonceS2    = uint64(9)
)

// recipients
const (
	toNil = iota
	toE
	toN
	toR
	toW
	toC
	toStake
	numTo
)

var toName = []string{"create", "EOA", "new-account", "reverting-contract", "storing-contract", "clearing-contract", "staking-module"}

var (
	keys    [2]*ecdsa.PrivateKey
	senders [2]common.Address
	addrE   = common.HexToAddress("0xe000000000000000000000000000000000000001")
	addrN   = common.HexToAddress("0xe000000000000000000000000000000000000002") // does not exist
	addrR   = common.HexToAddress("0xc000000000000000000000000000000000000001")
	addrW   = common.HexToAddress("0xc000000000000000000000000000000000000002")
	addrC   = common.HexToAddress("0xc000000000000000000000000000000000000003")
	addrCB  = common.HexToAddress("0xcb00000000000000000000000000000000000001")
	addrV0  common.Address // main address of the fixture validator (operator = S1)
	addrV1  common.Address // main address used by the validator-create message

	codeR = []byte{0x60, 0x00, 0x60, 0x00, 0xfd}       // PUSH1 0 PUSH1 0 REVERT
	codeW = []byte{0x60, 0x01, 0x60, 0x00, 0x55, 0x00} // slot0 := 1
	codeC = []byte{0x60, 0x00, 0x60, 0x00, 0x55, 0x00} // slot0 := 0 (slot0 starts at 7: refund)

	large     = new(big.Int).Exp(big.NewInt(10), big.NewInt(24), nil)
	depositV  = stx.Tok(1, 0) // amount staked by the valid deposit message
	vcreateV  = stx.Tok(2, 0) // amount staked by the validator-create message
	v0Token   = stx.Tok(100, 0)
	slot0     = common.Hash{}
	signer    types.Signer
	processor *core.StateProcessor
	vmCfg     *vm.Config
	chain     = chainStub{}

	payloadDeposit []byte
	payloadVCreate []byte

	setupOnce sync.Once
)

type chainStub struct{}

func (chainStub) VersionForRound(uint64) (*params.YouParams, error) {
	yp := params.Versions[params.YouCurrentVersion]
	return &yp, nil
}
func (chainStub) GetHeader(common.Hash, uint64) *types.Header { return nil }

func setup() {
	setupOnce.Do(func() {
		params.InitNetworkId(netID)
		logging.Root().SetHandler(logging.DiscardHandler())
		logging.VerifCritHook = func(msg string, ctx []interface{}) { panic("logging.Crit: " + msg) }
		for i := range keys {
			k, err := crypto.ToECDSA(common.LeftPadBytes([]byte{byte(0x11 * (i + 1))}, 32))
			if err != nil {
				panic(err)
			}
			keys[i] = k
			senders[i] = crypto.PubkeyToAddress(k.PublicKey)
		}
		addrV0 = stx.ValAddr[1]
		addrV1 = stx.ValAddr[2]
		signer = types.MakeSigner(big.NewInt(blockNum))

		// the processor exactly as the node wires it: default (EVM) converter +
		// the staking module registered on the router
		processor = core.NewStateProcessor(nil, nil)
		staking.NewStaking(nil).Register(processor)
		var err error
		vmCfg, err = core.PrepareVMConfig(chain, blockNum, vm.LocalConfig{})
		if err != nil {
			panic(err)
		}

		trackedCache = computeTracked()
		payloadDeposit, err = staking.EncodeMessage(staking.ValidatorDeposit, &staking.TxValidatorDeposit{MainAddress: addrV0, Value: depositV})
		if err != nil {
			panic(err)
		}
		payloadVCreate, err = staking.EncodeMessage(staking.ValidatorCreate, &staking.TxCreateValidator{
			Name: "v1", OperatorAddress: senders[0], Coinbase: addrE, MainPubKey: stx.ValPub[2], BlsPubKey: []byte{1, 2, 3},
			Value: vcreateV, Role: params.RoleHouse, AcceptDelegation: 1, CommissionRate: 10, RiskObligation: 10})
		if err != nil {
			panic(err)
		}
	})
}

// base is one committed base state (per worker: the caching database is not
// shared between goroutines).
type base struct {
	db    state.Database
	roots [3]common.Hash
}

func newBase() *base { return newBaseBal(large, large) }

func newBaseBal(bal1, bal2 *big.Int) *base {
	db, _ := stx.NewDB()
	st, err := state.New(common.Hash{}, common.Hash{}, common.Hash{}, db)
	if err != nil {
		panic(err)
	}
	st.SetBalance(senders[0], bal1)
	st.SetNonce(senders[0], nonceS1)
	st.SetBalance(senders[1], bal2)
	st.SetNonce(senders[1], nonceS2)
	st.SetBalance(addrE, big.NewInt(5))
	st.SetCode(addrR, codeR)
	st.SetCode(addrW, codeW)
	st.SetCode(addrC, codeC)
	st.SetState(addrC, slot0, common.BigToHash(big.NewInt(7)))
	st.CreateValidator("v0", senders[0], addrE, params.RoleHouse, stx.ValPub[1], []byte{9}, v0Token, params.YOUToStake(v0Token), 1, 1000, 5000, params.ValidatorOnline)
	r0, r1, r2, err := st.Commit(true)
	if err != nil {
		panic(err)
	}
	return &base{db: db, roots: [3]common.Hash{r0, r1, r2}}
}

func (b *base) open() *state.StateDB {
	st, err := state.New(b.roots[0], b.roots[1], b.roots[2], b.db)
	if err != nil {
		panic(err)
	}
	return st
}

func newHeader() *types.Header {
	return &types.Header{Number: big.NewInt(blockNum), GasLimit: blockLimit, Coinbase: addrCB, Time: 1600000000,
		GasRewards: new(big.Int), Subsidy: new(big.Int), CurrVersion: params.YouCurrentVersion}
}

// txd describes one transaction of the alphabet.
type txd struct {
	From    int
	Nonce   uint64
	Price   int64
	Limit   uint64
	To      int
	Value   *big.Int
	Data    []byte
	Payload string // name of the payload class
}

func (t *txd) String() string {
	return fmt.Sprintf("S%d nonce=%d price=%d limit=%d to=%s value=%v payload=%s", t.From+1, t.Nonce, t.Price, t.Limit, toName[t.To], t.Value, t.Payload)
}

func toAddr(to int) *common.Address {
	var a common.Address
	switch to {
	case toNil:
		return nil
	case toE:
		a = addrE
	case toN:
		a = addrN
	case toR:
		a = addrR
	case toW:
		a = addrW
	case toC:
		a = addrC
	case toStake:
		a = params.StakingModuleAddress
	}
	return &a
}

func (t *txd) sign() *types.Transaction {
	var tx *types.Transaction
	if t.To == toNil {
		tx = types.NewContractCreation(t.Nonce, t.Value, t.Limit, big.NewInt(t.Price), t.Data)
	} else {
		tx = types.NewTransaction(t.Nonce, *toAddr(t.To), t.Value, t.Limit, big.NewInt(t.Price), t.Data)
	}
	signed, err := types.SignTx(tx, signer, keys[t.From])
	if err != nil {
		panic(err)
	}
	return signed
}
