package c17

import (
	"fmt"
	"math"
	"math/big"

	"github.com/youchainhq/go-youchain/core"
	"github.com/youchainhq/go-youchain/core/types"

	"verif/mc"
)

// dimensions of the boundary product
var (
	dimFrom    = []int{0, 1}
	dimNonce   = []string{"n-1", "n", "n+1", "max"}
	dimPrice   = []int64{0, 1, 3}
	dimLimit   = []string{"0", "intrinsic-1", "intrinsic", "intrinsic+1", "100000", "1100000", "blockLimit", "blockLimit+1"}
	dimTo      = []int{toNil, toE, toN, toR, toW, toC, toStake}
	dimValue   = []int64{0, 1, 1000}
	dimPayload = []string{"empty", "00", "01", "garbage", "initcode", "deposit", "vcreate"}
	dimBalance = []string{"0", "gas-1", "gas", "gas+value-1", "gas+value", "gas+stake-1", "gas+stake", "large"}
	dimPool    = []string{"limit-1", "limit", "large"}
)

// index vector layout (dimension 0 varies fastest: the cases sharing one signed
// transaction are consecutive)
const (
	iBalance = iota
	iPool
	iFrom
	iNonce
	iPrice
	iLimit
	iTo
	iValue
	iPayload
)

func productDims() []int {
	return []int{len(dimBalance), len(dimPool), len(dimFrom), len(dimNonce), len(dimPrice), len(dimLimit), len(dimTo), len(dimValue), len(dimPayload)}
}

func payloadBytes(name string) []byte {
	switch name {
	case "empty":
		return nil
	case "00":
		return []byte{0x00}
	case "01":
		return []byte{0x01}
	case "garbage":
		return []byte{0xfe, 0x00, 0xfe}
	case "initcode":
		return append([]byte{}, codeW...)
	case "deposit":
		return payloadDeposit
	case "vcreate":
		return payloadVCreate
	}
	panic("payload " + name)
}

type productInput struct {
	Phase string `json:"phase"`
	Idx   []int  `json:"idx"`
	Desc  string `json:"desc"`
}

// productCase materialises one index vector: the transaction, the sender's
// balance and the pool size.
func productCase(idx []int) (t *txd, bal *big.Int, pool uint64, desc string) {
	t = &txd{From: dimFrom[idx[iFrom]], Price: dimPrice[idx[iPrice]], To: dimTo[idx[iTo]], Value: big.NewInt(dimValue[idx[iValue]]), Payload: dimPayload[idx[iPayload]]}
	t.Data = payloadBytes(t.Payload)
	n := nonceS1
	if t.From == 1 {
		n = nonceS2
	}
	switch dimNonce[idx[iNonce]] {
	case "n-1":
		t.Nonce = n - 1
	case "n":
		t.Nonce = n
	case "n+1":
		t.Nonce = n + 1
	case "max":
		t.Nonce = math.MaxUint64
	}
	intr := intrinsicGas(t.To, t.Data)
	switch dimLimit[idx[iLimit]] {
	case "0":
		t.Limit = 0
	case "intrinsic-1":
		t.Limit = intr - 1
	case "intrinsic":
		t.Limit = intr
	case "intrinsic+1":
		t.Limit = intr + 1
	case "100000":
		t.Limit = 100000
	case "1100000":
		t.Limit = 1100000
	case "blockLimit":
		t.Limit = blockLimit
	case "blockLimit+1":
		t.Limit = blockLimit + 1
	}
	gasCost := new(big.Int).Mul(new(big.Int).SetUint64(t.Limit), big.NewInt(t.Price))
	stake := new(big.Int)
	switch t.Payload {
	case "deposit":
		stake.Set(depositV)
	case "vcreate":
		stake.Set(vcreateV)
	}
	bal = new(big.Int)
	switch dimBalance[idx[iBalance]] {
	case "0":
	case "gas-1":
		bal.Sub(gasCost, big.NewInt(1))
	case "gas":
		bal.Set(gasCost)
	case "gas+value-1":
		bal.Add(gasCost, t.Value).Sub(bal, big.NewInt(1))
	case "gas+value":
		bal.Add(gasCost, t.Value)
	case "gas+stake-1":
		bal.Add(gasCost, stake).Sub(bal, big.NewInt(1))
	case "gas+stake":
		bal.Add(gasCost, stake)
	case "large":
		bal.Set(large)
	}
	if bal.Sign() < 0 {
		bal.SetInt64(0)
	}
	switch dimPool[idx[iPool]] {
	case "limit-1":
		pool = t.Limit - 1
		if t.Limit == 0 {
			pool = 0
		}
	case "limit":
		pool = t.Limit
	case "large":
		pool = blockLimit
	}
	desc = fmt.Sprintf("%s | balance(%s)=%v pool(%s)=%d", t, dimBalance[idx[iBalance]], bal, dimPool[idx[iPool]], pool)
	return
}

// runProductCase builds a fresh block on the committed base, gives the sender
// its balance (as an earlier transaction of the block would), and applies the
// transaction.
func runProductCase(bs *base, idx []int, cache *txCache, count func(string)) (string, []finding, string) {
	t, bal, pool, desc := productCase(idx)
	tx := cache.get(t)
	st := bs.open()
	st.SetBalance(senders[t.From], bal)
	st.Finalise(true)
	b := &block{st: st, gp: new(core.GasPool).AddGas(pool), h: newHeader(), m: newModel(pool, trackedShort)}
	b.m.get(senders[t.From]).bal.Set(bal)
	obs, fs := b.applyOne(t, tx, count)
	return obs, fs, desc
}

// txCache keeps the last signed transaction of a worker: the balance/pool
// cases of one transaction reuse the same object (sender already derived, as
// for a transaction handed over by the pool).
type txCache struct {
	key string
	tx  *types.Transaction
}

func (c *txCache) get(t *txd) *types.Transaction {
	k := t.String()
	if c.tx == nil || c.key != k {
		c.key, c.tx = k, t.sign()
	}
	return c.tx
}

func runProduct(r *mc.Run) {
	dims := productDims()
	bases := make([]*base, r.Workers)
	caches := make([]txCache, r.Workers)
	for i := range bases {
		bases[i] = newBase()
	}
	r.Enum(dims, func(w int, idx []int) {
		count := func(n string) { r.Count(n, 1) }
		obs, fs, desc := runProductCase(bases[w], idx, &caches[w], count)
		t, _, _, _ := productCase(idx)
		// distinct = distinct (recipient class, payload class, outcome) triples
		r.Distinct(fmt.Sprintf("product|%d|%s|%s|%s", t.To, t.Payload, dimLimit[idx[iLimit]], obs))
		if idx[iFrom] == 0 && idx[iNonce] == 1 && idx[iBalance] == 7 && idx[iPool] == 2 && idx[iPrice] == 1 && idx[iValue] == 1 && idx[iLimit] == 4 {
			r.Sample(desc + " => " + obs)
		}
		for _, f := range fs {
			r.Report(mc.Violation{Sig: f.sig, Detail: desc + "\n" + f.detail, Input: productInput{"product", append([]int{}, idx...), desc}})
		}
	})
}
