package c17

import (
	"fmt"
	"math/big"
	"strings"

	"github.com/youchainhq/go-youchain/common"
	"github.com/youchainhq/go-youchain/core"
	"github.com/youchainhq/go-youchain/core/state"
	"github.com/youchainhq/go-youchain/core/types"
	"github.com/youchainhq/go-youchain/crypto"
	"github.com/youchainhq/go-youchain/local"

	"verif/mc"
)

// block is one block under construction: real StateDB, real GasPool, header,
// and the model that shadows them.
type block struct {
	st     *state.StateDB
	gp     *core.GasPool
	h      *types.Header
	m      *model
	tcount int
	dead   bool
}

type finding struct {
	sig    string
	detail string
}

// applyOne drives one transaction exactly as miner/worker.go does
// (Prepare; Snapshot; ApplyTransaction; RevertToSnapshot on error) and judges
// it against the model.  count receives vacuity-counter names.
func (b *block) applyOne(t *txd, tx *types.Transaction, count func(string)) (obs string, out []finding) {
	p := b.m.predict(t)
	kind := toName[t.To]
	if t.To == toStake || t.To == toNil {
		kind += "/" + t.Payload
	}
	before := observe(b.st, b.gp, b.h, b.m.ntracked)
	beforeX := observeExtra(b.st)
	if d := diffNames(b.m.render(), before); d != "" {
		// the model and the real block disagree before the step: harness bug
		out = append(out, finding{"harness: model out of sync before the transaction: " + d, diffDetail(b.m.render(), before)})
		b.dead = true
		return "HARNESS", out
	}

	b.st.Prepare(tx.Hash(), common.Hash{}, b.tcount)
	snap := b.st.Snapshot()
	var (
		rec *types.Receipt
		gas uint64
		err error
	)
	msg, where := mc.CatchStack(func() {
		rec, gas, err = processor.ApplyTransaction(tx, signer, b.st, chain, b.h, &b.h.Coinbase, &b.h.GasUsed, b.h.GasRewards, b.gp, vmCfg, local.FakeRecorder())
	})
	if msg != "" {
		b.dead = true
		out = append(out, finding{fmt.Sprintf("panic in ApplyTransaction (to=%s) at %s", kind, where), msg})
		return "PANIC", out
	}

	if err != nil {
		// ---- refused ----
		reason := p.refuse
		if reason == "" {
			reason = "none(model would apply it)"
		}
		raw := observe(b.st, b.gp, b.h, b.m.ntracked)
		rawX := observeExtra(b.st)
		if p.refuse == "" {
			out = append(out, finding{fmt.Sprintf("valid transaction refused: %s", errClass(err)), t.String() + " err=" + err.Error()})
		} else if !errMatches(p.refuse, err) {
			out = append(out, finding{fmt.Sprintf("refusal reason differs: expected %s, got %s", p.refuse, errClass(err)), t.String() + " err=" + err.Error()})
		}
		if upFront(p.refuse) {
			count("refused_upfront_" + p.refuse)
			// the statement: changes nothing -- even before the caller's revert
			if d := canonSender(diffNames(before, raw), t.From); d != "" || beforeX != rawX {
				out = append(out, finding{fmt.Sprintf("refused tx changed state: %s (%s)", p.refuse, orStr(d, "validator/refund")),
					t.String() + " err=" + err.Error() + diffDetail(before, raw)})
			}
		} else {
			count("refused_late_" + reason)
		}
		// the production caller (miner) reverts to its snapshot
		if m2, w2 := mc.CatchStack(func() { b.st.RevertToSnapshot(snap) }); m2 != "" {
			b.dead = true
			out = append(out, finding{"panic in the miner's RevertToSnapshot after a refused tx at " + w2, m2})
			return "PANIC", out
		}
		after := observe(b.st, b.gp, b.h, b.m.ntracked)
		afterX := observeExtra(b.st)
		// state part (everything except the pool) must be as before for every refusal
		if d := canonSender(diffNames(stateOnly(before), stateOnly(after)), t.From); d != "" || beforeX != afterX {
			out = append(out, finding{fmt.Sprintf("refused tx changed state after the miner's revert: %s (%s)", reason, orStr(d, "validator/refund")),
				t.String() + " err=" + err.Error() + diffDetail(before, after)})
		}
		if !upFront(p.refuse) && b.gp.Gas() != b.m.pool {
			// outside the three reasons the statement names; recorded, not judged
			count("late_refusal_shrinks_pool_" + reason)
			b.m.pool = b.gp.Gas()
		}
		if b.h.GasUsed != b.m.used || b.h.GasRewards.Cmp(b.m.rewards) != 0 {
			out = append(out, finding{"refused tx changed header gas accounting: " + reason, t.String() + diffDetail(before, after)})
			b.m.used = b.h.GasUsed
			b.m.rewards.Set(b.h.GasRewards)
		}
		if len(out) > 0 {
			b.m.resync(b.st, b.gp, b.h) // keep exploring behind the discrepancy
		}
		return "refused:" + errClass(err), out
	}

	// ---- applied ----
	if p.refuse != "" {
		out = append(out, finding{fmt.Sprintf("transaction applied although %s", p.refuse), t.String()})
		b.tcount++
		b.m.resync(b.st, b.gp, b.h) // the model cannot follow an application it forbids: adopt the real values
		return "applied-but-forbidden", out
	}
	b.tcount++
	failed := rec.Status == types.ReceiptStatusFailed
	count(fmt.Sprintf("applied_%s_failed=%v", strings.Split(kind, "/")[0], failed))
	if gas < p.intrinsic || gas > t.Limit {
		out = append(out, finding{fmt.Sprintf("gas used outside [intrinsic, limit] (to=%s)", kind), fmt.Sprintf("%s: gasUsed=%d intrinsic=%d", t, gas, p.intrinsic)})
	}
	if p.statusKnown && failed != p.failed {
		out = append(out, finding{fmt.Sprintf("receipt status differs from the model (to=%s, model failed=%v)", kind, p.failed), t.String()})
	}
	if p.gasKnown && gas != p.gasUsed {
		out = append(out, finding{fmt.Sprintf("gas used differs from the accounting model (to=%s, failed=%v)", kind, failed), fmt.Sprintf("%s: gasUsed=%d model=%d (intrinsic %d)", t, gas, p.gasUsed, p.intrinsic)})
	}
	if p.capBinds {
		count("model_refund_cap_binding")
	}
	// the model advances with its own gas figure where it has one (so that a
	// wrong reported figure and a wrong charge show up as different failures),
	// with the reported one otherwise (then the statement's relation "charged
	// = value + gas used x price, pool decreased by gas used" is what is checked)
	mgas, mfailed := gas, failed
	if p.gasKnown {
		mgas = p.gasUsed
	}
	if p.statusKnown {
		mfailed = p.failed
	}
	b.m.commit(t, p, mfailed, mgas)
	// receipt consistency
	if rec.GasUsed != gas || rec.CumulativeGasUsed != b.h.GasUsed || rec.TxHash != tx.Hash() {
		out = append(out, finding{"receipt gas/cumulative gas/tx hash inconsistent", fmt.Sprintf("%s: receipt gasUsed=%d cumulative=%d, returned gas=%d header.GasUsed=%d", t, rec.GasUsed, rec.CumulativeGasUsed, gas, b.h.GasUsed)})
	}
	if t.To == toNil && rec.ContractAddress != crypto.CreateAddress(senders[t.From], t.Nonce) {
		out = append(out, finding{"receipt contract address is not CreateAddress(sender, nonce)", t.String()})
	}
	after := observe(b.st, b.gp, b.h, b.m.ntracked)
	want := b.m.render()
	if d := canonSender(diffNames(want, after), t.From); d != "" {
		// one finding per differing field class, so that a failure has the same
		// signature whichever other fields it drags along
		for _, f := range strings.Split(d, ",") {
			out = append(out, finding{fmt.Sprintf("applied tx: %s differs from the accounting model (to=%s, failed=%v)", f, kind, failed),
				fmt.Sprintf("%s gasUsed=%d%s", t, gas, diffDetail(want, after))})
		}
		b.m.resync(b.st, b.gp, b.h) // keep exploring behind the discrepancy
	}
	return fmt.Sprintf("applied:failed=%v,gas=%d", failed, gas), out
}

// canonSender names the transaction's sender "sender" in a field list so that
// the same failure has one signature whichever fixture account sent it.
func canonSender(d string, from int) string {
	me, other := "S1", "S2"
	if from == 1 {
		me, other = other, me
	}
	fs := strings.Split(d, ",")
	for i, f := range fs {
		switch f {
		case me:
			fs[i] = "sender"
		case other:
			fs[i] = "other-sender"
		}
	}
	return strings.Join(fs, ",")
}

func orStr(a, b string) string {
	if a != "" {
		return a
	}
	return b
}

// stateOnly drops the pool / header counters from an observation vector.
func stateOnly(o []string) []string {
	var out []string
	for _, f := range o {
		if strings.HasPrefix(f, "pool=") || strings.HasPrefix(f, "usedGas=") || strings.HasPrefix(f, "gasRewards=") {
			continue
		}
		out = append(out, f)
	}
	return out
}

func errClass(err error) string {
	s := err.Error()
	if len(s) > 60 {
		s = s[:60]
	}
	return s
}

var big0 = new(big.Int)
