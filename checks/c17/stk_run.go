package c17

// Staking sub-product, part 2: driver and oracle.
//
// Every case (prepared state, staking message, sender, funding class, price)
// is ONE transaction to the staking module applied through the real
// StateProcessor.ApplyTransaction, driven as miner/worker.go does.  The oracle
// does not re-implement the handlers' rules; it judges the outcome the real
// code reports:
//
//	refused            nothing changes (all three trie roots as before; for
//	                   "cannot pay for gas" also the pool, before any revert);
//	included, FAILED   the state differs from the state before by exactly
//	                   nonce+1 and balance - gasUsed x price of the sender: all
//	                   three trie roots equal those of a twin state on which
//	                   only these two writes were made; no log is left;
//	included, OK       the account trie equals the twin's after nonce+1 and
//	                   balance - gasUsed x price - staked value (staked value =
//	                   what the message declares for create / deposit /
//	                   delegate, nothing for the other kinds); the validator
//	                   trie is untouched (staking messages take effect at the
//	                   end of the period); the staking trie changed, and for the
//	                   three staking kinds the pending total of the validator
//	                   (and the pending delegation) rose by exactly the staked
//	                   value and names this transaction.
//
// The trie roots commit to everything that reaches the tries (accounts,
// storage, validators, statistics, withdraw queue, staking records, pending
// relationships).  A value that cannot be encoded (a negative amount) never
// reaches a trie, so the live objects next to the transaction (sender account,
// target validator, the two pending records, the pending relationship and its
// counters: what the next transaction of the block would read) are compared
// with the twin's through the API as well, the state's error memo must stay
// empty, and a state that cannot be hashed at all is a violation.  The
// observation over the whole fixture universe NAMES what differs; in the
// thorough tier it is also compared for every case.
// The handler's error text is taken from the converter's own "tx failed" log
// record (a log handler keyed by transaction hash; every worker uses its own
// nonce, so hashes never collide between workers); it labels the counters and
// goes into the detail text, the verdict and the signature do not depend on it.

import (
	"fmt"
	"math/big"
	"sort"
	"strings"
	"sync"
	"sync/atomic"

	"github.com/youchainhq/go-youchain/common"
	"github.com/youchainhq/go-youchain/core"
	"github.com/youchainhq/go-youchain/core/state"
	"github.com/youchainhq/go-youchain/core/types"
	"github.com/youchainhq/go-youchain/local"
	"github.com/youchainhq/go-youchain/logging"
	"github.com/youchainhq/go-youchain/params"

	"verif/checks/stx"
	"verif/mc"
)

type stkInput struct {
	Phase  string `json:"phase"`
	Family string `json:"family"`
	State  int    `json:"state"`
	Msg    int    `json:"msg"`
	From   int    `json:"from"` // index into the family's sender list
	Fund   int    `json:"fund"`
	Price  int64  `json:"price"`
	Desc   string `json:"desc"`
}

// ---- the converter's failure reason, from its own log record -----------------------

var (
	stkCapOn   int32
	stkCapture sync.Map // tx hash string -> reason
)

func installStkCapture() {
	logging.Root().SetHandler(logging.FuncHandler(func(rec *logging.Record) error {
		if rec.Lvl != logging.LvlWarn || atomic.LoadInt32(&stkCapOn) == 0 {
			return nil
		}
		if rec.Msg != "tx failed" && rec.Msg != "tx decode failed" {
			return nil
		}
		var hash, reason string
		for i := 0; i+1 < len(rec.Ctx); i += 2 {
			switch k, _ := rec.Ctx[i].(string); k {
			case "txhash":
				hash = fmt.Sprint(rec.Ctx[i+1])
			case "err":
				reason = fmt.Sprint(rec.Ctx[i+1])
			}
		}
		if rec.Msg == "tx decode failed" {
			reason = "undecodable staking message"
		}
		stkCapture.Store(hash, reason)
		return nil
	}))
}

func takeReason(h common.Hash) string {
	k := h.String()
	if v, ok := stkCapture.Load(k); ok {
		stkCapture.Delete(k)
		return v.(string)
	}
	return ""
}

const reasonNoCreationGas = "not enough gas for validator creation"

// ---- naming what differs between two states ------------------------------------------

type obsItem struct{ class, val string }

func stkObserve(st *state.StateDB, sender common.Address, yp *params.YouParams) []obsItem {
	var out []obsItem
	acct := func(group string, a common.Address) {
		if !st.Exist(a) {
			out = append(out, obsItem{"existence of " + group, "absent"}, obsItem{"balance of " + group, ""}, obsItem{"nonce of " + group, ""}, obsItem{"delegations of " + group, ""})
			return
		}
		out = append(out, obsItem{"existence of " + group, "present"},
			obsItem{"balance of " + group, st.GetBalance(a).String()},
			obsItem{"nonce of " + group, fmt.Sprint(st.GetNonce(a))},
			obsItem{"delegations of " + group, fmt.Sprintf("%v %x", st.VerifDelegationBalance(a), st.VerifDelegations(a))})
	}
	for i := range senders {
		g := "the other fixture sender"
		if senders[i] == sender {
			g = "the sender"
		}
		acct(g, senders[i])
	}
	for _, d := range stkDlg {
		acct("another delegator", d)
	}
	acct("the validators' operator", stkOp)
	acct("the validators' coinbase", stkCb)
	acct("the recipient account E", addrE)
	acct("the staking module address", params.StakingModuleAddress)
	acct("the zero address", common.Address{})
	acct("the block coinbase", addrCB)
	acct("the penalty account", yp.PenaltyTo)
	acct("the rewards pool", yp.RewardsPoolAddress)
	vals := stkValidators()
	for _, v := range vals {
		if v != senders[0] && v != senders[1] { // the "self" validator's main address IS fixture sender S2
			acct("a validator main address", v)
		}
	}
	for i, v := range vals {
		g := "validator record of another validator"
		switch i {
		case 0:
			g = "validator record of T"
		case 1:
			g = "validator record of V1"
		}
		out = append(out, obsItem{g, stx.ObserveVal(st.GetValidatorByMainAddr(v))})
	}
	stat, _ := st.GetValidatorsStat()
	out = append(out, obsItem{"validator statistics", stx.ObserveStat(stat)}, obsItem{"withdraw queue", stx.ObserveQueue(st.GetWithdrawQueue())})
	rec := func(class string, d, v common.Address) {
		r := st.GetStakingRecord(d, v)
		if r == nil {
			out = append(out, obsItem{class, "nil"})
			return
		}
		out = append(out, obsItem{class, fmt.Sprintf("%v %x", r.FinalValue, r.TxHashes)})
	}
	for _, v := range vals {
		rec("pending validator record (total)", common.Address{}, v)
		out = append(out, obsItem{"pending relationship count", fmt.Sprintf("v%d", st.ValidatorPendingCount(v))})
	}
	for _, d := range stkDelegators() {
		out = append(out, obsItem{"pending relationship count", fmt.Sprintf("d%d", st.DelegatorPendingCount(d))})
		for _, v := range vals {
			rec("pending delegation record", d, v)
			out = append(out, obsItem{"pending relationship", fmt.Sprint(st.PendingRelationshipExist(d, v))})
		}
	}
	return out
}

// stkDiff names the classes of observed items that differ (sorted, unique).
// staking=false leaves the staking-trie classes out.
func stkDiff(a, b *state.StateDB, sender common.Address, yp *params.YouParams, staking bool) (classes []string, detail string) {
	oa, ob := stkObserve(a, sender, yp), stkObserve(b, sender, yp)
	seen := map[string]bool{}
	var det strings.Builder
	for i := range oa {
		if oa[i].val == ob[i].val {
			continue
		}
		if !staking && strings.HasPrefix(oa[i].class, "pending ") {
			continue
		}
		if !seen[oa[i].class] {
			seen[oa[i].class] = true
			classes = append(classes, oa[i].class)
			fmt.Fprintf(&det, "\n  %s: real %s | expected %s", oa[i].class, oa[i].val, ob[i].val)
		}
	}
	sort.Strings(classes)
	return classes, det.String()
}

// stkNear reads the live objects next to the transaction (what the next
// transaction of the same block would read through the API), split into the
// account / validator part and the staking part.
func stkNear(st *state.StateDB, sender, target common.Address) (acctVal, stk string) {
	rec := func(d, v common.Address) string {
		r := st.GetStakingRecord(d, v)
		if r == nil {
			return "nil"
		}
		return fmt.Sprintf("%v %x", r.FinalValue, r.TxHashes)
	}
	acctVal = fmt.Sprintf("%v %v %d %v %x | %s", st.Exist(sender), st.GetBalance(sender), st.GetNonce(sender), st.VerifDelegationBalance(sender), st.VerifDelegations(sender),
		stx.ObserveVal(st.GetValidatorByMainAddr(target)))
	stk = fmt.Sprintf("%s | %s | %v %d %d %v", rec(common.Address{}, target), rec(sender, target), st.PendingRelationshipExist(sender, target),
		st.DelegatorPendingCount(sender), st.ValidatorPendingCount(target), st.PendingValidatorExist(target))
	return
}

// stkFull switches the comparison of the whole observed universe on for every
// case (thorough tier); otherwise it is computed only to name a difference.
var stkFull bool

// stkCompare judges the real state against its twin: the trie roots (they
// commit to everything that reaches the tries), the live objects next to the
// transaction (a value that cannot be encoded never reaches a trie), the
// state's error memo, and in the thorough tier the whole observed universe.
// staking=false leaves the staking part out (successful transactions).  It
// returns the classes of what differs, a detail text, the roots of the real
// state, and a panic message if the real state cannot be hashed.
func stkCompare(st, tw *state.StateDB, sender, target common.Address, yp *params.YouParams, staking bool) ([]string, string, [3]common.Hash, string) {
	return stkCompareWith(func(real, want *big.Int) string { return "differs" }, st, tw, sender, target, yp, staking)
}

func stkCompareWith(offBy func(real, want *big.Int) string, st, tw *state.StateDB, sender, target common.Address, yp *params.YouParams, staking bool) (classes []string, detail string, roots [3]common.Hash, panicked string) {
	nsA, nsS := stkNear(st, sender, target)
	ntA, ntS := stkNear(tw, sender, target)
	var b [3]common.Hash
	msg, where := mc.CatchStack(func() { roots[0], roots[1], roots[2] = st.IntermediateRoot(true) })
	if msg != "" {
		return nil, msg, roots, "panic while hashing the state after a staking transaction at " + where
	}
	b[0], b[1], b[2] = tw.IntermediateRoot(true)
	differ := roots[0] != b[0] || roots[1] != b[1] || nsA != ntA || (staking && (roots[2] != b[2] || nsS != ntS))
	if err := st.Error(); err != nil {
		classes = append(classes, "the state's database error memo is set")
		detail += "\n  state error: " + err.Error()
	}
	if !differ && !stkFull {
		return
	}
	cs, det := stkDiff(st, tw, sender, yp, staking)
	if differ && len(cs) == 0 {
		switch {
		case nsA != ntA || (staking && nsS != ntS):
			cs = []string{"live objects next to the transaction"}
			det = fmt.Sprintf("\n  real %s | %s\n  expected %s | %s", nsA, nsS, ntA, ntS)
		case roots[0] != b[0]:
			cs = []string{"account trie root only (outside the observed universe)"}
		case roots[1] != b[1]:
			cs = []string{"validator trie root only (outside the observed universe)"}
		default:
			cs = []string{"staking trie root only (outside the observed universe)"}
		}
	}
	for i, c := range cs {
		if c == "balance of the sender" {
			cs[i] = c + " " + offBy(st.GetBalance(sender), tw.GetBalance(sender))
		}
	}
	return append(classes, cs...), detail + det, roots, ""
}

// ---- one case --------------------------------------------------------------------------

type stkResult struct {
	obs     string
	desc    string
	skipped string // non-empty: the case collapses onto another one / is not reachable
	kind    string
	reason  string // handler error of a failed transaction
	status  string // refused | failed | ok
	fs      []finding
}

func (fam *stkFamily) runCase(bs *base, s stkState, in stkInput, w int, cache map[string]*types.Transaction) (res stkResult) {
	from := fam.Froms[in.From]
	sender := senders[from]
	nonce := stkNonceBase + uint64(w)
	m := fam.Msgs[in.Msg]
	yp := fam.cfg.CurrYouParams
	res.kind = m.Kind
	add := func(sig, detail string) { res.fs = append(res.fs, finding{sig, detail}) }

	st := bs.open()
	data, stake, target := m.build(st, from, nonce)
	if stake == nil {
		stake = new(big.Int)
	}
	intr := intrinsicGas(toStake, data)
	needed := intr
	if m.Surcharge {
		needed += fam.surcharge
	}
	ample := needed + 50000
	price := big.NewInt(in.Price)
	limit := ample
	fund := fam.Funds[in.Fund]
	switch {
	case strings.HasPrefix(fund, "limit=intrinsic-1"):
		limit = intr - 1
	case strings.HasPrefix(fund, "limit=needed-1"):
		if needed == intr {
			res.skipped = "limit=needed-1 is limit=intrinsic-1 for this message"
			return
		}
		limit = needed - 1
	case strings.HasPrefix(fund, "limit=needed"):
		limit = needed
	}
	gasCost := new(big.Int).Mul(new(big.Int).SetUint64(limit), price)
	bal := new(big.Int)
	switch fund[strings.Index(fund, "balance="):] {
	case "balance=large":
		bal.Set(large)
	case "balance=gas-1":
		if gasCost.Sign() == 0 {
			res.skipped = "balance=gas-1 does not exist at price 0"
			return
		}
		bal.Sub(gasCost, big.NewInt(1))
	case "balance=gas":
		bal.Set(gasCost)
	case "balance=gas+stake-1":
		if stake.Sign() == 0 {
			res.skipped = "balance=gas+stake-1 is balance=gas-1 for a message that stakes nothing"
			return
		}
		bal.Add(gasCost, stake).Sub(bal, big.NewInt(1))
	case "balance=gas+stake":
		if stake.Sign() == 0 && strings.HasPrefix(fund, "limit=ample") {
			res.skipped = "balance=gas+stake is balance=gas for a message that stakes nothing"
			return
		}
		bal.Add(gasCost, stake)
	default:
		panic("harness: funding class " + fund)
	}
	res.desc = fmt.Sprintf("family=%s state[%d]={%s} msg=%q from=S%d limit=%d price=%d balance=%v (%s; intrinsic %d, needed %d, stakes %v)",
		fam.Name, in.State, s.String(), m.Name, from+1, limit, in.Price, bal, fund, intr, needed, stake)

	key := fmt.Sprintf("%d|%d|%d|%x", from, limit, in.Price, data)
	tx := cache[key]
	if tx == nil {
		var err error
		tx, err = types.SignTx(types.NewTransaction(nonce, params.StakingModuleAddress, new(big.Int), limit, price, data), signer, keys[from])
		if err != nil {
			panic(err)
		}
		if len(cache) > 4096 {
			for k := range cache {
				delete(cache, k)
			}
		}
		cache[key] = tx
	}

	// the state before, and its twin
	prep := func(x *state.StateDB) {
		x.SetBalance(sender, bal)
		x.SetNonce(sender, nonce)
	}
	prep(st)
	p0, p1, p2 := st.IntermediateRoot(true)
	tw := bs.open()
	prep(tw)
	eTot := effTotal(st, target)
	eDlg := effDelegation(st, sender, target)

	gp := new(core.GasPool).AddGas(blockLimit)
	h := newHeader()
	st.Prepare(tx.Hash(), common.Hash{}, 0)
	snap := st.Snapshot()
	var (
		rec *types.Receipt
		gas uint64
		err error
	)
	msg, where := mc.CatchStack(func() {
		rec, gas, err = processor.ApplyTransaction(tx, signer, st, chain, h, &h.Coinbase, &h.GasUsed, h.GasRewards, gp, fam.cfg, local.FakeRecorder())
	})
	reason := takeReason(tx.Hash())
	if msg != "" {
		add(fmt.Sprintf("panic in ApplyTransaction of a staking transaction (%s) at %s", m.Kind, where), msg)
		res.status, res.obs = "panic", "PANIC"
		return
	}
	wantRefuse := ""
	if bal.Cmp(gasCost) < 0 {
		wantRefuse = rCannotPay
	} else if limit < intr {
		wantRefuse = rIntrinsic
	}

	if err != nil {
		// ---- refused ----
		res.status = "refused"
		res.reason = orStr(wantRefuse, "none(expected to be included)")
		if wantRefuse == "" {
			add(fmt.Sprintf("valid staking transaction refused (%s): %s", m.Kind, errClass(err)), err.Error())
		} else if !errMatches(wantRefuse, err) {
			add(fmt.Sprintf("refusal reason of a staking transaction differs: expected %s, got %s", wantRefuse, errClass(err)), err.Error())
		}
		if wantRefuse == rCannotPay {
			// one of the three reasons the statement names: nothing changes, even before the caller's revert
			if gp.Gas() != blockLimit {
				add("refused staking transaction changed the gas pool: "+wantRefuse, fmt.Sprintf("pool %d -> %d", blockLimit, gp.Gas()))
			}
		} else if m2, w2 := mc.CatchStack(func() { st.RevertToSnapshot(snap) }); m2 != "" {
			add("panic in the miner's RevertToSnapshot after a refused staking transaction at "+w2, m2)
			res.obs = "PANIC"
			return
		}
		if h.GasUsed != 0 || h.GasRewards.Sign() != 0 {
			add("refused staking transaction changed header gas accounting: "+res.reason, fmt.Sprintf("gasUsed=%d gasRewards=%v", h.GasUsed, h.GasRewards))
		}
		classes, det, roots, pan := stkCompare(st, tw, sender, target, yp, true)
		if pan != "" {
			add(pan, det)
			res.obs = "PANIC"
			return
		}
		if len(classes) == 0 && (roots[0] != p0 || roots[1] != p1 || roots[2] != p2) {
			add("harness: the twin of the state before has other roots", "")
		}
		for _, c := range classes {
			add(fmt.Sprintf("refused staking transaction changed state: %s (%s, %s)", c, m.Kind, res.reason), det)
		}
		res.obs = "refused:" + errClass(err)
		return
	}

	// ---- included ----
	if wantRefuse != "" {
		add("staking transaction applied although "+wantRefuse, "")
		res.status, res.obs = "applied-but-forbidden", "applied-but-forbidden"
		return
	}
	failed := rec.Status == types.ReceiptStatusFailed
	if failed && reason == "" {
		if m.Surcharge && limit-intr < fam.surcharge {
			reason = reasonNoCreationGas
		} else {
			reason = "unknown (the converter logged no error)"
			add("harness: failed staking transaction without a logged reason ("+m.Kind+")", "")
		}
	}
	if !failed && reason != "" {
		add(fmt.Sprintf("staking transaction whose handler failed has a successful receipt (%s)", m.Kind), "handler error: "+reason)
	}
	res.reason = reason
	res.status = "ok"
	if failed {
		res.status = "failed"
	}
	// gas: the converter's rule (YouV4 and later: a failed message burns its whole limit, except the creation surcharge that could not be paid)
	wantGas := needed
	switch {
	case failed && reason == reasonNoCreationGas:
		wantGas = intr
	case failed:
		wantGas = limit
	}
	if gas < intr || gas > limit {
		add(fmt.Sprintf("gas used by a staking transaction outside [intrinsic, limit] (%s)", m.Kind), fmt.Sprintf("gasUsed=%d intrinsic=%d limit=%d", gas, intr, limit))
	} else if gas != wantGas {
		add(fmt.Sprintf("gas used by a staking transaction differs from the converter's rule (%s, failed=%v)", m.Kind, failed), fmt.Sprintf("gasUsed=%d, rule says %d (intrinsic %d, limit %d)", gas, wantGas, intr, limit))
	}
	fee := new(big.Int).Mul(new(big.Int).SetUint64(gas), price)
	if gp.Gas() != blockLimit-gas || h.GasUsed != gas || h.GasRewards.Cmp(fee) != 0 {
		add(fmt.Sprintf("staking transaction: pool / header gas accounting differs from gas used (failed=%v)", failed),
			fmt.Sprintf("gasUsed=%d pool %d -> %d header.GasUsed=%d header.GasRewards=%v fee=%v", gas, blockLimit, gp.Gas(), h.GasUsed, h.GasRewards, fee))
	}
	if rec.GasUsed != gas || rec.CumulativeGasUsed != h.GasUsed || rec.TxHash != tx.Hash() {
		add("staking transaction: receipt gas/cumulative gas/tx hash inconsistent", fmt.Sprintf("receipt gasUsed=%d cumulative=%d, returned gas=%d", rec.GasUsed, rec.CumulativeGasUsed, gas))
	}
	if failed && (len(rec.Logs) != 0 || len(st.Logs()) != 0) {
		add(fmt.Sprintf("failed staking transaction left a log (%s)", m.Kind), fmt.Sprintf("handler error: %s; %d logs in the receipt, %d in the state", reason, len(rec.Logs), len(st.Logs())))
	}

	// the twin: nonce+1, the fee, and (successful only) the staked value
	tw.SetNonce(sender, nonce+1)
	tw.SubBalance(sender, fee)
	if !failed {
		tw.SubBalance(sender, stake)
	}
	if _, t1, t2 := tw.IntermediateRoot(true); t1 != p1 || t2 != p2 {
		add("harness: the twin's validator / staking roots moved", "")
	}
	unused := new(big.Int).Mul(new(big.Int).SetUint64(limit-needed), price)
	describe := func(real, want *big.Int) string {
		d := new(big.Int).Sub(real, want)
		how := "higher"
		if d.Sign() < 0 {
			how = "lower"
		}
		switch d.Abs(d); {
		case stake.Sign() > 0 && d.Cmp(stake) == 0:
			return "is " + how + " by exactly the value the message tried to stake"
		case unused.Sign() > 0 && d.Cmp(unused) == 0:
			return "is " + how + " by exactly (limit - needed gas) x price"
		}
		return "is " + how + " by another amount"
	}
	classes, det, roots, pan := stkCompareWith(describe, st, tw, sender, target, yp, failed)
	if pan != "" {
		add(fmt.Sprintf("%s (%s, failed=%v)", pan, m.Kind, failed), det)
		res.obs = "PANIC"
		return
	}
	if failed {
		for _, c := range classes {
			add(fmt.Sprintf("failed staking transaction changed more than the sender's nonce and the gas fee: %s (%s)", c, m.Kind),
				fmt.Sprintf("handler error: %s; gasUsed=%d fee=%v%s", reason, gas, fee, det))
		}
		res.obs = fmt.Sprintf("failed:%s,gas=%s", reason, gasClass(gas, intr, needed, limit))
		return
	}
	for _, c := range classes {
		add(fmt.Sprintf("successful staking transaction: %s, against \"the sender pays the gas fee plus the staked value, nothing else moves\" (%s)", c, m.Kind),
			fmt.Sprintf("gasUsed=%d fee=%v staked=%v%s", gas, fee, stake, det))
	}
	if roots[2] == p2 {
		add(fmt.Sprintf("successful staking transaction recorded nothing in the staking trie (%s)", m.Kind), "")
	}
	lastHash := func(d, v common.Address) common.Hash {
		if r := st.GetStakingRecord(d, v); r != nil && len(r.TxHashes) > 0 {
			return r.TxHashes[len(r.TxHashes)-1]
		}
		return common.Hash{}
	}
	switch m.Kind {
	case "create", "deposit", "dadd":
		if got, want := st.GetStakingRecordValue(common.Address{}, target), new(big.Int).Add(eTot, stake); got.Cmp(want) != 0 {
			add(fmt.Sprintf("successful staking transaction: the validator's pending total did not rise by the staked value (%s)", m.Kind),
				fmt.Sprintf("effective total before %v, staked %v, pending total after %v", eTot, stake, got))
		}
		d := common.Address{}
		if m.Kind == "dadd" {
			d = sender
			if got, want := st.GetStakingRecordValue(sender, target), new(big.Int).Add(eDlg, stake); got.Cmp(want) != 0 {
				add("successful staking transaction: the pending delegation did not rise by the staked value (dadd)",
					fmt.Sprintf("effective delegation before %v, staked %v, pending delegation after %v", eDlg, stake, got))
			}
			if !st.PendingRelationshipExist(sender, target) && st.GetValidatorByMainAddr(target).GetDelegationFrom(sender) == nil {
				add("successful staking transaction: new delegation without a pending relationship (dadd)", "")
			}
		}
		if lastHash(d, target) != tx.Hash() {
			add(fmt.Sprintf("successful staking transaction: the pending record does not name the transaction (%s)", m.Kind), "")
		}
	}
	res.obs = fmt.Sprintf("ok,gas=%s", gasClass(gas, intr, needed, limit))
	return
}

func gasClass(gas, intr, needed, limit uint64) string {
	switch gas {
	case needed:
		return "needed"
	case intr:
		return "intrinsic"
	case limit:
		return "limit"
	}
	return "other"
}

// ---- the enumeration ------------------------------------------------------------------

// late failures every run has to reach (handler errors that come AFTER the
// balance check); zero hits = the driver is vacuous.
var stkMustFail = [][2]string{
	{"deposit", "stakes overflow"},
	{"dadd", "stakes overflow"},
	{"dadd", "delegator can not delegates to any new validator due to limit"},
	{"dadd", "validator can not accepts more delegations from new delegator due to limit"},
	{"dadd", "insufficient balance for delegation"},
	{"deposit", "insufficient balance for paying a deposit"},
	{"create", "insufficient balance for paying a deposit"},
	{"create", reasonNoCreationGas},
	{"deposit", "invalidate master sign"},
}

var stkMustSucceed = []string{"create", "update", "deposit", "withdraw", "status", "settle", "dadd", "dsub", "dsettle"}

func runStaking(r *mc.Run) {
	fams := stkFamilies(!r.Quick())
	stkFull = !r.Quick()
	atomic.StoreInt32(&stkCapOn, 1)
	defer atomic.StoreInt32(&stkCapOn, 0)
	type item struct{ fam, state int }
	var items []item
	for f := range fams {
		for s := range fams[f].States {
			items = append(items, item{f, s})
		}
	}
	caches := make([]map[string]*types.Transaction, r.Workers)
	for i := range caches {
		caches[i] = map[string]*types.Transaction{}
	}
	var (
		mu      sync.Mutex
		totals  = map[string]int64{}
		samples = map[string]string{}
		ncases  = map[string]int64{}
		viols   = map[string]stkViol{}
	)
	// mc.Enum hands out chunks of 16 consecutive indices; a prepared state with
	// all its cases is a big work item, so only every 16th index carries one
	// (one item per chunk keeps the workers evenly loaded)
	const stride = 16
	r.ForEach(len(items)*stride, func(w, i int) {
		if i%stride != 0 {
			atomic.AddInt64(&r.Evaluations, -1)
			return
		}
		it := items[i/stride]
		fam := fams[it.fam]
		s := fam.States[it.state]
		bs, err := s.build(fam.Name)
		if err != nil {
			r.HarnessError(err.Error())
			return
		}
		cnt := map[string]int64{}
		lsamples := map[string]string{}
		var n int64
		defer func() {
			atomic.AddInt64(&r.Evaluations, n-1)
			mu.Lock()
			for k, v := range cnt {
				totals[k] += v
			}
			for k, v := range lsamples {
				if old, ok := samples[k]; !ok || v < old {
					samples[k] = v
				}
			}
			ncases[fam.Name] += n
			mu.Unlock()
		}()
		if bs == nil {
			cnt["stk_state_not_reachable_skipped"]++
			return
		}
		for mi := range fam.Msgs {
			for fi := range fam.Froms {
				for _, price := range fam.Prices {
					for fu := range fam.Funds {
						if r.Expired() {
							return
						}
						in := stkInput{Phase: "staking", Family: fam.Name, State: it.state, Msg: mi, From: fi, Fund: fu, Price: price}
						res := fam.runCase(bs, s, in, w, caches[w])
						if res.skipped != "" {
							cnt["stk_case_collapses_onto_another_skipped"]++
							continue
						}
						n++
						r.Distinct(fmt.Sprintf("staking|%s|%s|%s|%s", fam.Name, fam.Msgs[mi].Name, fam.Funds[fu], res.obs))
						key := ""
						switch res.status {
						case "refused":
							key = "stk_refused: " + res.reason
						case "failed":
							key = fmt.Sprintf("stk_failed[%s]: %s", res.kind, res.reason)
						case "ok":
							key = fmt.Sprintf("stk_ok[%s]", res.kind)
						default:
							key = "stk_" + res.status
						}
						cnt[key]++
						if old, ok := lsamples[key]; !ok || res.desc < old {
							lsamples[key] = res.desc + " => " + res.obs
						}
						for _, f := range res.fs {
							// one counterexample per signature: the first in enumeration order, whichever worker met it
							in.Desc = res.desc
							ord := [5]int{i, mi, fi, int(price), fu}
							mu.Lock()
							if old, ok := viols[f.sig]; !ok || ordLess(ord, old.ord) {
								viols[f.sig] = stkViol{ord, mc.Violation{Sig: f.sig, Detail: res.desc + "\n" + f.detail, Input: in}}
							}
							mu.Unlock()
						}
					}
				}
			}
		}
	})
	for _, v := range viols {
		r.Report(v.v)
	}
	for k, v := range totals {
		r.Count(k, v)
	}
	if !r.Expired() {
		for _, mf := range stkMustFail {
			if totals[fmt.Sprintf("stk_failed[%s]: %s", mf[0], mf[1])] == 0 {
				r.HarnessError(fmt.Sprintf("staking sub-product is vacuous: no %s transaction failed with %q", mf[0], mf[1]))
			}
		}
		for _, k := range stkMustSucceed {
			if totals["stk_ok["+k+"]"] == 0 {
				r.HarnessError(fmt.Sprintf("staking sub-product is vacuous: no %s transaction succeeded", k))
			}
		}
	}
	// evidence: the alphabets, and one verbatim case for each late failure
	var keep []string
	for _, mf := range stkMustFail[:4] {
		if s, ok := samples[fmt.Sprintf("stk_failed[%s]: %s", mf[0], mf[1])]; ok {
			keep = append(keep, s)
		}
	}
	for _, k := range []string{"stk_ok[dadd]", "stk_ok[deposit]", "stk_failed[deposit]: invalidate master sign"} {
		if s, ok := samples[k]; ok {
			keep = append(keep, s)
		}
	}
	r.SetExtra("staking_samples", keep)
	dims := map[string]interface{}{}
	for _, fam := range fams {
		var msgs []string
		for _, m := range fam.Msgs {
			msgs = append(msgs, m.Name)
		}
		dims[fam.Name] = map[string]interface{}{"prepared_states": len(fam.States), "messages": msgs, "senders": fam.Froms, "funding": fam.Funds, "prices": fam.Prices, "cases_run": ncases[fam.Name]}
	}
	dims["state_dimensions"] = map[string]interface{}{"T_total": levelName, "held": repName, "T_flag": flagName, "delegator_other_relationships": cntNames(), "delegator_to_T": drName, "T_other_delegators": cntNames(), "pending_create_V1": []bool{false, true}}
	r.SetExtra("staking_product", dims)
}

type stkViol struct {
	ord [5]int
	v   mc.Violation
}

func ordLess(a, b [5]int) bool {
	for i := range a {
		if a[i] != b[i] {
			return a[i] < b[i]
		}
	}
	return false
}

func cntNames() []string {
	var out []string
	for _, c := range cntClasses {
		out = append(out, c.name)
	}
	return out
}

// replayStaking re-runs one case of the staking sub-product.
func replayStaking(r *mc.Run, in stkInput, input interface{}) {
	for _, fam := range stkFamilies(false) {
		if fam.Name != in.Family {
			continue
		}
		if in.State >= len(fam.States) || in.Msg >= len(fam.Msgs) || in.From >= len(fam.Froms) || in.Fund >= len(fam.Funds) {
			fmt.Println("bad input: index out of range")
			return
		}
		atomic.StoreInt32(&stkCapOn, 1)
		s := fam.States[in.State]
		bs, err := s.build(fam.Name)
		if err != nil || bs == nil {
			fmt.Println("cannot build the prepared state:", err)
			return
		}
		res := fam.runCase(bs, s, in, 0, map[string]*types.Transaction{})
		fmt.Println(res.desc, "=>", res.obs, res.skipped)
		for _, f := range res.fs {
			fmt.Println("violation:", f.sig, "\n ", f.detail)
			r.Report(mc.Violation{Sig: f.sig, Detail: f.detail, Input: input})
		}
		return
	}
	fmt.Println("bad input: unknown family", in.Family)
}
