package c17

import (
	"encoding/json"
	"fmt"
	"os"
	"strconv"
	"time"

	"verif/mc"
)

// Run is the check entry point.
func Run(r *mc.Run) {
	setup()
	r.Level = "exploration"
	r.Rule = "auth: every single-field mutation (nonce/limit every bit, price/value low 72 bits, every recipient bit, every payload bit, every bit of R and S, V over 0..255+2*id and wide values, other network ids on signer and/or V, high-s twin) of 6 signed base transactions, decoded from wire form by the real decoder and given to types.Sender; " +
		"product: the full product sender x nonce x price x limit x recipient x value x payload x balance x pool through the real StateProcessor.ApplyTransaction driven as miner/worker.go does (Prepare, Snapshot, ApplyTransaction, RevertToSnapshot on error) with the staking converter registered, on a state reopened from a committed base; " +
		"seq: every sequence of <= depth transactions of a 10-element alphabet (two senders, competing nonces, one GasPool). A case is non-trivial when distinct: distinct = (recipient, payload, limit class, outcome incl. gas used) for product, (op, outcome) for sequences, (base, field, mutation) for auth"
	depth := 3
	if r.Quick() {
		r.SetBudget(150e9)
	} else {
		depth = 5
		r.SetBudget(30 * 60e9)
	}
	// VERIF_BUDGET_S=<seconds> shortens the internal deadline (the run then
	// ends with exhaustive:false, never with a failure)
	if s, err := strconv.Atoi(os.Getenv("VERIF_BUDGET_S")); err == nil && s > 0 {
		r.SetBudget(time.Duration(s) * time.Second)
	}
	r.Assume("YouV5 parameters of the test-case network (params.NetworkIdForTestCase); the staking module is registered on the processor exactly as node start-up does")
	r.Assume("gas fees are not credited to an account at transaction time in this chain (they accumulate in header.GasRewards); the model follows that")
	r.Assume("refusals outside the three reasons the statement names (limit below intrinsic gas, value not covered after gas) are required to leave the state untouched after the miner's RevertToSnapshot; their effect on the gas pool is counted (late_refusal_shrinks_pool_*), not judged")

	runAuth(r)
	runProduct(r)
	f := func() mc.System { return newSeqSys(r) }
	r.DFSAll(f, mc.SeqOpts{Name: "txseq", Depth: depth, ShardDepth: 2, NoDistinct: true})
	r.ConfirmSeq("txseq", f)
	r.SetExtra("sequence_depth", depth)
	r.SetExtra("sequence_executions", r.Executions)
	r.SetExtra("sequence_steps", r.Transitions)
	r.SetExtra("product_dims", map[string]interface{}{"from": dimFrom, "nonce": dimNonce, "price": dimPrice, "limit": dimLimit, "to": toName, "value": dimValue, "payload": dimPayload, "balance": dimBalance, "pool": dimPool})
}

// Replay re-executes a replay file without the explorer.
func Replay(r *mc.Run, v *mc.Violation) {
	setup()
	if len(v.Ops) > 0 {
		obs, viols, err := mc.ReplaySeq(newSeqSys(r), v.Ops)
		fmt.Println("obs:", obs, "err:", err)
		for _, x := range viols {
			x.System, x.Ops = v.System, v.Ops
			fmt.Println("violation:", x.Sig, "\n ", x.Detail)
			r.Report(x)
		}
		return
	}
	bs, _ := json.Marshal(v.Input)
	var in struct {
		Phase string `json:"phase"`
		Idx   []int  `json:"idx"`
		Base  int    `json:"base"`
		Mut   int    `json:"mutation"`
	}
	if err := json.Unmarshal(bs, &in); err != nil {
		fmt.Println("bad input:", err)
		return
	}
	switch in.Phase {
	case "auth":
		f := newAuthFixture()
		if in.Mut < 0 {
			runAuth(r)
			return
		}
		f.check(r, authCase{in.Base, in.Mut})
	case "product":
		obs, fs, desc := runProductCase(newBase(), in.Idx, &txCache{}, func(string) {})
		fmt.Println(desc, "=>", obs)
		for _, f := range fs {
			fmt.Println("violation:", f.sig, "\n ", f.detail)
			r.Report(mc.Violation{Sig: f.sig, Detail: f.detail, Input: v.Input})
		}
	}
}
