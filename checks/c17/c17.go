package c17

import (
	"encoding/json"
	"fmt"
	"os"
	"strconv"
	"strings"
	"time"

	"verif/mc"
)

// Run is the check entry point.
func Run(r *mc.Run) {
	setup()
	r.Level = "exploration"
	r.Rule = "auth: every single-field mutation (nonce/limit every bit, price/value low 72 bits, every recipient bit, every payload bit, every bit of R and S, V over 0..255+2*id and wide values, other network ids on signer and/or V, high-s twin) of 6 signed base transactions, decoded from wire form by the real decoder; EVERY mutated object is asked for its sender repeatedly, as the node does: types.Sender, types.Sender again, AsMessage, types.Sender with an equal signer built independently, core.ProcessSenders over a batch of NumCPU+1 transactions holding it followed by AsMessage and Sender, and a fresh object of the same wire form whose first contact is ProcessSenders (each answer: refused or a sender other than the original signer, never the zero address without an error, the same answer every time); control: every valid base transaction object queried by a foreign-network signer and the right signer in both orders, 13 steps, for 6 foreign ids (foreign = refused every time, right = the signer every time); " +
		"forged: the full product base transaction (4) x forgery (9: high-s twin, N-s, foreign network in V (2), R=0, S=0, R+N, unprotected V, wide V) x way to ApplyTransaction (4: directly; after ProcessSenders on a batch of NumCPU+1; after ProcessSenders and after the valid transactions before it were applied; after a refused types.Sender and ProcessSenders) x position in the batch (3), two attempts each, on a state where the zero address holds funds: refused for its signature, all three trie roots, gas pool and header counters untouched; " +
		"product: the full product sender x nonce x price x limit x recipient x value x payload x balance x pool through the real StateProcessor.ApplyTransaction driven as miner/worker.go does (Prepare, Snapshot, ApplyTransaction, RevertToSnapshot on error) with the staking converter registered, on a state reopened from a committed base; " +
		"staking: for each of three families (validator messages, delegation messages, master-signed messages under YouV4) the full product prepared state x staking message x sender x funding class x price (lists in coverage.staking_product), one transaction to the staking module each, through the same ApplyTransaction path; the prepared states put every check of the staking handlers on its boundary (validator absent / below MinStakes / low / dv just fits under MaxStakes / dv overflows by one LU / at MaxStakes, that total in the record or in a pending total; online / offline / expelled with expiry on either side of the period end / not accepting delegations; delegator with 0 / max-1 / max other delegations, the last one existing or pending; delegator's own delegation to the validator none / existing / pending; validator with 0 / max-1 / max other delegators, the last one existing or pending; pending create), built by the production write patterns and checked against the C08 link invariants; oracle: refused = all three trie roots as before, included-but-failed = all three trie roots equal a twin state that got only nonce+1 and balance - gasUsed x price and no log is left, included-and-successful = account trie equals the twin after nonce+1 and balance - gasUsed x price - staked value, validator trie untouched, staking trie changed, pending total (and pending delegation) up by exactly the staked value and naming the transaction; gas used = the converter's rule; pool, header counters and receipt consistent; next to the trie roots the live objects around the transaction (sender, target validator, its pending records, relationship and counters) are compared with the twin's through the API, the state's error memo must stay empty and the state must be hashable, thorough: the whole observed fixture universe is compared for every case; the handler's error text is read from the converter's log record and only labels counters and detail texts (stk_failed[kind]: reason); the run is a harness error if any late failure (stakes overflow via deposit and via delegation, delegator limit, validator limit) or any successful kind has zero hits; " +
		"seq: every sequence of <= depth transactions of a 10-element alphabet (two senders, competing nonces, one GasPool). A case is non-trivial when distinct: distinct = (recipient, payload, limit class, outcome incl. gas used) for product, (op, outcome) for sequences, (base, field, mutation) for auth, (base, forgery, way, position) for forged, (family, message, funding class, outcome incl. handler error and gas class) for staking"
	depth := 3
	if r.Quick() {
		r.SetBudget(150e9)
	} else {
		depth = 5
		r.SetBudget(30 * 60e9)
	}
	// VERIF_BUDGET_S=<seconds> shortens the internal deadline (the run then
	// ends with exhaustive:false, never with a failure)
	if s, err := strconv.Atoi(os.Getenv("VERIF_BUDGET_S")); err == nil && s > 0 {
		r.SetBudget(time.Duration(s) * time.Second)
	}
	r.Assume("YouV5 parameters of the test-case network (params.NetworkIdForTestCase); the staking module is registered on the processor exactly as node start-up does")
	r.Assume("gas fees are not credited to an account at transaction time in this chain (they accumulate in header.GasRewards); the model follows that")
	r.Assume("staking sub-product, master-signature family: the YouV4 parameters of the test-case network (the last version in which a role needs the master's signature) with the master address replaced by a fixture key, because the key of the shipped address is not available; block number 100, staking period end 111")
	r.Assume("refusals outside the three reasons the statement names (limit below intrinsic gas, value not covered after gas) are required to leave the state untouched after the miner's RevertToSnapshot; their effect on the gas pool is counted (late_refusal_shrinks_pool_*), not judged")

	// VERIF_C17_PHASES=auth,forged,product,staking,seq restricts the run to some
	// phases (development aid; the run is then marked as not exhaustive)
	on := func(string) bool { return true }
	if ph := os.Getenv("VERIF_C17_PHASES"); ph != "" {
		r.Cap("VERIF_C17_PHASES restricts the run to: " + ph)
		on = func(p string) bool { return strings.Contains(","+ph+",", ","+p+",") }
	}
	if on("auth") {
		runAuth(r)
	}
	if on("forged") {
		runForged(r)
	}
	if on("product") {
		runProduct(r)
	}
	if on("staking") {
		runStaking(r)
	}
	f := func() mc.System { return newSeqSys(r) }
	if on("seq") {
		r.DFSAll(f, mc.SeqOpts{Name: "txseq", Depth: depth, ShardDepth: 2, NoDistinct: true})
		r.ConfirmSeq("txseq", f)
	}
	r.SetExtra("sequence_depth", depth)
	r.SetExtra("sequence_executions", r.Executions)
	r.SetExtra("sequence_steps", r.Transitions)
	r.SetExtra("product_dims", map[string]interface{}{"from": dimFrom, "nonce": dimNonce, "price": dimPrice, "limit": dimLimit, "to": toName, "value": dimValue, "payload": dimPayload, "balance": dimBalance, "pool": dimPool})
}

// Replay re-executes a replay file without the explorer.
func Replay(r *mc.Run, v *mc.Violation) {
	setup()
	if len(v.Ops) > 0 {
		obs, viols, err := mc.ReplaySeq(newSeqSys(r), v.Ops)
		fmt.Println("obs:", obs, "err:", err)
		for _, x := range viols {
			x.System, x.Ops = v.System, v.Ops
			fmt.Println("violation:", x.Sig, "\n ", x.Detail)
			r.Report(x)
		}
		return
	}
	bs, _ := json.Marshal(v.Input)
	var in struct {
		Phase string `json:"phase"`
		Idx   []int  `json:"idx"`
		Base  int    `json:"base"`
		Mut   int    `json:"mutation"`
	}
	if err := json.Unmarshal(bs, &in); err != nil {
		fmt.Println("bad input:", err)
		return
	}
	switch in.Phase {
	case "auth":
		f := newAuthFixture()
		if in.Mut < 0 {
			runAuth(r)
			return
		}
		f.check(r, authCase{in.Base, in.Mut})
	case "forged":
		var fin forgedInput
		if err := json.Unmarshal(bs, &fin); err != nil {
			fmt.Println("bad input:", err)
			return
		}
		fs, desc := runForgedCase(newBase(), fillerTxs(), fin, func(string) {})
		fmt.Println(desc)
		for _, f := range fs {
			fmt.Println("violation:", f.sig, "\n ", f.detail)
			r.Report(mc.Violation{Sig: f.sig, Detail: f.detail, Input: v.Input})
		}
	case "staking":
		var sin stkInput
		if err := json.Unmarshal(bs, &sin); err != nil {
			fmt.Println("bad input:", err)
			return
		}
		replayStaking(r, sin, v.Input)
	case "product":
		obs, fs, desc := runProductCase(newBase(), in.Idx, &txCache{}, func(string) {})
		fmt.Println(desc, "=>", obs)
		for _, f := range fs {
			fmt.Println("violation:", f.sig, "\n ", f.detail)
			r.Report(mc.Violation{Sig: f.sig, Detail: f.detail, Input: v.Input})
		}
	}
}
