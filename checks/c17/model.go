package c17

import (
	"fmt"
	"math/big"
	"sort"
	"strings"

	"github.com/youchainhq/go-youchain/common"
	"github.com/youchainhq/go-youchain/core"
	"github.com/youchainhq/go-youchain/core/state"
	"github.com/youchainhq/go-youchain/core/types"
	"github.com/youchainhq/go-youchain/crypto"
	"github.com/youchainhq/go-youchain/params"

	"verif/checks/stx"
)

// ---- the accounting model (independent of core/, written from the protocol
// rules: intrinsic gas table, EIP-2200 costs of the three fixture contracts,
// refund cap, staking converter rules of YouV5) -----------------------------

type macct struct {
	exists bool
	bal    *big.Int
	nonce  uint64
	code   int    // code length
	slot   uint64 // storage slot 0
}

type model struct {
	acc       map[common.Address]*macct
	pool      uint64
	used      uint64
	rewards   *big.Int
	pendingV0 *big.Int // pending staking record of validator V0 (0 = none)
	pendingV1 bool     // pending validator-create record for V1
	nlogs     int
	ntracked  int
}

// tracked addresses, in observation order
var trackedCache []common.Address

// trackedAddrs: the observed universe.  The product phase (one transaction)
// needs only the first generation of created addresses.
func trackedAddrs() []common.Address {
	if trackedCache == nil {
		trackedCache = computeTracked()
	}
	return trackedCache
}

const trackedShort = 11 // S1..CB + new(S1,n) + new(S2,m)

func computeTracked() []common.Address {
	as := []common.Address{senders[0], senders[1], addrE, addrN, addrR, addrW, addrC, params.StakingModuleAddress, addrCB}
	for k := uint64(0); k < 4; k++ {
		as = append(as, crypto.CreateAddress(senders[0], nonceS1+k), crypto.CreateAddress(senders[1], nonceS2+k))
	}
	return as
}

var trackedNames = []string{"S1", "S2", "E", "N", "R", "W", "C", "SM", "CB", "new(S1,n)", "new(S2,m)", "new(S1,n+1)", "new(S2,m+1)", "new(S1,n+2)", "new(S2,m+2)", "new(S1,n+3)", "new(S2,m+3)"}

func newModel(pool uint64, ntracked int) *model {
	m := &model{acc: map[common.Address]*macct{}, pool: pool, rewards: new(big.Int), pendingV0: new(big.Int), ntracked: ntracked}
	for _, a := range trackedAddrs()[:ntracked] {
		m.acc[a] = &macct{bal: new(big.Int)}
	}
	set := func(a common.Address, bal *big.Int, nonce uint64, code int, slot uint64) {
		m.acc[a] = &macct{exists: true, bal: new(big.Int).Set(bal), nonce: nonce, code: code, slot: slot}
	}
	set(senders[0], large, nonceS1, 0, 0)
	set(senders[1], large, nonceS2, 0, 0)
	set(addrE, big.NewInt(5), 0, 0, 0)
	set(addrR, new(big.Int), 0, len(codeR), 0)
	set(addrW, new(big.Int), 0, len(codeW), 0)
	set(addrC, new(big.Int), 0, len(codeC), 7)
	return m
}

func (m *model) get(a common.Address) *macct {
	x, ok := m.acc[a]
	if !ok {
		panic(fmt.Sprintf("harness: untracked address %x", a))
	}
	return x
}

func intrinsicGas(to int, data []byte) uint64 {
	g := uint64(21000)
	switch to {
	case toNil:
		g = 53000
	case toStake:
		g = 100000
	}
	for _, b := range data {
		if b == 0 {
			g += 4
		} else {
			g += 16
		}
	}
	return g
}

// refusal reasons in the order the protocol checks them
const (
	rNone        = ""
	rNonceLow    = "nonce-too-low"
	rNonceHigh   = "nonce-too-high"
	rCannotPay   = "cannot-pay-for-gas"
	rPool        = "block-gas-exhausted"
	rIntrinsic   = "limit-below-intrinsic-gas"
	rValue       = "cannot-pay-value"
	execGasSstor = 6 // PUSH1 PUSH1 before the SSTORE / REVERT of the fixture contracts
)

// upFront reports whether the reason is one of the three the property names.
func upFront(reason string) bool {
	return reason == rNonceLow || reason == rNonceHigh || reason == rCannotPay || reason == rPool
}

// prediction of one application
type pred struct {
	refuse string
	// applied:
	statusKnown bool
	failed      bool
	gasKnown    bool
	gasUsed     uint64
	intrinsic   uint64
	capBinds    bool // the refund counter exceeded half of the gas used
	// effects when not failed
	apply func(m *model)
}

func errMatches(reason string, err error) bool {
	if err == nil {
		return false
	}
	switch reason {
	case rNonceLow:
		return err == core.ErrNonceTooLow
	case rNonceHigh:
		return err == core.ErrNonceTooHigh
	case rCannotPay:
		return err.Error() == "insufficient balance to pay for gas"
	case rPool:
		return err == core.ErrGasLimitReached
	case rIntrinsic:
		return err.Error() == "out of gas"
	case rValue:
		return err.Error() == "insufficient balance for transfer"
	}
	return false
}

// sstoreExec returns (ok, execGas, refund) of "PUSH1 v PUSH1 0 SSTORE STOP"
// with `avail` gas when slot 0 holds cur at the start of the transaction.
func sstoreExec(avail uint64, cur, val uint64) (bool, uint64, uint64) {
	if avail < execGasSstor {
		return false, 0, 0
	}
	left := avail - execGasSstor
	if left <= 2300 { // EIP-2200 sentry
		return false, 0, 0
	}
	var cost, refund uint64
	switch {
	case cur == val:
		cost = 800
	case cur == 0:
		cost = 20000
	default:
		cost = 5000
		if val == 0 {
			refund = 15000
		}
	}
	if left < cost {
		return false, 0, 0
	}
	return true, execGasSstor + cost, refund
}

func (m *model) predict(t *txd) pred {
	s := m.get(senders[t.From])
	var p pred
	p.intrinsic = intrinsicGas(t.To, t.Data)
	gasCost := new(big.Int).Mul(new(big.Int).SetUint64(t.Limit), big.NewInt(t.Price))
	switch {
	case t.Nonce < s.nonce:
		p.refuse = rNonceLow
	case t.Nonce > s.nonce:
		p.refuse = rNonceHigh
	case s.bal.Cmp(gasCost) < 0:
		p.refuse = rCannotPay
	case m.pool < t.Limit:
		p.refuse = rPool
	case t.Limit < p.intrinsic:
		p.refuse = rIntrinsic
	}
	if p.refuse != "" {
		return p
	}
	avail := t.Limit - p.intrinsic
	afterGas := new(big.Int).Sub(s.bal, gasCost)
	from := senders[t.From]

	if t.To == toStake {
		p.statusKnown, p.gasKnown = true, true
		fail := func() pred { p.failed, p.gasUsed = true, t.Limit; return p }
		switch t.Payload {
		case "deposit":
			if t.From != 0 || afterGas.Cmp(depositV) < 0 {
				return fail() // not the operator / cannot afford the deposit
			}
			p.gasUsed = p.intrinsic
			p.apply = func(m *model) {
				m.get(from).bal.Sub(m.get(from).bal, depositV)
				if m.pendingV0.Sign() == 0 {
					m.pendingV0.Set(v0Token)
				}
				m.pendingV0.Add(m.pendingV0, depositV)
				m.nlogs++
			}
		case "vcreate":
			if avail < 900000 { // YouV5: validator creation surcharge not affordable => failed, only what was used so far
				p.failed, p.gasUsed = true, p.intrinsic
				return p
			}
			if t.From != 0 || m.pendingV1 || afterGas.Cmp(vcreateV) < 0 {
				return fail()
			}
			p.gasUsed = p.intrinsic + 900000
			p.apply = func(m *model) {
				m.get(from).bal.Sub(m.get(from).bal, vcreateV)
				m.pendingV1 = true
				m.nlogs++
			}
		default: // undecodable staking message
			return fail()
		}
		return p
	}

	// EVM transaction: the value must be covered after the gas was bought
	if afterGas.Cmp(t.Value) < 0 {
		p.refuse = rValue
		return p
	}
	move := func(m *model, to common.Address) {
		if t.Value.Sign() != 0 {
			m.get(from).bal.Sub(m.get(from).bal, t.Value)
			m.get(to).bal.Add(m.get(to).bal, t.Value)
		}
	}
	p.statusKnown, p.gasKnown = true, true
	switch t.To {
	case toE, toN:
		to := *toAddr(t.To)
		p.gasUsed = p.intrinsic
		p.apply = func(m *model) {
			move(m, to)
			// an empty account touched by the call is deleted at the end of the transaction
			a := m.get(to)
			a.exists = a.exists || t.Value.Sign() != 0
		}
	case toR:
		p.failed = true
		if avail >= execGasSstor {
			p.gasUsed = p.intrinsic + execGasSstor // REVERT hands the rest back
		} else {
			p.gasUsed = t.Limit
		}
	case toW, toC:
		to := *toAddr(t.To)
		val := uint64(1)
		if t.To == toC {
			val = 0
		}
		ok, g, refund := sstoreExec(avail, m.get(to).slot, val)
		if !ok {
			p.failed, p.gasUsed = true, t.Limit
			break
		}
		used := p.intrinsic + g
		if refund > used/2 {
			refund = used / 2
			p.capBinds = true
		}
		p.gasUsed = used - refund
		p.apply = func(m *model) { move(m, to); m.get(to).slot = val }
	case toNil:
		na := crypto.CreateAddress(from, t.Nonce)
		created := func(slot uint64) func(m *model) {
			return func(m *model) {
				a := m.get(na)
				a.exists, a.nonce, a.slot = true, 1, slot
				move(m, na)
			}
		}
		switch t.Payload {
		case "empty", "00":
			p.gasUsed = p.intrinsic
			p.apply = created(0)
		case "01", "garbage":
			p.failed, p.gasUsed = true, t.Limit
		case "initcode":
			ok, g, _ := sstoreExec(avail, 0, 1)
			if !ok {
				p.failed, p.gasUsed = true, t.Limit
				break
			}
			p.gasUsed = p.intrinsic + g
			p.apply = created(1)
		default: // arbitrary bytes as init code: status not predicted, only bounded
			p.statusKnown, p.gasKnown = false, false
			p.apply = created(0)
		}
	}
	return p
}

// commit applies an accepted transaction to the model with the reported
// (failed, gasUsed) after they were checked against the prediction.
func (m *model) commit(t *txd, p pred, failed bool, gasUsed uint64) {
	s := m.get(senders[t.From])
	s.nonce++
	fee := new(big.Int).Mul(new(big.Int).SetUint64(gasUsed), big.NewInt(t.Price))
	s.bal.Sub(s.bal, fee)
	m.pool -= gasUsed
	m.used += gasUsed
	m.rewards.Add(m.rewards, fee)
	if !failed && p.apply != nil {
		p.apply(m)
	}
}

// render gives the model's observation vector (same format as observe()).
func (m *model) render() []string {
	var out []string
	for i, a := range trackedAddrs()[:m.ntracked] {
		x := m.acc[a]
		out = append(out, fmtAcct(trackedNames[i], x.exists, x.bal, x.nonce, x.code, x.slot))
	}
	out = append(out, fmt.Sprintf("pool=%d", m.pool), fmt.Sprintf("usedGas=%d", m.used), fmt.Sprintf("gasRewards=%v", m.rewards),
		fmt.Sprintf("pendingV0=%v", m.pendingV0), fmt.Sprintf("pendingV1=%v", m.pendingV1), fmt.Sprintf("logs=%d", m.nlogs))
	return out
}

func fmtAcct(name string, ex bool, bal *big.Int, nonce uint64, code int, slot uint64) string {
	if !ex {
		return name + "{absent}"
	}
	return fmt.Sprintf("%s{bal=%v nonce=%d code=%d slot0=%d}", name, bal, nonce, code, slot)
}

// observe reads the same vector from the real objects (API reads only).
func observe(st *state.StateDB, gp *core.GasPool, h *types.Header, ntracked int) []string {
	out := make([]string, 0, ntracked+6)
	for i, a := range trackedAddrs()[:ntracked] {
		if !st.Exist(a) {
			out = append(out, trackedNames[i]+"{absent}")
			continue
		}
		out = append(out, fmtAcct(trackedNames[i], true, st.GetBalance(a), st.GetNonce(a), len(st.GetCode(a)), st.GetState(a, slot0).Big().Uint64()))
	}
	out = append(out, fmt.Sprintf("pool=%d", gp.Gas()), fmt.Sprintf("usedGas=%d", h.GasUsed), fmt.Sprintf("gasRewards=%v", h.GasRewards),
		fmt.Sprintf("pendingV0=%v", st.GetStakingRecordValue(common.Address{}, addrV0)), fmt.Sprintf("pendingV1=%v", st.PendingValidatorExist(addrV1)),
		fmt.Sprintf("logs=%d", len(st.Logs())))
	return out
}

// observeExtra adds what the model does not predict but a refusal must keep.
func observeExtra(st *state.StateDB) string {
	return "V0" + stx.ObserveVal(st.GetValidatorByMainAddr(addrV0)) + fmt.Sprintf(" refund=%d", st.GetRefund())
}

func diffNames(a, b []string) string {
	var d []string
	for i := range a {
		if i >= len(b) || a[i] != b[i] {
			n := a[i]
			if j := strings.IndexAny(n, "{="); j > 0 {
				n = n[:j]
			}
			d = append(d, n)
		}
	}
	sort.Strings(d)
	return strings.Join(d, ",")
}

func diffDetail(want, got []string) string {
	var b strings.Builder
	for i := range want {
		if i >= len(got) || want[i] != got[i] {
			g := "?"
			if i < len(got) {
				g = got[i]
			}
			fmt.Fprintf(&b, "\n  model %s | real %s", want[i], g)
		}
	}
	return b.String()
}

// resync adopts the real values after a reported discrepancy so that the
// exploration can continue behind it.
func (m *model) resync(st *state.StateDB, gp *core.GasPool, h *types.Header) {
	for _, a := range trackedAddrs()[:m.ntracked] {
		x := m.acc[a]
		x.exists = st.Exist(a)
		x.bal = new(big.Int).Set(st.GetBalance(a))
		x.nonce = st.GetNonce(a)
		x.code = len(st.GetCode(a))
		x.slot = st.GetState(a, slot0).Big().Uint64()
	}
	m.pool, m.used = gp.Gas(), h.GasUsed
	m.rewards.Set(h.GasRewards)
	m.pendingV0 = st.GetStakingRecordValue(common.Address{}, addrV0)
	m.pendingV1 = st.PendingValidatorExist(addrV1)
	m.nlogs = len(st.Logs())
}
