package c17

import (
	"fmt"
	"math/big"

	"github.com/youchainhq/go-youchain/common"
	"github.com/youchainhq/go-youchain/core"
	"github.com/youchainhq/go-youchain/core/types"
	"github.com/youchainhq/go-youchain/local"

	"verif/mc"
)

// forged: a transaction with an invalid signature (high-s twin, foreign
// network, r/s/v out of range or altered, not replay protected) sits in a
// block-sized batch.  The batch goes through core.ProcessSenders exactly as in
// StateProcessor.Process (errors discarded), then the transaction is handed to
// StateProcessor.ApplyTransaction: it must be refused, and the state (all three
// trie roots), the gas pool and the header counters must be untouched -- also
// on a second attempt with the same object, also when valid transactions of
// the batch were applied before it.  The zero address holds funds in this
// phase (as it does on every public chain): a forged transaction taken for one
// sent by "nobody" would move them.

// forgedBases: what the forger starts from (validly signed by S1 / S2).
func forgedBases() []*txd {
	return []*txd{
		// valid for its signer if the signature were accepted (high-s twin: same signer)
		{From: 0, Nonce: nonceS1, Price: 1, Limit: 21000, To: toE, Value: big.NewInt(1000), Payload: "empty"},
		// nonce 0: valid for the zero address (nonce 0, funded) if it were taken for the sender
		{From: 0, Nonce: 0, Price: 1, Limit: 21000, To: toE, Value: big.NewInt(1000), Payload: "empty"},
		{From: 0, Nonce: 0, Price: 2, Limit: 100000, To: toNil, Value: big.NewInt(7), Payload: "initcode"},
		{From: 1, Nonce: 0, Price: 1, Limit: 60000, To: toW, Value: new(big.Int), Payload: "empty"},
	}
}

type forgery struct {
	name  string
	apply func(*rawTx)
}

func forgeries() []forgery {
	return []forgery{
		{"high-s twin (N-s, parity flipped)", func(r *rawTx) { r.S.Sub(secpN, r.S); bitFlip(r.V, 0) }},
		{"N-s, same parity", func(r *rawTx) { r.S.Sub(secpN, r.S) }},
		{"V of network id+1", func(r *rawTx) { r.V.Add(r.V, big.NewInt(2)) }},
		{"V of network 1", func(r *rawTx) { r.V.Sub(r.V, big.NewInt(2*(netID-1))) }},
		{"R=0", func(r *rawTx) { r.R.SetInt64(0) }},
		{"S=0", func(r *rawTx) { r.S.SetInt64(0) }},
		{"R+N", func(r *rawTx) { r.R.Add(r.R, secpN) }},
		{"not replay protected (V=27)", func(r *rawTx) { r.V.SetInt64(27) }},
		{"V+2^72", func(r *rawTx) { r.V.Add(r.V, new(big.Int).Lsh(big.NewInt(1), 72)) }},
	}
}

var forgedModes = []string{
	"ApplyTransaction directly",
	"ProcessSenders on the batch, then ApplyTransaction",
	"ProcessSenders on the batch, the valid transactions before it applied, then ApplyTransaction",
	"Sender refused it (as the pool does), ProcessSenders on the batch, then ApplyTransaction",
}

var forgedPositions = []string{"first", "middle", "last"}

type forgedInput struct {
	Phase   string `json:"phase"`
	Base    int    `json:"base"`
	Forgery int    `json:"forgery"`
	Mode    int    `json:"mode"`
	Pos     int    `json:"pos"`
	Desc    string `json:"desc"`
}

func forgedDims() []int {
	return []int{len(forgedPositions), len(forgedModes), len(forgeries()), len(forgedBases())}
}

type blockObs struct {
	roots   [3]common.Hash
	pool    uint64
	used    uint64
	rewards string
}

func (o blockObs) diff(p blockObs) string {
	s := ""
	add := func(c bool, n string) {
		if c {
			if s != "" {
				s += ","
			}
			s += n
		}
	}
	add(o.roots[0] != p.roots[0], "state-root")
	add(o.roots[1] != p.roots[1], "validator-root")
	add(o.roots[2] != p.roots[2], "staking-root")
	add(o.pool != p.pool, "pool")
	add(o.used != p.used, "usedGas")
	add(o.rewards != p.rewards, "gasRewards")
	return s
}

func runForgedCase(bs *base, fillers []*types.Transaction, in forgedInput, count func(string)) (out []finding, desc string) {
	b := forgedBases()[in.Base]
	fg := forgeries()[in.Forgery]
	desc = fmt.Sprintf("%s | forged: %s | %s | position in the batch: %s", b, fg.name, forgedModes[in.Mode], forgedPositions[in.Pos])
	raw := rawOf(b.sign())
	fg.apply(&raw)
	tx, err := raw.decode()
	if err != nil {
		count("forged_rejected_by_decoder")
		return nil, desc
	}
	st := bs.open()
	st.SetBalance(common.Address{}, large)
	st.Finalise(true)
	h := newHeader()
	gp := new(core.GasPool).AddGas(blockLimit)
	pos := []int{0, len(fillers) / 2, len(fillers)}[in.Pos]
	batch := batchWith(fillers, tx, pos)
	sg := types.MakeSigner(h.Number) // as StateProcessor.Process does
	tcount := 0
	apply := func(t *types.Transaction) (rec *types.Receipt, err error, panicked string) {
		st.Prepare(t.Hash(), common.Hash{}, tcount)
		msg, where := mc.CatchStack(func() {
			rec, _, err = processor.ApplyTransaction(t, sg, st, chain, h, &h.Coinbase, &h.GasUsed, h.GasRewards, gp, vmCfg, local.FakeRecorder())
		})
		if msg != "" {
			return nil, nil, where + ": " + msg
		}
		return rec, err, ""
	}
	if in.Mode == 3 {
		if a, err := types.Sender(sg, tx); err == nil {
			out = append(out, finding{"forged: transaction with an invalid signature passes types.Sender", fmt.Sprintf("%s: sender %x", desc, a)})
			return out, desc
		}
		count("forged_refused_by_Sender_first")
	}
	if in.Mode >= 1 {
		if msg, where := mc.CatchStack(func() { core.ProcessSenders(batch, sg) }); msg != "" {
			return []finding{{"forged: panic in ProcessSenders at " + where, desc + ": " + msg}}, desc
		}
	}
	if in.Mode == 2 {
		for _, f := range batch[:pos] {
			rec, err, p := apply(f)
			if p != "" || err != nil || rec == nil || rec.Status == types.ReceiptStatusFailed {
				return []finding{{"harness: valid filler transaction not applied", fmt.Sprint(desc, " err=", err, " panic=", p)}}, desc
			}
			tcount++
			count("forged_valid_predecessor_applied")
		}
	}
	observeBlock := func() blockObs {
		var o blockObs
		// on a copy: computing the root finalises the state, which would discard the miner's snapshot
		o.roots[0], o.roots[1], o.roots[2] = st.Copy().IntermediateRoot(true)
		o.pool, o.used, o.rewards = gp.Gas(), h.GasUsed, h.GasRewards.String()
		return o
	}
	before := observeBlock()
	for attempt := 1; attempt <= 2; attempt++ {
		snap := st.Snapshot()
		rec, err, p := apply(tx)
		if p != "" {
			return append(out, finding{"forged: panic in ApplyTransaction on a transaction with an invalid signature", desc + ": " + p}), desc
		}
		after := observeBlock()
		at := map[int]string{1: "first attempt", 2: "second attempt with the same object"}[attempt]
		if err == nil {
			from := "?"
			if m, e := tx.AsMessage(sg); e == nil {
				from = fmt.Sprintf("%x", m.From())
			}
			status := uint64(99)
			if rec != nil {
				status = rec.Status
			}
			out = append(out, finding{fmt.Sprintf("forged: transaction with an invalid signature is applied (%s)", at),
				fmt.Sprintf("%s: receipt status %d, executed as sent by %s; changed: %s", desc, status, from, after.diff(before))})
			return out, desc
		}
		if !signatureError(err) {
			out = append(out, finding{fmt.Sprintf("forged: transaction with an invalid signature passes the sender derivation and is refused only later (%s)", at),
				fmt.Sprintf("%s: err=%v", desc, err)})
		} else {
			count("forged_refused_for_its_signature")
		}
		if d := after.diff(before); d != "" {
			out = append(out, finding{fmt.Sprintf("forged: refused transaction with an invalid signature changed %s (%s)", d, at), desc + " err=" + err.Error()})
		} else {
			count("forged_refused_nothing_changed")
		}
		st.RevertToSnapshot(snap) // the miner's revert
		if d := observeBlock().diff(before); d != "" {
			out = append(out, finding{fmt.Sprintf("forged: refused transaction with an invalid signature changed %s after the miner's revert (%s)", d, at), desc + " err=" + err.Error()})
		}
		if len(out) > 0 {
			return out, desc
		}
	}
	// the valid transactions behind it still apply (the refusal left the block usable)
	if in.Mode == 2 && pos < len(batch)-1 {
		rec, err, p := apply(batch[pos+1])
		if p != "" || err != nil || rec == nil || rec.Status == types.ReceiptStatusFailed {
			out = append(out, finding{"forged: valid transaction behind a refused forged one is not applied", fmt.Sprint(desc, " err=", err, " panic=", p)})
		} else {
			count("forged_valid_successor_applied")
		}
	}
	return out, desc
}

// signatureError: the refusals types.Sender / YouSigner.Sender / recoverPlain
// and the secp256k1 library give for a signature that does not stand.
func signatureError(err error) bool {
	switch err {
	case types.ErrInvalidSig, types.ErrInvalidNetworkId, types.ErrNotProtected:
		return true
	}
	switch s := err.Error(); {
	case s == "invalid public key", s == "invalid signature recovery id", s == "recovery failed", s == "invalid signature length", s == "invalid message length, need 32 bytes":
		return true
	}
	return false
}

func runForged(r *mc.Run) {
	dims := forgedDims()
	bases := make([]*base, r.Workers)
	fills := make([][]*types.Transaction, r.Workers)
	r.Enum(dims, func(w int, idx []int) {
		if bases[w] == nil {
			bases[w] = newBase()
			fills[w] = fillerTxs()
		}
		in := forgedInput{Phase: "forged", Pos: idx[0], Mode: idx[1], Forgery: idx[2], Base: idx[3]}
		fs, desc := runForgedCase(bases[w], fills[w], in, func(n string) { r.Count(n, 1) })
		in.Desc = desc
		r.Distinct(fmt.Sprintf("forged|%d|%d|%d|%d", in.Base, in.Forgery, in.Mode, in.Pos))
		if idx[0] == 1 && idx[1] == 1 && idx[3] == 1 {
			r.Sample(desc + " => refused, nothing changed")
		}
		for _, f := range fs {
			r.Report(mc.Violation{Sig: f.sig, Detail: f.detail, Input: in})
		}
	})
}
