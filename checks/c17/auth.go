package c17

import (
	"fmt"
	"math/big"
	"runtime"

	"github.com/youchainhq/go-youchain/common"
	"github.com/youchainhq/go-youchain/core"
	"github.com/youchainhq/go-youchain/core/types"
	"github.com/youchainhq/go-youchain/rlp"

	"verif/mc"
)

// rawTx is the wire form of a transaction: what a network adversary controls.
type rawTx struct {
	Nonce uint64
	Price *big.Int
	Limit uint64
	To    *common.Address `rlp:"nil"`
	Value *big.Int
	Data  []byte
	V     *big.Int
	R     *big.Int
	S     *big.Int
}

func rawOf(tx *types.Transaction) rawTx {
	v, r, s := tx.RawSignatureValues()
	return rawTx{Nonce: tx.Nonce(), Price: tx.GasPrice(), Limit: tx.Gas(), To: tx.To(), Value: tx.Value(), Data: tx.Data(),
		V: new(big.Int).Set(v), R: new(big.Int).Set(r), S: new(big.Int).Set(s)}
}

func (r rawTx) clone() rawTx {
	c := r
	c.Price, c.Value = new(big.Int).Set(r.Price), new(big.Int).Set(r.Value)
	c.V, c.R, c.S = new(big.Int).Set(r.V), new(big.Int).Set(r.R), new(big.Int).Set(r.S)
	c.Data = common.CopyBytes(r.Data)
	if r.To != nil {
		a := *r.To
		c.To = &a
	}
	return c
}

// decode turns the wire form into a real transaction through the real decoder.
func (r rawTx) decode() (*types.Transaction, error) {
	bs, err := rlp.EncodeToBytes(&r)
	if err != nil {
		return nil, err
	}
	tx := new(types.Transaction)
	if err := rlp.DecodeBytes(bs, tx); err != nil {
		return nil, err
	}
	return tx, nil
}

var secpN, _ = new(big.Int).SetString("fffffffffffffffffffffffffffffffebaaedce6af48a03bbfd25e8cd0364141", 16)

// mutation of the wire form.  signerID != 0: verify with a signer of that network.
type mutation struct {
	Field    string // class (signature component)
	Name     string
	apply    func(*rawTx) bool // false = not applicable / would be a no-op
	signerID uint64
	warm     bool // first derive the sender with the right signer (fills the sender cache of the object)
}

func authBases() []*txd {
	return []*txd{
		{From: 0, Nonce: 5, Price: 3, Limit: 100000, To: toNil, Value: big.NewInt(7), Data: nil, Payload: "empty"},
		{From: 0, Nonce: 5, Price: 3, Limit: 100000, To: toNil, Value: big.NewInt(7), Data: []byte{0x60, 0x01, 0x60, 0x00, 0x55, 0x00}, Payload: "initcode"},
		{From: 0, Nonce: 6, Price: 1, Limit: 21000, To: toE, Value: big.NewInt(1000), Data: nil, Payload: "empty"},
		{From: 1, Nonce: 300, Price: 2, Limit: 30000, To: toW, Value: new(big.Int), Data: []byte{0x00, 0x01, 0xff, 0x80}, Payload: "data"},
		{From: 0, Nonce: 7, Price: 1, Limit: 200000, To: toStake, Value: new(big.Int), Data: nil, Payload: "deposit"},
		{From: 1, Nonce: 0, Price: 0, Limit: 150000, To: toStake, Value: big.NewInt(1), Data: []byte{0xc0}, Payload: "garbage"},
	}
}

func bitFlip(x *big.Int, bit int) { x.SetBit(x, bit, x.Bit(bit)^1) }

func authMutations(base rawTx) []mutation {
	var ms []mutation
	add := func(field, name string, f func(*rawTx) bool) {
		ms = append(ms, mutation{Field: field, Name: name, apply: f})
	}
	// nonce, limit: +-1 and every single bit
	add("nonce", "+1", func(r *rawTx) bool { r.Nonce++; return true })
	add("nonce", "-1", func(r *rawTx) bool { r.Nonce--; return true })
	add("limit", "+1", func(r *rawTx) bool { r.Limit++; return true })
	add("limit", "-1", func(r *rawTx) bool { r.Limit--; return true })
	for b := 0; b < 64; b++ {
		b := b
		add("nonce", fmt.Sprintf("bit%d", b), func(r *rawTx) bool { r.Nonce ^= 1 << uint(b); return true })
		add("limit", fmt.Sprintf("bit%d", b), func(r *rawTx) bool { r.Limit ^= 1 << uint(b); return true })
	}
	// price, value: +-1 and the low 72 bits
	add("price", "+1", func(r *rawTx) bool { r.Price.Add(r.Price, big.NewInt(1)); return true })
	add("price", "-1", func(r *rawTx) bool {
		if r.Price.Sign() == 0 {
			return false
		}
		r.Price.Sub(r.Price, big.NewInt(1))
		return true
	})
	add("value", "+1", func(r *rawTx) bool { r.Value.Add(r.Value, big.NewInt(1)); return true })
	add("value", "-1", func(r *rawTx) bool {
		if r.Value.Sign() == 0 {
			return false
		}
		r.Value.Sub(r.Value, big.NewInt(1))
		return true
	})
	for b := 0; b < 72; b++ {
		b := b
		add("price", fmt.Sprintf("bit%d", b), func(r *rawTx) bool { bitFlip(r.Price, b); return true })
		add("value", fmt.Sprintf("bit%d", b), func(r *rawTx) bool { bitFlip(r.Value, b); return true })
	}
	// recipient: every bit, creation <-> call
	for b := 0; b < 160; b++ {
		b := b
		add("recipient", fmt.Sprintf("bit%d", b), func(r *rawTx) bool {
			if r.To == nil {
				return false
			}
			r.To[b/8] ^= 1 << uint(b%8)
			return true
		})
	}
	add("recipient", "nil<->zero-address", func(r *rawTx) bool {
		if r.To == nil {
			r.To = &common.Address{}
		} else {
			r.To = nil
		}
		return true
	})
	add("recipient", "nil<->staking-module", func(r *rawTx) bool {
		if r.To == nil {
			r.To = toAddr(toStake)
			return true
		}
		return false
	})
	// payload: every bit of every byte, append, drop, prepend
	for i := range base.Data {
		for b := 0; b < 8; b++ {
			i, b := i, b
			add("payload", fmt.Sprintf("byte%d.bit%d", i, b), func(r *rawTx) bool { r.Data[i] ^= 1 << uint(b); return true })
		}
	}
	add("payload", "append00", func(r *rawTx) bool { r.Data = append(r.Data, 0); return true })
	add("payload", "append01", func(r *rawTx) bool { r.Data = append(r.Data, 1); return true })
	add("payload", "prepend00", func(r *rawTx) bool { r.Data = append([]byte{0}, r.Data...); return true })
	add("payload", "drop-last", func(r *rawTx) bool {
		if len(r.Data) == 0 {
			return false
		}
		r.Data = r.Data[:len(r.Data)-1]
		return true
	})
	add("payload", "drop-first", func(r *rawTx) bool {
		if len(r.Data) == 0 {
			return false
		}
		r.Data = r.Data[1:]
		return true
	})
	// R, S: +-1, every bit, swap, zero, +N
	for _, w := range []string{"R", "S"} {
		w := w
		get := func(r *rawTx) *big.Int {
			if w == "R" {
				return r.R
			}
			return r.S
		}
		add(w, "+1", func(r *rawTx) bool { get(r).Add(get(r), big.NewInt(1)); return true })
		add(w, "-1", func(r *rawTx) bool { get(r).Sub(get(r), big.NewInt(1)); return true })
		add(w, "zero", func(r *rawTx) bool { get(r).SetInt64(0); return true })
		add(w, "+N", func(r *rawTx) bool { get(r).Add(get(r), secpN); return true })
		for b := 0; b < 256; b++ {
			b := b
			add(w, fmt.Sprintf("bit%d", b), func(r *rawTx) bool { bitFlip(get(r), b); return true })
		}
	}
	add("R,S", "swap", func(r *rawTx) bool { r.R, r.S = r.S, r.R; return true })
	// high-s twin: (r, N-s) with and without flipped parity
	add("high-s", "N-s,flip-parity", func(r *rawTx) bool {
		r.S.Sub(secpN, r.S)
		bitFlip(r.V, 0) // 233 <-> 234
		return true
	})
	add("high-s", "N-s,same-parity", func(r *rawTx) bool { r.S.Sub(secpN, r.S); return true })
	// V: every value of 0..255+2*id, and a few wide ones
	for v := 0; v <= 255+2*netID; v++ {
		v := v
		add("V", fmt.Sprint(v), func(r *rawTx) bool {
			if r.V.Cmp(big.NewInt(int64(v))) == 0 {
				return false
			}
			r.V.SetInt64(int64(v))
			return true
		})
	}
	for _, sh := range []uint{8, 16, 32, 64, 72} {
		sh := sh
		add("V", fmt.Sprintf("+2^%d", sh), func(r *rawTx) bool { r.V.Add(r.V, new(big.Int).Lsh(big.NewInt(1), sh)); return true })
	}
	// other network id: (a) right tx, wrong signer (with a warm sender cache);
	// (b) V re-based to the other network, right signer; (c) both
	for _, id := range otherNetworkIDs {
		id := id
		rebase := func(r *rawTx) bool {
			d := new(big.Int).SetUint64(id)
			d.Sub(d, big.NewInt(netID)).Mul(d, big.NewInt(2))
			r.V.Add(r.V, d)
			return r.V.Sign() >= 0
		}
		ms = append(ms, mutation{Field: "network-id(signer)", Name: fmt.Sprint(id), apply: func(*rawTx) bool { return true }, signerID: id})
		ms = append(ms, mutation{Field: "network-id(signer,warm-cache)", Name: fmt.Sprint(id), apply: func(*rawTx) bool { return true }, signerID: id, warm: true})
		ms = append(ms, mutation{Field: "network-id(V)", Name: fmt.Sprint(id), apply: rebase})
		ms = append(ms, mutation{Field: "network-id(V+signer)", Name: fmt.Sprint(id), apply: rebase, signerID: id})
	}
	return ms
}

type authInput struct {
	Phase string `json:"phase"`
	Base  int    `json:"base"`
	Mut   int    `json:"mutation"`
	Desc  string `json:"desc"`
}

type authCase struct {
	base int
	mut  int
}

type authFixture struct {
	txs     []*types.Transaction
	raws    []rawTx
	muts    [][]mutation
	cases   []authCase
	fillers []*types.Transaction // valid signed transactions that fill a block up to the size at which ProcessSenders works
}

// fillerTxs: NumCPU valid transactions of S2 with consecutive nonces from
// nonceS2 (core.ProcessSenders derives the senders in the background only for
// batches of at least NumCPU transactions).
func fillerTxs() []*types.Transaction {
	var out []*types.Transaction
	for i := 0; i < runtime.NumCPU(); i++ {
		t := &txd{From: 1, Nonce: nonceS2 + uint64(i), Price: 1, Limit: 21000, To: toE, Value: big.NewInt(1), Payload: "empty"}
		out = append(out, t.sign())
	}
	return out
}

// batchWith returns a block-sized batch holding tx at position pos (mod size).
func batchWith(fillers []*types.Transaction, tx *types.Transaction, pos int) []*types.Transaction {
	pos %= len(fillers) + 1
	out := make([]*types.Transaction, 0, len(fillers)+1)
	out = append(out, fillers[:pos]...)
	out = append(out, tx)
	return append(out, fillers[pos:]...)
}

// senderQuery is one way the node asks a transaction object for its sender.
type senderQuery struct {
	name string
	ask  func(tx *types.Transaction) (common.Address, error)
}

// senderQueries: the queries made, in this order, on ONE transaction object
// (sg = the signer of the case, id its network id).  The first is the plain
// types.Sender; the others are what the node does afterwards with the same
// object: a second call, AsMessage (ApplyTransaction), an equal signer built
// independently (every block builds its own), and core.ProcessSenders over a
// block-sized batch (errors discarded, as the block processor does) followed by
// AsMessage and Sender.
func (f *authFixture) senderQueries(sg types.Signer, id uint64, pos int) []senderQuery {
	asMessage := func(tx *types.Transaction) (common.Address, error) {
		m, err := tx.AsMessage(sg)
		return m.From(), err
	}
	return []senderQuery{
		{"Sender", func(tx *types.Transaction) (common.Address, error) { return types.Sender(sg, tx) }},
		{"Sender, second call", func(tx *types.Transaction) (common.Address, error) { return types.Sender(sg, tx) }},
		{"AsMessage", asMessage},
		{"Sender with an equal signer built independently", func(tx *types.Transaction) (common.Address, error) {
			return types.Sender(types.NewYouSigner(id), tx)
		}},
		{"AsMessage after ProcessSenders", func(tx *types.Transaction) (common.Address, error) {
			core.ProcessSenders(batchWith(f.fillers, tx, pos), sg)
			return asMessage(tx)
		}},
		{"Sender after ProcessSenders", func(tx *types.Transaction) (common.Address, error) { return types.Sender(sg, tx) }},
	}
}

func newAuthFixture() *authFixture {
	f := &authFixture{fillers: fillerTxs()}
	for bi, b := range authBases() {
		if b.Payload == "deposit" {
			b.Data = payloadDeposit
		}
		tx := b.sign()
		f.txs = append(f.txs, tx)
		raw := rawOf(tx)
		f.raws = append(f.raws, raw)
		ms := authMutations(raw)
		f.muts = append(f.muts, ms)
		for mi := range ms {
			f.cases = append(f.cases, authCase{bi, mi})
		}
	}
	return f
}

func (f *authFixture) check(r *mc.Run, c authCase) {
	m := f.muts[c.base][c.mut]
	orig := senders[authBases()[c.base].From]
	raw := f.raws[c.base].clone()
	if !m.apply(&raw) {
		r.Count("auth_mutation_not_applicable", 1)
		return
	}
	in := authInput{"auth", c.base, c.mut, fmt.Sprintf("base %d (%s), %s %s", c.base, authBases()[c.base].String(), m.Field, m.Name)}
	tx, err := raw.decode()
	if err != nil {
		r.Count("auth_mutant_rejected_by_decoder", 1)
		return
	}
	sg := signer
	if m.signerID != 0 {
		sg = types.NewYouSigner(m.signerID)
	}
	if m.warm {
		if a, err := types.Sender(signer, tx); err != nil || a != orig {
			r.Report(mc.Violation{Sig: "auth: untouched signed transaction does not yield its signer", Detail: fmt.Sprint(in.Desc, " err=", err), Input: in})
			return
		}
	}
	id := uint64(netID)
	if m.signerID != 0 {
		id = m.signerID
	}
	r.Distinct(fmt.Sprintf("auth|%d|%s|%s", c.base, m.Field, m.Name))
	// every query on the same object: refused, or a sender that is not the
	// original signer -- and the same answer every time
	var first common.Address
	var firstErr error
	judge := func(qi int, q string, got common.Address, err error) bool {
		if err == nil && got == (common.Address{}) {
			r.Report(mc.Violation{Sig: "auth: sender query answers the zero address without an error (" + q + ")",
				Detail: fmt.Sprintf("%s: query %d (%s) = (%x, nil); first query = (%x, %v)", in.Desc, qi+1, q, got, first, firstErr), Input: in})
			return false
		}
		if qi == 0 {
			first, firstErr = got, err
			switch {
			case err != nil:
				r.Count("auth_mutant_rejected_with_error", 1)
			case got != orig:
				r.Count("auth_mutant_yields_other_sender", 1)
			default:
				r.Report(mc.Violation{Sig: "auth: transaction with mutated " + m.Field + " keeps its sender",
					Detail: fmt.Sprintf("%s: Sender = %x (the original signer), tx hash %x != original %x", in.Desc, got, tx.Hash(), f.txs[c.base].Hash()), Input: in})
				return false
			}
			return true
		}
		switch {
		case firstErr != nil && err == nil:
			r.Report(mc.Violation{Sig: "auth: transaction refused by the first sender query is accepted by a later query on the same object (" + q + ")",
				Detail: fmt.Sprintf("%s: first query err=%v; query %d (%s) = (%x, nil)", in.Desc, firstErr, qi+1, q, got), Input: in})
			return false
		case firstErr == nil && (err != nil || got != first):
			r.Report(mc.Violation{Sig: "auth: repeated sender query on the same object changes its answer (" + q + ")",
				Detail: fmt.Sprintf("%s: first query = (%x, nil); query %d (%s) = (%x, %v)", in.Desc, first, qi+1, q, got, err), Input: in})
			return false
		case err != nil:
			r.Count("auth_repeated_query_refused_again", 1)
		default:
			r.Count("auth_repeated_query_same_other_sender", 1)
		}
		return true
	}
	for qi, q := range f.senderQueries(sg, id, c.mut) {
		q := q
		var got common.Address
		var err error
		msg, where := mc.CatchStack(func() { got, err = q.ask(tx) })
		if msg != "" {
			name := "Sender"
			if qi > 0 {
				name = q.name
			}
			r.Report(mc.Violation{Sig: fmt.Sprintf("auth: %s panics on mutated %s at %s", name, m.Field, where), Detail: in.Desc + ": " + msg, Input: in})
			return
		}
		if !judge(qi, q.name, got, err) {
			return
		}
	}
	// the same wire form on a FRESH object whose first contact is the block
	// processor's background derivation: same answer
	if tx2, err := raw.decode(); err == nil {
		var got common.Address
		var qerr error
		q := "fresh object: AsMessage after ProcessSenders"
		msg, where := mc.CatchStack(func() {
			core.ProcessSenders(batchWith(f.fillers, tx2, c.mut+1), sg)
			var m2 types.Message
			m2, qerr = tx2.AsMessage(sg)
			got = m2.From()
		})
		if msg != "" {
			r.Report(mc.Violation{Sig: fmt.Sprintf("auth: %s panics on mutated %s at %s", q, m.Field, where), Detail: in.Desc + ": " + msg, Input: in})
			return
		}
		judge(6, q, got, qerr)
	}
	r.Count("auth_objects_queried_repeatedly", 1)
}

// otherNetworkIDs: the foreign networks used on the signer side.
var otherNetworkIDs = []uint64{1, 2, netID - 1, netID + 1, 2 * netID, 1 << 32}

// controlCrossSigner: a VALID transaction object is asked for its sender by
// signers of another network and of this network in every order: the foreign
// signer is refused every time, the right one gets the signer every time (the
// sender cache is bound to the signer and never holds a failed derivation).
func (f *authFixture) controlCrossSigner(r *mc.Run) {
	type step struct {
		name    string
		foreign bool
		ask     func(tx *types.Transaction, sg types.Signer) (common.Address, error)
	}
	sender := func(tx *types.Transaction, sg types.Signer) (common.Address, error) { return types.Sender(sg, tx) }
	asMessage := func(tx *types.Transaction, sg types.Signer) (common.Address, error) {
		m, err := tx.AsMessage(sg)
		return m.From(), err
	}
	for bi := range f.txs {
		want := senders[authBases()[bi].From]
		for _, id := range otherNetworkIDs {
			for order := 0; order < 2; order++ {
				tx, err := f.raws[bi].decode()
				if err != nil {
					r.HarnessError("auth control: base transaction does not decode: " + err.Error())
					return
				}
				own, other := types.Signer(types.NewYouSigner(netID)), types.Signer(types.NewYouSigner(id))
				batchOther := func(tx *types.Transaction, sg types.Signer) (common.Address, error) {
					core.ProcessSenders(batchWith(f.fillers, tx, bi+int(id%7)), other)
					return asMessage(tx, sg)
				}
				batchOwn := func(tx *types.Transaction, sg types.Signer) (common.Address, error) {
					core.ProcessSenders(batchWith(f.fillers, tx, bi+int(id%5)), own)
					return asMessage(tx, sg)
				}
				steps := []step{
					{"Sender(foreign signer)", true, sender},
					{"Sender(right signer)", false, sender},
					{"Sender(foreign signer) again", true, sender},
					{"Sender(foreign signer) a third time", true, sender},
					{"Sender(right signer) again", false, sender},
					{"AsMessage(foreign signer)", true, asMessage},
					{"AsMessage(right signer)", false, asMessage},
					{"AsMessage(foreign signer) after ProcessSenders with the foreign signer", true, batchOther},
					{"AsMessage(right signer) after ProcessSenders with the foreign signer", false, batchOther},
					{"AsMessage(foreign signer) after ProcessSenders with the right signer", true, batchOwn},
					{"AsMessage(right signer) after ProcessSenders with the right signer", false, batchOwn},
					{"Sender(foreign signer) at the end", true, sender},
					{"Sender(right signer) at the end", false, sender},
				}
				if order == 1 {
					// the right signer first (warm cache), then the foreign one
					steps[0], steps[1] = steps[1], steps[0]
				}
				in := authInput{"auth", bi, -1, fmt.Sprintf("control: base %d, foreign network %d, order %d", bi, id, order)}
				ok := true
				for si, st := range steps {
					sg := own
					if st.foreign {
						sg = other
					}
					// an equal signer built independently on every second step
					if si%2 == 1 {
						if st.foreign {
							sg = types.NewYouSigner(id)
						} else {
							sg = types.NewYouSigner(netID)
						}
					}
					var got common.Address
					var qerr error
					st := st
					if msg, where := mc.CatchStack(func() { got, qerr = st.ask(tx, sg) }); msg != "" {
						r.Report(mc.Violation{Sig: "auth control: sender query panics on a valid transaction at " + where, Detail: in.Desc + ": " + st.name + ": " + msg, Input: in})
						ok = false
						break
					}
					switch {
					case st.foreign && qerr == nil:
						r.Report(mc.Violation{Sig: "auth control: valid transaction is accepted by a signer of another network (" + st.name + ")",
							Detail: fmt.Sprintf("%s: step %d %s = (%x, nil), signer of this network gives %x", in.Desc, si+1, st.name, got, want), Input: in})
						ok = false
					case !st.foreign && (qerr != nil || got != want):
						r.Report(mc.Violation{Sig: "auth control: valid transaction does not yield its signer on a repeated query (" + st.name + ")",
							Detail: fmt.Sprintf("%s: step %d %s = (%x, %v), want %x", in.Desc, si+1, st.name, got, qerr, want), Input: in})
						ok = false
					}
					if !ok {
						break
					}
					r.Count("auth_control_cross_signer_queries", 1)
				}
				if ok {
					r.Count("auth_control_cross_signer_sequences_ok", 1)
				}
			}
		}
	}
}

func runAuth(r *mc.Run) {
	f := newAuthFixture()
	// positive control: every base transaction yields exactly its signer,
	// before and after a wire round trip
	for bi, tx := range f.txs {
		want := senders[authBases()[bi].From]
		a, err := types.Sender(signer, tx)
		rt, derr := f.raws[bi].decode()
		var b common.Address
		var err2 error
		if derr == nil {
			b, err2 = types.Sender(signer, rt)
		}
		if err != nil || derr != nil || err2 != nil || a != want || b != want || rt.Hash() != tx.Hash() {
			r.Report(mc.Violation{Sig: "auth: untouched signed transaction does not yield its signer",
				Detail: fmt.Sprintf("base %d: %v %v %v %x %x want %x", bi, err, derr, err2, a, b, want), Input: authInput{"auth", bi, -1, "control"}})
		} else {
			r.Count("auth_control_sender_ok", 1)
		}
	}
	f.controlCrossSigner(r)
	r.ForEach(len(f.cases), func(w, i int) { f.check(r, f.cases[i]) })
	r.Sample(fmt.Sprintf("auth: %d single-field mutations over %d signed base transactions", len(f.cases), len(f.txs)))
}
