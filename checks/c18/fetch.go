package c18

// Part 2 of C18: the REAL body fetch loop.
//
// One run = one real Downloader (assembled like New, without chain/database)
// whose real fetchBodies()/fetchParts goroutine is driven by a scripted
// environment: remote peers (downloader.Peer stubs whose answers are chosen by
// the explorer), the header processor (Schedule + wake signals), the importer
// (queue.Results) and the clock (a request expires when its start time is moved
// into the past and the loop runs its next round - the loop's own ExpireBodies
// / requestTTL path decides).  A schedule is the list of choices at the
// decision points of a run, in the order they occur: one per request received
// by the designated peer P1 and one per import opportunity.
//
// Time is virtual: answers take no time, time passes (the oldest outstanding
// request expires) only when nothing else can happen.  Wall-clock is used only
// to wait until the loop goroutine has reacted (its visible state stopped
// changing); no verdict is a function of elapsed time.

import (
	"fmt"
	"math/big"
	"sort"
	"strings"
	"sync"
	"time"

	"github.com/youchainhq/go-youchain/common"
	"github.com/youchainhq/go-youchain/core/types"
	"github.com/youchainhq/go-youchain/you/downloader"

	"verif/mc"
)

type cfgB struct {
	name     string
	pattern  string // 'T' = block with a transaction, 'E' = empty block
	window   int    // blockCacheItems
	maxFetch int    // MaxBlockFetch
	p2       string // second peer: "" (none) | honest | dead | liar | empty | gone
	master   bool   // P1 is the master peer of the cycle (its loss cancels the sync)
	eager    bool   // importer takes results as soon as some are ready (else: only when nothing else can move)
	split    bool   // headers are scheduled in two batches (second one at the first import opportunity)
	ticker   bool   // no extra wake signals: only fetchParts' own 100 ms ticker makes time pass

	// a second sync cycle on the same Downloader ("" = none)
	cyc2   string // same: the chain of the first cycle again | fork: a chain sharing blocks 1..shared with it
	cutAt  int    // the first cycle is cancelled as soon as the importer holds at least cutAt blocks (>= chain length: it runs to its end)
	rel    int    // same chain: the second cycle's first block = the point the first one reached (first block not handed out) + rel
	shared uint64 // fork: the second cycle's first block = min(point reached, shared+1)
}

func (c cfgB) String() string {
	s := fmt.Sprintf("chain=%s window=%d maxfetch=%d p2=%s master=%v eager=%v split=%v ticker-only=%v", c.pattern, c.window, c.maxFetch, c.p2, c.master, c.eager, c.split, c.ticker)
	if c.cyc2 != "" {
		s += fmt.Sprintf(" second-cycle=%s first-cycle-cut-at=%d origin-rel=%+d fork-shares=1..%d", c.cyc2, c.cutAt, c.rel, c.shared)
	}
	return s
}

// answer kinds of the designated peer (first = honest default)
const (
	kFull       = "full"       // the requested bodies
	kPart       = "part"       // a proper prefix of them
	kEmpty      = "empty"      // an empty answer
	kWrong0     = "wrong0"     // first body is not the block's
	kWrongLast  = "wrongLast"  // last body is not the block's
	kHollow     = "hollow"     // as many bodies as requested, each an EMPTY transaction list (requests only hold non-empty blocks)
	kDup        = "dup"        // the previous answer packet again, then the answer
	kUnsol      = "unsol"      // a batch nobody asked for, then the answer
	kTimeout    = "timeout"    // never answered
	kLate       = "late"       // answered after the request expired
	kDisconnect = "disconnect" // peer disconnects with the request open, reconnects later
	kTake       = "take"       // importer takes the ready results
	kStall      = "stall"      // importer lets the opportunity pass
)

func isDeviation(kind string) bool { return kind != kFull && kind != kTake }

type pointB struct {
	Label  string
	Chosen string
	Alts   []string
}

type reqB struct {
	peer    string
	seq     int // per peer
	hashes  []common.Hash
	nums    []uint64
	ch      *chain // the chain the requested headers are on
	cyc     int    // the sync cycle in which it was first seen
	seenAt  int    // controller step at which it was first seen
	state   string // "" = not handled | answered | waiting (never answered) | late (answer due after expiry) | orphan
	expired bool
}

type inboxB struct {
	mu   sync.Mutex
	reqs []*reqB
	seq  map[string]int
}

type stubB struct {
	id  string
	in  *inboxB
	ch  *chain
	alt *chain // second cycle's chain, if another one
}

func (s *stubB) RequestBodies(hs []common.Hash) error {
	r := &reqB{peer: s.id, hashes: hs, ch: s.ch}
	for _, h := range hs {
		if _, ok := s.ch.num[h]; !ok && s.alt != nil {
			r.ch = s.alt // a block above the fork point
		}
	}
	for _, h := range hs {
		r.nums = append(r.nums, r.ch.num[h])
	}
	s.in.mu.Lock()
	s.in.seq[s.id]++
	r.seq = s.in.seq[s.id]
	s.in.reqs = append(s.in.reqs, r)
	s.in.mu.Unlock()
	return nil
}
func (s *stubB) Head() (common.Hash, *big.Int)                                { return common.Hash{}, new(big.Int) }
func (s *stubB) Origin() *big.Int                                             { return new(big.Int) }
func (s *stubB) RequestHeadersByHash(common.Hash, int, int, bool, bool) error { return nil }
func (s *stubB) RequestHeadersByNumber(uint64, int, int, bool, bool) error    { return nil }
func (s *stubB) RequestReceipts([]common.Hash) error                          { return nil }
func (s *stubB) RequestNodeData(types.TrieKind, []common.Hash) error          { return nil }

type resultB struct {
	points   []pointB
	events   []string
	outcome  string // completed | aborted: <err> | stuck | exempt | unfinished
	tags     map[string]bool
	viols    []mc.Violation
	wall     time.Duration
	settles  int
	diverged int // scheduled kind not applicable at its decision point
	devs     int
}

type runB struct {
	cfg     cfgB
	ch      *chain
	dl      *downloader.VerifDL
	q       *downloader.VerifQueue
	in      inboxB
	sched   []string
	res     *resultB
	fullObs bool // first-occurrence / replay mode: observe a dead state over 30 real ticker periods

	cyc        int    // sync cycle (1, 2)
	org        uint64 // first block the current cycle fetches
	alt        *chain // the second cycle's chain if it is another one
	step       int
	unsettled  int // waits that ended by their 5 s limit instead of a settled loop
	halt       bool
	seen       int    // inbox entries already noticed
	got        uint64 // blocks handed to the importer in the current cycle
	nextSched  uint64
	wakeFalse  bool
	p2joined   bool
	p2left     bool
	stalled    bool
	p1Away     bool // P1 unregistered (disconnect or drop), will come back
	p1Returns  int
	lastAnswer [][]*types.Transaction // P1's last answer packet
	lastEvent  map[string]string      // peer -> class of the last packet / timer event concerning it
	warped     map[string]int         // peer -> size of the request the clock just expired
	lastSend   *sentB                 // packet whose effect is classified at the next quiescence
	dmu        sync.Mutex
	dropped    []string // peers dropped by the downloader (callback, loop goroutine)
	masterGone string   // "" | disconnected | dropped
}

type sentB struct {
	peer, class string
	has         bool // a request of the peer was in flight when the packet was sent
}

const (
	pollEvery   = 200 * time.Microsecond
	stablePolls = 10
)

// deadlineB: the check's internal deadline (set by runFetch); running schedules give up after it.
var deadlineB time.Time

func (r *runB) n() uint64 { return uint64(len(r.ch.pattern)) }

func (r *runB) stub(id string) *stubB {
	return &stubB{id: id, in: &r.in, ch: chainFor(r.cfg.pattern), alt: r.alt}
}

// bodiesOf: the bodies a request asks for, from the chain its headers are on.
func (r *runB) bodiesOf(q *reqB) [][]*types.Transaction {
	out := make([][]*types.Transaction, 0, len(q.nums))
	for _, n := range q.nums {
		out = append(out, q.ch.txs[n])
	}
	return out
}

func (r *runB) wrongOf(q *reqB, i int) [][]*types.Transaction {
	l := r.bodiesOf(q)
	l[i] = r.ch.bogus
	return l
}

// poke makes the loop run a round now instead of at its next 100 ms tick.
func (r *runB) poke() {
	if !r.cfg.ticker {
		r.dl.WakeBodies(true)
	}
}

func (r *runB) ev(format string, a ...interface{}) {
	r.res.events = append(r.res.events, fmt.Sprintf(format, a...))
}

func (r *runB) tag(t string) { r.res.tags[t] = true }

func (r *runB) viol(sig, detail string) {
	for _, v := range r.res.viols {
		if v.Sig == sig {
			return
		}
	}
	r.res.viols = append(r.res.viols, mc.Violation{Sig: sig, Detail: detail})
}

func (r *runB) bodies(ns []uint64) [][]*types.Transaction {
	out := make([][]*types.Transaction, 0, len(ns))
	for _, n := range ns {
		out = append(out, r.ch.txs[n])
	}
	return out
}

// decide returns the choice at the next decision point.
func (r *runB) decide(label string, alts []string) string {
	i := len(r.res.points)
	choice := alts[0]
	if i < len(r.sched) && r.sched[i] != "" {
		ok := false
		for _, a := range alts {
			if a == r.sched[i] {
				ok = true
			}
		}
		if ok {
			choice = r.sched[i]
		} else {
			r.res.diverged++
		}
	}
	if isDeviation(choice) {
		r.res.devs++
	}
	r.res.points = append(r.res.points, pointB{Label: label, Chosen: choice, Alts: alts})
	return choice
}

func (r *runB) inboxLen() int {
	r.in.mu.Lock()
	defer r.in.mu.Unlock()
	return len(r.in.reqs)
}

func (r *runB) requests() []*reqB {
	r.in.mu.Lock()
	defer r.in.mu.Unlock()
	return append([]*reqB{}, r.in.reqs...)
}

// latest returns the newest request the peer received.
func (r *runB) latest(peer string) *reqB {
	rs := r.requests()
	for i := len(rs) - 1; i >= 0; i-- {
		if rs[i].peer == peer {
			return rs[i]
		}
	}
	return nil
}

func (r *runB) fingerprint(st downloader.VerifLoopState, returned bool) string {
	var b strings.Builder
	fmt.Fprintf(&b, "ret=%v q=%d proc=%d thr=%v in=%d ch=%d|", returned, st.Queued, st.Processable, st.Throttled, r.inboxLen(), st.InBodyCh)
	ids := make([]string, 0, len(st.Pend))
	for id := range st.Pend {
		ids = append(ids, id)
	}
	sort.Strings(ids)
	for _, id := range ids {
		fmt.Fprintf(&b, "%s:%s|", id, nums(st.Pend[id]))
	}
	for _, p := range st.Peers {
		fmt.Fprintf(&b, "%s idle=%v lack=%d thr0=%v|", p.ID, p.Idle, p.Lacking, p.Throughput == 0)
	}
	r.dmu.Lock()
	fmt.Fprintf(&b, "drops=%d", len(r.dropped))
	r.dmu.Unlock()
	return b.String()
}

// arrived: every request the queue holds in flight has reached its peer stub
// (FetchBodies hands it over in a new goroutine).
func (r *runB) arrived(st downloader.VerifLoopState) bool {
	var rs []*reqB
	for id, ns := range st.Pend {
		l := r.latest(id)
		if l != nil && nums(l.nums) == nums(ns) {
			// cleared entries of a delivered request never stay in the pend pool
			continue
		}
		// the hand-over goroutines of two requests can overtake each other (the older
		// one was satisfied by a packet already under way before it even reached the
		// stub): an unhandled request for the same blocks has arrived all the same
		if rs == nil {
			rs = r.requests()
		}
		ok := false
		for _, q := range rs {
			if q.peer == id && q.state == "" && nums(q.nums) == nums(ns) {
				ok = true
				break
			}
		}
		if !ok {
			return false
		}
	}
	return true
}

// settle waits until the loop goroutine has reacted to everything done so far:
// its visible state is unchanged over stablePolls polls while it keeps being
// woken.  Only a wait - nothing is concluded from how long it took.
func (r *runB) settle() (downloader.VerifLoopState, bool, error) {
	st, ret, err := r.settleRaw()
	if s := r.lastSend; s != nil {
		r.lastSend = nil
		p := r.registered(st, s.peer)
		_, pend := st.Pend[s.peer]
		switch {
		case p == nil:
		case s.has && !p.Idle && !pend:
			r.lastEvent[s.peer] = "a delivery of which nothing was accepted (judged stale): its pending request was discarded and it was left busy"
			r.tag("stale-delivery")
			r.ev("   -> request of %s discarded, peer left busy (%s)", s.peer, s.class)
		case !s.has && !p.Idle && !pend:
			r.lastEvent[s.peer] = "a packet that arrived with no request pending left it busy"
			r.ev("   -> %s still busy (%s)", s.peer, s.class)
		default:
			r.lastEvent[s.peer] = "packet: " + s.class
		}
	}
	return st, ret, err
}

func (r *runB) settleRaw() (downloader.VerifLoopState, bool, error) {
	r.res.settles++
	var last string
	stable := 0
	start := time.Now()
	for i := 0; ; i++ {
		if i%4 == 0 {
			r.poke()
		}
		time.Sleep(pollEvery)
		ret, err := r.dl.FetchReturned()
		st := r.dl.LoopState()
		fp := r.fingerprint(st, ret)
		if fp == last && (ret || (st.InBodyCh == 0 && r.arrived(st))) {
			stable++
		} else {
			stable, last = 0, fp
		}
		need := stablePolls
		if r.cfg.ticker {
			need = 650 // more than one period of the loop's ticker
		}
		if stable >= need {
			return st, ret, err
		}
		if time.Since(start) > 5*time.Second {
			r.unsettled++
			return st, ret, err
		}
	}
}

// send hands one packet to the real DeliverBodies entry point and waits until
// the loop has taken it.
func (r *runB) send(peer string, lists [][]*types.Transaction, class string) {
	if ret, _ := r.dl.FetchReturned(); ret {
		return
	}
	st := r.dl.LoopState()
	_, has := st.Pend[peer]
	if !has {
		class += " with no request pending"
		r.tag("unsolicited-packet")
	}
	r.lastSend = &sentB{peer: peer, class: class, has: has}
	r.ev("%s sends %s (%d bodies)", peer, class, len(lists))
	done := make(chan struct{})
	go func() { r.dl.DeliverBodies(peer, lists); close(done) }()
	select {
	case <-done:
	case <-time.After(5 * time.Second):
		r.ev("packet not taken")
	}
	for i := 0; i < 20000; i++ {
		if ret, _ := r.dl.FetchReturned(); ret || r.dl.LoopState().InBodyCh == 0 {
			break
		}
		time.Sleep(pollEvery)
	}
}

// handleP1 answers a request of the designated peer according to the schedule.
func (r *runB) handleP1(q *reqB) {
	alts := []string{kFull}
	if len(q.nums) >= 2 {
		alts = append(alts, kPart)
	}
	alts = append(alts, kEmpty, kWrong0, kHollow)
	if len(q.nums) >= 2 {
		alts = append(alts, kWrongLast)
	}
	if r.lastAnswer != nil {
		alts = append(alts, kDup)
	}
	alts = append(alts, kUnsol, kTimeout, kLate, kDisconnect)
	kind := r.decide(fmt.Sprintf("P1#%d[%s]", q.seq, nums(q.nums)), alts)
	q.state = "answered"
	switch kind {
	case kFull:
		r.lastAnswer = r.bodiesOf(q)
		r.send("P1", r.lastAnswer, "complete answer")
	case kPart:
		k := len(q.nums) / 2
		r.lastAnswer = r.bodiesOf(q)[:k]
		r.send("P1", r.lastAnswer, "prefix of the answer")
		r.tag("partial")
	case kEmpty:
		r.send("P1", nil, "empty answer")
		r.tag("empty")
	case kWrong0:
		r.send("P1", r.wrongOf(q, 0), "answer with a wrong first body")
		r.tag("wrong-body")
	case kWrongLast:
		r.send("P1", r.wrongOf(q, len(q.nums)-1), "answer with a wrong last body")
		r.tag("wrong-body")
	case kHollow:
		r.send("P1", make([][]*types.Transaction, len(q.nums)), "answer of empty bodies for non-empty blocks")
		r.tag("hollow-bodies")
	case kDup:
		r.send("P1", r.lastAnswer, "previous answer again")
		r.settle()
		r.lastAnswer = r.bodiesOf(q)
		r.send("P1", r.lastAnswer, "complete answer")
		r.tag("duplicate")
	case kUnsol:
		r.send("P1", [][]*types.Transaction{r.ch.bogus, r.ch.bogus}, "batch nobody asked for")
		r.settle()
		r.lastAnswer = r.bodiesOf(q)
		r.send("P1", r.lastAnswer, "complete answer")
		r.tag("unsolicited")
	case kTimeout:
		q.state = "waiting"
		r.ev("P1 will never answer #%d", q.seq)
	case kLate:
		q.state = "late"
		r.ev("P1 will answer #%d after it expired", q.seq)
	case kDisconnect:
		q.state = "orphan"
		r.ev("P1 disconnects")
		r.tag("disconnect")
		r.dl.UnregisterPeer("P1")
		r.lastEvent["P1"] = "disconnected"
		r.p1Away = true
		if r.cfg.master {
			r.masterGone = "disconnected"
		}
	}
}

// handleP2 answers a request of the second peer according to its fixed personality.
func (r *runB) handleP2(q *reqB) {
	q.state = "answered"
	switch r.cfg.p2 {
	case "honest":
		r.send("P2", r.bodiesOf(q), "complete answer")
	case "liar":
		r.send("P2", r.wrongOf(q, 0), "answer with a wrong first body")
	case "empty":
		r.send("P2", nil, "empty answer")
	case "dead":
		q.state = "waiting"
	case "gone":
		q.state = "orphan"
		if !r.p2left {
			r.p2left = true
			r.ev("P2 disconnects")
			r.dl.UnregisterPeer("P2")
		}
	}
}

// importStep is processFullSyncContent's d.queue.Results + the safety oracle.
func (r *runB) importStep() {
	rs := r.q.Results()
	var ns []uint64
	for _, x := range rs {
		n := x.Header.Number.Uint64()
		ns = append(ns, n)
		want := r.org + r.got
		switch {
		case want > r.n() || x.Header.Hash() != r.ch.hash[want]:
			what := "out of order"
			if n < want {
				what = "a second time"
			} else if n == want {
				what = "that is not the scheduled chain's header"
			}
			r.viol("fetch loop: importer received block "+what, fmt.Sprintf("importer expects block %d next, received number %d (batch %s)", want, n, nums(ns)))
		case types.DeriveSha(x.Transactions) != x.Header.TxHash:
			r.viol("fetch loop: importer received a body with mismatching tx root", fmt.Sprintf("block %d: %d transactions", n, len(x.Transactions)))
		case x.Pending > 0:
			r.viol("fetch loop: importer received a block whose body is still pending", fmt.Sprintf("block %d", n))
		}
		r.got++
	}
	r.ev("importer takes %s", nums(ns))
}

func (r *runB) registered(st downloader.VerifLoopState, id string) *downloader.VerifLoopPeer {
	for i := range st.Peers {
		if st.Peers[i].ID == id {
			return &st.Peers[i]
		}
	}
	return nil
}

func (r *runB) onDrop(id string) {
	// ProtocolManager.removePeer: unregister from the downloader, disconnect
	r.dmu.Lock()
	r.dropped = append(r.dropped, id)
	r.dmu.Unlock()
	r.dl.UnregisterPeer(id)
}

// run executes one schedule.
func runSchedule(cfg cfgB, sched []string, fullObs bool) *resultB {
	t0 := time.Now()
	r := &runB{cfg: cfg, ch: chainFor(cfg.pattern), sched: sched, fullObs: fullObs,
		res: &resultB{tags: map[string]bool{}}, lastEvent: map[string]string{}, warped: map[string]int{}}
	r.in.seq = map[string]int{}
	r.cyc, r.org = 1, origin
	if cfg.cyc2 == "fork" {
		// the second master peer's chain: same block pattern, own headers and bodies above the fork point
		r.alt = forkFor(config{pattern: cfg.pattern, alt: cfg.pattern, shared: cfg.shared})
	}
	r.dl = downloader.VerifNewBodyDL(r.onDrop)
	r.q = r.dl.Queue()
	master := ""
	if cfg.master {
		master = "P1"
	}
	r.dl.BeginSync(master, origin)
	if err := r.dl.RegisterPeer("P1", r.stub("P1")); err != nil {
		panic(err)
	}
	r.lastEvent["P1"] = "registered"
	// processHeaders: schedule the headers, wake the body fetcher
	first := r.n()
	if cfg.split {
		first = r.n() / 2
	}
	r.nextSched = origin
	r.dl.StartFetchBodies()
	defer func() { r.dl.Stop() }()
	r.schedule(first)

	r.loop()
	r.res.wall = time.Since(t0)
	return r.res
}

func (r *runB) schedule(k uint64) {
	chunk := r.ch.hdr[r.nextSched : r.nextSched+k]
	if got := r.dl.Schedule(chunk, r.nextSched); got != len(chunk) {
		r.viol("fetch loop: Schedule refused genuine headers", fmt.Sprintf("%d of %d inserted at %d", got, len(chunk), r.nextSched))
	}
	r.nextSched += k
	r.dl.WakeBodies(true)
	if r.nextSched > r.n() && !r.wakeFalse {
		r.wakeFalse = true
		// processHeaders blocks in this send (its own goroutine) until the fetcher takes
		// the signal or the cycle is cancelled; the controller waits for that, but not
		// for ever: a loop that has already returned never takes it
		done := make(chan struct{})
		go func() { r.dl.WakeBodies(false); close(done) }()
		select {
		case <-done:
		case <-time.After(5 * time.Second):
			r.ev("end-of-headers signal not taken")
		}
	}
}

func (r *runB) loop() {
	const maxSteps = 400
	for r.step = 0; r.step < maxSteps; r.step++ {
		st, ret, err := r.settle()
		r.checkDrops()
		if !ret && (r.unsettled > 12 || (!deadlineB.IsZero() && time.Now().After(deadlineB))) {
			// a run whose loop state keeps moving for a minute of waits, or the check's
			// budget is used up: given up as unfinished (recorded as a cap, never a verdict)
			if r.unsettled > 12 {
				r.tag("given-up-loop-state-never-settles")
			} else {
				r.tag("given-up-at-the-deadline")
			}
			break
		}
		if r.cyc == 1 && r.cfg.cyc2 != "" && (ret || r.got >= uint64(r.cfg.cutAt)) {
			if ret {
				// the first cycle ended by itself: judged like any cycle; a second one follows a completed one
				r.finish(st, err)
				if r.res.outcome != "completed" {
					r.res.outcome = "first cycle " + r.res.outcome
					return
				}
				r.tag("second-cycle-after-completion")
			}
			r.nextCycle(st)
			if r.halt {
				return
			}
			continue
		}
		if ret {
			r.finish(st, err)
			return
		}
		// note new requests
		rs := r.requests()
		for _, q := range rs[r.seen:] {
			q.seenAt, q.cyc = r.step, r.cyc
			r.ev("%s receives request #%d [%s]", q.peer, q.seq, nums(q.nums))
		}
		r.seen = len(rs)
		// requests whose pend entry is gone without an answer have expired / were discarded
		for _, q := range rs {
			if (q.state == "waiting" || q.state == "late" || q.state == "orphan") && !q.expired {
				if cur, ok := st.Pend[q.peer]; !ok || nums(cur) != nums(q.nums) {
					q.expired = true
				}
			}
		}
		// a second peer joins once the first request is out
		if r.cfg.p2 != "" && !r.p2joined && len(rs) > 0 {
			r.p2joined = true
			r.ev("P2 (%s) joins", r.cfg.p2)
			if err := r.dl.RegisterPeer("P2", r.stub("P2")); err != nil {
				panic(err)
			}
			continue
		}
		if r.cfg.eager && !r.stalled && st.Processable > 0 {
			if r.importOpportunity(st, false) {
				continue
			}
		}
		// answers that were held back until their request expired
		late := false
		for _, q := range rs {
			if q.state == "late" && q.expired {
				q.state = "answered"
				r.tag("late-answer")
				r.lastAnswer = r.bodiesOf(q)
				if q.cyc < r.cyc {
					r.tag("late-answer-of-first-cycle")
					r.send(q.peer, r.lastAnswer, "late answer to a request of the previous cycle")
				} else {
					r.send(q.peer, r.lastAnswer, "late answer to an expired request")
				}
				late = true
				break
			}
		}
		if late {
			continue
		}
		// unhandled requests, lowest block first
		var next *reqB
		for _, q := range rs {
			if q.state == "" && (next == nil || q.nums[0] < next.nums[0]) {
				next = q
			}
		}
		if next != nil {
			if next.peer == "P1" {
				r.handleP1(next)
			} else {
				r.handleP2(next)
			}
			continue
		}
		if st.Processable > 0 {
			forced := r.stalled
			r.stalled = false
			if r.importOpportunity(st, forced) {
				continue
			}
		}
		if r.nextSched <= r.n() {
			r.schedule(r.n() - r.nextSched + 1)
			continue
		}
		// nothing else can happen: time passes, the oldest request in flight expires
		if len(st.Pend) > 0 {
			r.expireOldest(st, rs)
			continue
		}
		// the designated peer comes back
		if r.p1Away && r.registered(st, "P1") == nil && r.p1Returns < 3 {
			r.p1Returns++
			r.p1Away = false
			r.ev("P1 reconnects")
			r.tag("reconnect")
			if err := r.dl.RegisterPeer("P1", r.stub("P1")); err != nil {
				panic(err)
			}
			r.lastEvent["P1"] = "registered"
			continue
		}
		// dead state?
		if r.observeDead(st) {
			return
		}
	}
	r.res.outcome = "unfinished"
}

// nextCycle ends the first sync cycle where it stands - spawnSync's epilogue and
// Cancel: queue closed, cancel channel closed, fetchBodies awaited - and starts
// the next Synchronise on the same Downloader: delivery / wake channels
// emptied, queue.Reset, peers.Reset, new cancel channel, Prepare(first block),
// fetchBodies spawned, the new master peer's headers scheduled.  Requests of the
// first cycle that are still unanswered are answered late, in the second cycle.
func (r *runB) nextCycle(st downloader.VerifLoopState) {
	reached := r.org + r.got // first block not handed to the importer = where the result window stands
	rs := r.requests()
	for _, q := range rs[r.seen:] {
		q.seenAt, q.cyc = r.step, r.cyc
		r.ev("%s receives request #%d [%s]", q.peer, q.seq, nums(q.nums))
	}
	r.seen = len(rs)
	open := 0
	for _, q := range rs {
		if q.state == "" && q.peer == "P1" {
			q.state = "late" // the answer is on its way: it arrives in the next cycle
			open++
		}
		if q.state == "waiting" || q.state == "late" || q.state == "orphan" {
			q.expired = true // the queue forgets every request at the cycle start
		}
	}
	if open > 0 || len(st.Pend) > 0 {
		r.tag("cycle-cut-with-requests-in-flight")
	}
	if st.Processable > 0 {
		r.tag("cycle-cut-with-results-ready")
	}
	err, returned := r.dl.EndSync(20 * time.Second)
	if !returned {
		r.viol("fetch loop: fetchBodies has not returned after the sync cycle was cancelled",
			fmt.Sprintf("queue closed and cancel channel closed 20 s ago; cycle %d, importer holds %d blocks\n%s", r.cyc, r.got, strings.Join(r.res.events, "\n")))
		r.res.outcome = "stuck after cancel"
		r.halt = true
		return
	}
	next := r.ch
	var first uint64
	if r.cfg.cyc2 == "fork" {
		next = r.alt
		first = r.cfg.shared + 1 // ancestor = the fork point ...
		if reached < first {
			first = reached // ... unless the local head is still below it
		}
	} else if f := int64(reached) + int64(r.cfg.rel); f >= 1 {
		first = uint64(f)
	}
	if first < 1 {
		first = 1
	}
	if top := uint64(len(next.pattern)); first > top {
		first = top
	}
	switch {
	case first < reached:
		r.tag("second-cycle-starts-below-the-point-reached")
	case first == reached:
		r.tag("second-cycle-starts-at-the-point-reached")
	default:
		r.tag("second-cycle-starts-above-the-point-reached")
	}
	r.ev("cycle 1 ends with %d blocks handed out (fetchBodies: %v); cycle 2 fetches %d..%d of the %s chain", r.got, err, first, len(next.pattern), r.cfg.cyc2)
	r.cyc, r.org, r.ch, r.got, r.nextSched = 2, first, next, 0, first
	r.wakeFalse, r.stalled = false, false
	master := ""
	if r.cfg.master {
		master = "P1"
	}
	r.dl.BeginSync(master, first)
	r.dl.StartFetchBodies()
	r.schedule(r.n() - first + 1)
}

// importOpportunity: results are ready.  Returns false if the importer lets the
// opportunity pass without anything having been done.
func (r *runB) importOpportunity(st downloader.VerifLoopState, forced bool) bool {
	kind := kTake
	if !forced {
		kind = r.decide(fmt.Sprintf("import[%d ready]", st.Processable), []string{kTake, kStall})
	}
	if kind == kStall {
		r.tag("importer-stall")
		r.ev("importer stalls")
		if r.cfg.eager {
			r.stalled = true // until nothing else can move
			return false
		}
		// lazy importer: time passes (loop rounds run) before it takes
		for i := 0; i < 3; i++ {
			r.settle()
		}
	}
	if st.Throttled {
		r.tag("throttled")
	}
	r.importStep()
	return true
}

func (r *runB) expireOldest(st downloader.VerifLoopState, rs []*reqB) {
	var old *reqB
	for id, ns := range st.Pend {
		var q *reqB
		for i := len(rs) - 1; i >= 0; i-- {
			if rs[i].peer == id && nums(rs[i].nums) == nums(ns) {
				q = rs[i]
				break
			}
		}
		if q == nil {
			continue
		}
		if old == nil || q.seenAt < old.seenAt || (q.seenAt == old.seenAt && q.nums[0] < old.nums[0]) {
			old = q
		}
	}
	if old == nil {
		return
	}
	r.ev("time passes: request #%d of %s [%s] exceeds the TTL", old.seq, old.peer, nums(old.nums))
	r.tag("expiry")
	r.warped[old.peer] = len(old.nums)
	if r.registered(st, old.peer) != nil {
		if len(old.nums) > 2 {
			r.lastEvent[old.peer] = "expiry of a request of more than 2 items"
		} else {
			r.lastEvent[old.peer] = "expiry of a request of at most 2 items"
		}
	}
	r.q.SetRequestTime(old.peer, time.Now().Add(-2*time.Hour))
	r.poke()
}

// checkDrops: the downloader may drop a peer only for a timed-out request of
// at most two items (fetchParts' rule).
func (r *runB) checkDrops() {
	r.dmu.Lock()
	drops := append([]string{}, r.dropped...)
	r.dropped = r.dropped[:0]
	r.dmu.Unlock()
	for _, id := range drops {
		r.tag("peer-dropped")
		r.ev("downloader drops %s", id)
		n, ok := r.warped[id]
		if !ok || n > 2 {
			r.viol("fetch loop: peer dropped without a timed-out request of at most 2 items",
				fmt.Sprintf("%s dropped; last expiry for it: %d items (known=%v)", id, n, ok))
		}
		delete(r.warped, id)
		if id == "P1" {
			r.p1Away = true
			r.lastEvent["P1"] = "dropped"
			if r.cfg.master {
				r.masterGone = "dropped"
			}
		}
	}
}

func (r *runB) drain() {
	for i := 0; i < 50; i++ {
		if r.q.Processable() == 0 {
			return
		}
		r.importStep()
	}
}

func (r *runB) finish(st downloader.VerifLoopState, err error) {
	// fetchBodies has returned: from here on only the controller changes the peer
	// set, so read the final state (the snapshot handed in may predate the return)
	r.checkDrops()
	st = r.dl.LoopState()
	if err == nil {
		r.drain()
		r.res.outcome = "completed"
		if r.org+r.got != r.n()+1 || r.nextSched <= r.n() {
			r.viol("fetch loop: fetchBodies reported completion with blocks not delivered",
				fmt.Sprintf("cycle %d: importer holds %d of the blocks %d..%d, headers scheduled up to %d", r.cyc, r.got, r.org, r.n(), r.nextSched-1))
		}
		return
	}
	r.res.outcome = "aborted: " + err.Error()
	legit := ""
	switch {
	case err == downloader.VerifErrCanceled && r.masterGone != "":
		legit = "master peer " + r.masterGone
	case err == downloader.VerifErrTimeout && r.masterGone == "dropped":
		legit = "master peer timed out"
	case len(st.Peers) == 0 && (err == downloader.VerifErrNoPeers || err == downloader.VerifErrPeersUnavailable):
		legit = "no peer left"
	case err == downloader.VerifErrPeersUnavailable:
		all := true
		for _, p := range st.Peers {
			if p.Lacking == 0 {
				all = false
			}
		}
		if all {
			legit = "every peer answered 'I do not have this'"
		}
	}
	if legit == "" {
		r.viol("fetch loop: body download aborted without cause: "+errClassB(err),
			fmt.Sprintf("fetchBodies returned %q; peers %+v, queued %d, last event for P1: %s", err, st.Peers, st.Queued, r.lastEvent["P1"]))
	} else {
		r.res.outcome += " (" + legit + ")"
	}
}

func errClassB(err error) string {
	s := err.Error()
	if strings.HasPrefix(s, "panic:") {
		if i := strings.Index(s, ">: "); i > 0 { // "<peer ...>: bodies fetch assignment failed"
			return "panic: " + s[i+3:]
		}
		if strings.Contains(s, "fetch assignment failed") {
			return "panic: fetch assignment failed"
		}
	}
	return s
}

// observeDead is reached when the environment has nothing left to do: no
// request is in flight (so no answer and no expiry can ever come), no results
// wait for the importer, all headers are scheduled.  If fetchBodies still has
// not returned and repeated wake-ups change nothing, the loop is in a dead
// state.  Returns false if the state moved after all.
func (r *runB) observeDead(st downloader.VerifLoopState) bool {
	ref := r.fingerprint(st, false)
	rounds, pause := 30, 8*time.Millisecond
	if r.fullObs {
		pause = 100 * time.Millisecond // 30 periods of fetchParts' own ticker
	}
	if r.cfg.ticker {
		pause = 100 * time.Millisecond
	}
	for i := 0; i < rounds; i++ {
		r.poke()
		time.Sleep(pause)
		ret, _ := r.dl.FetchReturned()
		cur := r.dl.LoopState()
		if ret || r.fingerprint(cur, ret) != ref {
			r.ev("state moved during dead-state observation")
			return false
		}
	}
	p1 := r.registered(st, "P1")
	switch {
	case p1 == nil:
		r.res.outcome = "exempt: designated peer not registered"
		return true
	}
	r.res.outcome = "stuck"
	what := "bodies queued"
	if st.Queued == 0 {
		what = "no body queued"
	}
	// peers marked busy although nothing is in flight are the cause (nothing can
	// ever idle them); idle peers are listed only when there is no such peer
	benched := false
	for _, p := range st.Peers {
		if !p.Idle {
			benched = true
		}
	}
	var parts []string
	for _, p := range st.Peers {
		if benched && p.Idle {
			continue
		}
		role := "designated peer"
		if p.ID != "P1" {
			role = "second peer"
		}
		switch {
		case !p.Idle:
			// busy although nothing is in flight: nothing can ever idle it
			parts = append(parts, fmt.Sprintf("%s marked busy (last event for it: %s)", role, r.lastEvent[p.ID]))
		case st.Throttled:
			parts = append(parts, role+" idle, download throttled with nothing for the importer to take")
		case p.Lacking > 0:
			parts = append(parts, role+" idle, marked as lacking blocks")
		default:
			parts = append(parts, role+" idle but not given work")
		}
	}
	r.viol(fmt.Sprintf("fetch loop hangs: %s, nothing in flight; %s", what, strings.Join(parts, "; ")),
		fmt.Sprintf("fetchBodies has not returned; %d body tasks queued, 0 requests in flight, importer holds %d of %d blocks, peers %+v; unchanged over %d wake-ups\n%s",
			st.Queued, r.got, r.n(), st.Peers, rounds, strings.Join(r.res.events, "\n")))
	return true
}
