package c18

import (
	"hash/fnv"
	"sort"
	"strings"
	"sync"

	"verif/mc"
)

func hash64(s string) uint64 {
	h := fnv.New64a()
	h.Write([]byte(s))
	return h.Sum64()
}

type nodeFlags struct{ complete, exempt, aborted bool }

type gnode struct {
	flags    nodeFlags
	parent   uint64
	parentOp string
	depth    int
	live     []uint64 // successors through liveMove ops
	nout     int      // out-edges recorded (any op)
}

// graph is the explored transition graph, recorded by the System instances while
// mc.BFS drives them (nodes = 64-bit hashes of the canonical keys).  It exists
// for the liveness half of the property, which is a statement about
// reachability and cannot be evaluated on a single execution.
type graph struct {
	shards [64]struct {
		sync.Mutex
		m map[uint64]*gnode
	}
	ops sync.Map // op string interning

	trans [64]struct {
		sync.Mutex
		m map[uint64]struct{}
	}

	dmu  sync.RWMutex
	dead map[uint64]string // filled by analyse: node -> class
}

func newGraph() *graph {
	g := &graph{dead: map[uint64]string{}}
	for i := range g.shards {
		g.shards[i].m = map[uint64]*gnode{}
		g.trans[i].m = map[uint64]struct{}{}
	}
	return g
}

// firstTime reports whether the transition (state, op) is seen for the first time.
func (g *graph) firstTime(from uint64, op string) bool {
	id := hash64(op) ^ (from * 0x9e3779b97f4a7c15)
	sh := &g.trans[id&63]
	sh.Lock()
	_, dup := sh.m[id]
	if !dup {
		sh.m[id] = struct{}{}
	}
	sh.Unlock()
	return !dup
}

func (g *graph) intern(op string) string {
	if v, ok := g.ops.Load(op); ok {
		return v.(string)
	}
	v, _ := g.ops.LoadOrStore(op, op)
	return v.(string)
}

func (g *graph) root(id uint64, f nodeFlags) {
	sh := &g.shards[id&63]
	sh.Lock()
	if _, ok := sh.m[id]; !ok {
		sh.m[id] = &gnode{flags: f}
	}
	sh.Unlock()
}

func (g *graph) edge(from, to uint64, op string, live bool, f nodeFlags) {
	sf := &g.shards[from&63]
	sf.Lock()
	nf := sf.m[from]
	depth := 0
	if nf != nil {
		depth = nf.depth
		nf.nout++
		if live {
			dup := false
			for _, x := range nf.live {
				if x == to {
					dup = true
					break
				}
			}
			if !dup {
				nf.live = append(nf.live, to)
			}
		}
	}
	sf.Unlock()
	st := &g.shards[to&63]
	st.Lock()
	if _, ok := st.m[to]; !ok {
		st.m[to] = &gnode{flags: f, parent: from, parentOp: g.intern(op), depth: depth + 1}
	}
	st.Unlock()
}

func (g *graph) isDead(id uint64) bool {
	g.dmu.RLock()
	_, ok := g.dead[id]
	g.dmu.RUnlock()
	return ok
}

func (g *graph) deadViolation(id uint64, key string) mc.Violation {
	g.dmu.RLock()
	class := g.dead[id]
	g.dmu.RUnlock()
	return mc.Violation{
		Sig:    "dead state: completion unreachable although the honest peer stays and answers (" + class + ")",
		Detail: "from this state no sequence of header scheduling, result retrieval, request expiry and reservations/complete answers of the honest peer P1 reaches 'all blocks imported'\nstate: " + key}
}

func (g *graph) path(id uint64) []string {
	var rev []string
	for {
		n := g.node(id)
		if n == nil || n.parentOp == "" {
			break
		}
		rev = append(rev, n.parentOp)
		id = n.parent
	}
	for i, j := 0, len(rev)-1; i < j; i, j = i+1, j-1 {
		rev[i], rev[j] = rev[j], rev[i]
	}
	return rev
}

func (g *graph) node(id uint64) *gnode {
	sh := &g.shards[id&63]
	sh.Lock()
	defer sh.Unlock()
	return sh.m[id]
}

func (g *graph) size() int {
	n := 0
	for i := range g.shards {
		n += len(g.shards[i].m)
	}
	return n
}

type candidate struct {
	id    uint64
	depth int
}

// analyse runs after the BFS (single-threaded): backward reachability from the
// completion states over live-move edges.  Every state that is not complete,
// not aborted (reported on its own) and still has the honest peer registered
// must reach completion.  With an unfinished exploration, states without
// recorded successors are unknown and counted as able to complete.
func (g *graph) analyse(exhaustive bool) (cands []candidate, stats map[string]int) {
	all := map[uint64]*gnode{}
	for i := range g.shards {
		for id, n := range g.shards[i].m {
			all[id] = n
		}
	}
	rev := map[uint64][]uint64{}
	for id, n := range all {
		for _, t := range n.live {
			rev[t] = append(rev[t], id)
		}
	}
	can := map[uint64]bool{}
	var work []uint64
	stats = map[string]int{}
	for id, n := range all {
		switch {
		case n.flags.complete:
			stats["completion_states"]++
			can[id] = true
			work = append(work, id)
		case !exhaustive && n.nout == 0:
			stats["unexpanded_states_assumed_live"]++
			can[id] = true
			work = append(work, id)
		}
	}
	for len(work) > 0 {
		id := work[len(work)-1]
		work = work[:len(work)-1]
		for _, p := range rev[id] {
			if !can[p] {
				can[p] = true
				work = append(work, p)
			}
		}
	}
	for id, n := range all {
		switch {
		case n.flags.aborted:
			stats["aborted_states"]++
		case n.flags.exempt:
			stats["states_exempt_honest_peer_dropped"]++
		case can[id]:
			stats["states_that_can_complete"]++
		default:
			stats["dead_candidates"]++
			cands = append(cands, candidate{id, n.depth})
		}
	}
	sort.Slice(cands, func(i, j int) bool {
		if cands[i].depth != cands[j].depth {
			return cands[i].depth < cands[j].depth
		}
		return cands[i].id < cands[j].id
	})
	return
}

// confirmDead is the graph-independent cross-check of one candidate: replay its
// path on fresh real objects and search forward through live moves only.
func confirmDead(f func() *Sys, path []string, limit int) (dead bool, explored int, class string) {
	seen := map[string]bool{}
	type item struct{ ops []string }
	start := f()
	replay := func(sys *Sys, ops []string) {
		sys.Reset()
		for _, op := range ops {
			sys.Apply(op)
		}
	}
	replay(start, path)
	class = start.deadClass()
	seen[start.Key()] = true
	queue := []item{{nil}}
	sys := f()
	for len(queue) > 0 && len(seen) < limit {
		it := queue[0]
		queue = queue[1:]
		replay(sys, append(append([]string{}, path...), it.ops...))
		if sys.complete() {
			return false, len(seen), class
		}
		en := sys.Enabled()
		for _, op := range en {
			if !liveMove(op) {
				continue
			}
			replay(sys, append(append([]string{}, path...), it.ops...))
			sys.Apply(op)
			if sys.complete() {
				return false, len(seen), class
			}
			if k := sys.Key(); !seen[k] {
				seen[k] = true
				queue = append(queue, item{append(append([]string{}, it.ops...), op)})
			}
		}
	}
	return len(queue) == 0, len(seen), class
}

// deadClass names what is wrong in a state that cannot complete.
func (s *Sys) deadClass() string {
	d := s.q.Dump()
	if lost := s.lostTasks(d); len(lost) > 0 {
		return "a scheduled block is in no pool"
	}
	p1 := s.peers[0]
	_, has := d.Pend[p1.id]
	switch {
	case !p1.conn.BodiesIdle() && !has && p1.prev == nil:
		return "honest peer marked busy forever"
	case s.q.PendingBlocks() > 0 && s.q.ShouldThrottleBlocks():
		return "download throttled forever"
	case s.q.PendingBlocks() == 0 && s.next > s.n():
		return "no task left but results incomplete"
	}
	if len(p1.conn.Lacking()) > 0 {
		return "honest peer wrongly marked as lacking blocks"
	}
	return "no progress possible"
}

func joinOps(ops []string) string { return strings.Join(ops, " ; ") }
