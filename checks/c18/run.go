package c18

import (
	"fmt"
	"os"
	"strings"

	"github.com/youchainhq/go-youchain/logging"
	"github.com/youchainhq/go-youchain/you/downloader"

	"verif/mc"
)

func setup() {
	downloader.VerifSetBlockCacheItems(window)
	logging.Root().SetHandler(logging.DiscardHandler())
}

const window = 4 // blockCacheItems: result window smaller than the chain, so throttling is exercised

func configs(r *mc.Run) []config {
	var out []config
	if r.Quick() {
		// honest peer + one arbitrary peer on four empty/non-empty patterns, then
		// two arbitrary peers on the patterns with three non-empty blocks
		for _, p := range []string{"TTTTT", "ETTET", "TETTE", "TTEET"} {
			out = append(out, config{pattern: p, peers: 2, caps: []int{2, 3}, cache: window, extra: true})
		}
		for _, p := range []string{"TTEET", "ETTET"} {
			out = append(out, config{pattern: p, peers: 3, caps: []int{2, 3}, cache: window, extra: true})
		}
		return out
	}
	var pats []string
	for m := 0; m < 32; m++ {
		p := ""
		for i := 0; i < 5; i++ {
			if m>>uint(i)&1 == 0 {
				p += "T"
			} else {
				p += "E"
			}
		}
		pats = append(pats, p)
	}
	for _, p := range pats {
		out = append(out, config{pattern: p, peers: 2, caps: []int{1, 2, 3}, cache: window, extra: true})
	}
	for _, p := range pats { // two arbitrary peers: small task counts first
		if strings.Count(p, "T") <= 3 {
			out = append(out, config{pattern: p, peers: 3, caps: []int{2, 3}, cache: window, extra: true})
		}
	}
	for _, p := range pats {
		if strings.Count(p, "T") > 3 {
			out = append(out, config{pattern: p, peers: 3, caps: []int{2, 3}, cache: window, extra: true})
		}
	}
	return out
}

func Run(r *mc.Run) {
	r.Level = "model_checking"
	setup()
	r.Rule = "BFS to a fixpoint over every interleaving of: Schedule(next 1|2 headers), ReserveBodies(+FetchBodies) for any idle registered peer and request size, DeliverBodies of any shape (complete, partial prefix, empty, first/second body wrong, late answer to a given-up request, unsolicited), ExpireBodies (peer dropped when <=2 items timed out, idled otherwise, as fetchParts does), peer disconnect, Results; plus Revoke, Reserve+Cancel and lying header batches; states de-duplicated on the full bookkeeping of queue, peerConnections and PeerSet; distinct = distinct such states; liveness = backward reachability of completion over the recorded graph through moves of a fair environment with honest peer P1"
	// part 1 (the queue under every interleaving) gets the first share of the
	// budget, part 2 (the real fetch loop, fetch.go) the rest
	if r.Quick() {
		r.SetBudget(80e9)
	} else {
		r.SetBudget(19 * 60e9)
	}
	defer func() {
		if os.Getenv("C18_PART") == "1" {
			return
		}
		if r.Quick() {
			r.SetBudget(175e9)
		} else {
			r.SetBudget(29 * 60e9)
		}
		runFetch(r)
	}()
	if os.Getenv("C18_PART") == "2" {
		return
	}
	maxStates := 400000
	if !r.Quick() {
		maxStates = 1500000
	}
	if v := os.Getenv("C18_MAXSTATES"); v != "" {
		fmt.Sscan(v, &maxStates)
	}
	r.Assume("the goroutine/timer layer of Downloader.Synchronise is not scheduled; the claim is for the scheduler data structure under every order of the calls that layer makes (FullSync mode, bodies only)")
	r.Assume("peer P1 is honest for the whole run: it answers every request completely and in order, possibly after the request timed out; P2.. are arbitrary")
	r.Assume("errPeersUnavailable (all idle peers lack the data) is not modelled; the honest peer never lacks data")
	cfgs := configs(r)
	if v := os.Getenv("C18_PEERS"); v != "" {
		for i := range cfgs {
			fmt.Sscan(v, &cfgs[i].peers)
		}
	}
	if v := os.Getenv("C18_WINDOW"); v != "" {
		for i := range cfgs {
			fmt.Sscan(v, &cfgs[i].cache)
		}
	}
	if v := os.Getenv("C18_PATTERNS"); v != "" {
		var sel []config
		for _, p := range strings.Split(v, ",") {
			c := cfgs[0]
			c.pattern = p
			sel = append(sel, c)
		}
		cfgs = sel
	}
	var done []string
	for _, cfg := range cfgs {
		cfg := cfg
		if r.Expired() {
			break
		}
		downloader.VerifSetBlockCacheItems(cfg.cache)
		g := newGraph()
		f := func() mc.System { return newSys(r, cfg, g) }
		name := fmt.Sprintf("queue-%s-%dp", cfg.pattern, cfg.peers)
		n := r.BFS(f, mc.SeqOpts{Name: name, Config: cfg.String(), Depth: 400, MaxStates: maxStates})
		exhaustive := !r.Expired() && n <= maxStates
		liveness(r, cfg, g, name, exhaustive)
		r.ConfirmSeq(name, f)
		done = append(done, fmt.Sprintf("%s: %d states, exhaustive=%v", cfg.String(), n, exhaustive))
	}
	r.SetExtra("configurations", done)
}

func liveness(r *mc.Run, cfg config, g *graph, name string, exhaustive bool) {
	cands, stats := g.analyse(exhaustive)
	for k, v := range stats {
		r.Count("liveness_"+k, int64(v))
	}
	if stats["completion_states"] == 0 && exhaustive {
		r.HarnessError("c18: no completion state reached for " + cfg.String())
	}
	fs := func() *Sys { return newSys(r, cfg, newGraph()) }
	reported := map[string]bool{}
	for i, c := range cands {
		if i >= 200 || len(reported) >= 4 || r.Expired() {
			break
		}
		path := g.path(c.id)
		dead, explored, class := confirmDead(fs, path, 20000)
		r.Count("liveness_candidates_cross_checked", 1)
		if !dead {
			r.HarnessError(fmt.Sprintf("c18: state after [%s] cannot complete in the merged graph but can in a direct search (%d states): key merging unsound?", joinOps(path), explored))
			continue
		}
		if class == "a scheduled block is in no pool" {
			// same defect as the per-transition report "dead state: task lost after <op>"
			r.Count("liveness_dead_states_explained_by_a_lost_task", 1)
			continue
		}
		if reported[class] {
			continue
		}
		reported[class] = true
		g.dmu.Lock()
		g.dead[c.id] = class
		g.dmu.Unlock()
		sys := newSys(r, cfg, g)
		obs, viols, err := mc.ReplaySeq(sys, path)
		if err != nil {
			r.HarnessError("c18: " + err.Error())
			continue
		}
		for _, v := range viols {
			if strings.HasPrefix(v.Sig, "dead state: completion unreachable") {
				v.System, v.Config, v.Ops, v.Obs = name, cfg.String(), path, obs
				v.Detail += fmt.Sprintf("\ncross-check: direct search through fair moves from this state visited %d states, none complete", explored)
				r.Report(v)
			}
		}
	}
}

func Replay(r *mc.Run, v *mc.Violation) {
	setup()
	if strings.HasPrefix(v.System, "fetch-") {
		replayFetch(r, v)
		return
	}
	pattern := strings.TrimPrefix(v.System, "queue-")
	if i := strings.Index(pattern, "-"); i > 0 {
		pattern = pattern[:i]
	}
	var cfg config
	found := false
	for _, tier := range []string{"quick", "thorough"} {
		for _, c := range configs(mc.NewRun(r.ID, tier, r.Seed)) {
			if c.pattern == pattern && c.String() == v.Config {
				cfg, found = c, true
			}
		}
	}
	if !found {
		fmt.Println("unknown configuration", v.Config)
		return
	}
	downloader.VerifSetBlockCacheItems(cfg.cache)
	g := newGraph()
	sys := newSys(r, cfg, g)
	obs, viols, err := mc.ReplaySeq(sys, v.Ops)
	for i, op := range v.Ops {
		o := ""
		if i < len(obs) {
			o = obs[i]
		}
		fmt.Printf("  %2d %-22s -> %s\n", i, op, o)
	}
	fmt.Println("final state:", sys.Key(), "err:", err)
	for _, x := range viols {
		x.System, x.Config, x.Ops = v.System, v.Config, v.Ops
		fmt.Println("violation:", x.Sig, "\n ", x.Detail)
		r.Report(x)
	}
	if strings.HasPrefix(v.Sig, "dead state: completion unreachable") {
		dead, explored, class := confirmDead(func() *Sys { return newSys(r, cfg, newGraph()) }, v.Ops, 20000)
		fmt.Printf("direct search through fair moves: dead=%v states=%d class=%s\n", dead, explored, class)
		if dead {
			x := *v
			r.Report(x)
		}
	}
}
