package c18

import (
	"fmt"
	"os"
	"strings"
	"time"

	"github.com/youchainhq/go-youchain/logging"
	"github.com/youchainhq/go-youchain/you/downloader"

	"verif/mc"
)

func setup() {
	downloader.VerifSetBlockCacheItems(window)
	logging.Root().SetHandler(logging.DiscardHandler())
}

const window = 4 // blockCacheItems: result window smaller than the chain, so throttling is exercised

func configs(r *mc.Run) []config {
	var out []config
	if r.Quick() {
		// honest peer + one arbitrary peer on four empty/non-empty patterns, then
		// two arbitrary peers on the patterns with three non-empty blocks
		for _, p := range []string{"TTTTT", "ETTET", "TETTE", "TTEET"} {
			out = append(out, config{pattern: p, peers: 2, caps: []int{2, 3}, cache: window, extra: true})
		}
		for _, p := range []string{"TTEET", "ETTET"} {
			out = append(out, config{pattern: p, peers: 3, caps: []int{2, 3}, cache: window, extra: true})
		}
		out = append(out, memConfigs(r)...)
		return out
	}
	var pats []string
	for m := 0; m < 32; m++ {
		p := ""
		for i := 0; i < 5; i++ {
			if m>>uint(i)&1 == 0 {
				p += "T"
			} else {
				p += "E"
			}
		}
		pats = append(pats, p)
	}
	for _, p := range pats {
		out = append(out, config{pattern: p, peers: 2, caps: []int{1, 2, 3}, cache: window, extra: true})
	}
	for _, p := range pats { // two arbitrary peers: small task counts first
		if strings.Count(p, "T") <= 3 {
			out = append(out, config{pattern: p, peers: 3, caps: []int{2, 3}, cache: window, extra: true})
		}
	}
	for _, p := range pats {
		if strings.Count(p, "T") > 3 {
			out = append(out, config{pattern: p, peers: 3, caps: []int{2, 3}, cache: window, extra: true})
		}
	}
	out = append(out, memConfigs(r)...)
	return out
}

// memConfigs: the memory cap of the result cache binds.  blockCacheMemory is
// lowered (hook) to memCap bytes and the chain has blocks with one big
// transaction ('B'): Results() feeds the size of every block it hands out into
// the moving average resultSize (weight 0.1), and resultSlots allows only the
// first ceil(memCap/resultSize) slots of the window once window*resultSize
// exceeds the cap.  With a 'B' block of ~20.7 kB and small blocks of < 1 kB the
// limit of a 4-slot window goes 4 -> 2 after the first imported B block and
// -> 1 after a second one, and back up with small blocks: the limit moves WHILE
// results further back in the window are already complete.
const memCap = 3900

func memConfigs(r *mc.Run) []config {
	if r.Quick() {
		return []config{{pattern: "BBTTT", peers: 2, caps: []int{2, 3}, cache: window, mem: memCap}}
	}
	return []config{
		{pattern: "BBTTT", peers: 2, caps: []int{1, 2, 3}, cache: window, extra: true, mem: memCap},
		{pattern: "BTTTT", peers: 2, caps: []int{2, 3}, cache: window, mem: memCap},
		{pattern: "TBTBT", peers: 2, caps: []int{2, 3}, cache: window, mem: memCap},
	}
}

// multiConfigs: consecutive sync cycles on ONE queue and peer set.
func multiConfigs(r *mc.Run) []config {
	if r.Quick() {
		return []config{
			// first cycle starts above the fork point: the second can start below the first's origin
			{pattern: "TETT", peers: 2, caps: []int{2}, cache: 3, cycles: 2, org1: 2, alt: "TTT", shared: 1},
			// the next cycle on the same chain (origin below / at / above the point the
			// window reached) or on a chain forking off after block 2 (origin 1..3)
			{pattern: "TTTT", peers: 2, caps: []int{2}, cache: 3, cycles: 2, alt: "TTET", shared: 2},
		}
	}
	return []config{
		{pattern: "TTTT", peers: 2, caps: []int{2, 3}, cache: 3, cycles: 2, alt: "TTET", shared: 2, extra: true},
		{pattern: "TETT", peers: 2, caps: []int{2, 3}, cache: 3, cycles: 2, org1: 2, alt: "TTT", shared: 1, extra: true},
		// three cycles: what the second leaves behind meets the third
		{pattern: "TTT", peers: 2, caps: []int{2}, cache: 2, cycles: 3, alt: "TTT", shared: 1},
		// two arbitrary peers
		{pattern: "TTT", peers: 3, caps: []int{2}, cache: 2, cycles: 2, alt: "TET", shared: 1},
		{pattern: "ETTET", peers: 2, caps: []int{2, 3}, cache: 4, cycles: 2, org1: 2, alt: "ETTTT", shared: 3},
		// as far as the budget of this part reaches (BFS: every state up to the depth completed)
		{pattern: "TTTT", peers: 3, caps: []int{2}, cache: 3, cycles: 2, alt: "TTET", shared: 2},
	}
}

func Run(r *mc.Run) {
	r.Level = "model_checking"
	setup()
	r.Rule = "BFS to a fixpoint over every interleaving of: Schedule(next 1|2 headers), ReserveBodies(+FetchBodies) for any idle registered peer and request size, DeliverBodies of any shape (complete, partial prefix, empty packet, first/second body wrong, hollow = a packet of as many bodies as requested each an EMPTY transaction list, hollow2 = genuine bodies with the second replaced by an empty list - requests only hold non-empty blocks, so an empty list is never the right body -, late answer to a given-up request, unsolicited), ExpireBodies (peer dropped when <=2 items timed out, idled otherwise, as fetchParts does), peer disconnect, Results; plus Revoke, Reserve+Cancel and lying header batches; states de-duplicated on the full bookkeeping of queue, peerConnections and PeerSet; distinct = distinct such states; liveness = backward reachability of completion over the recorded graph through moves of a fair environment with honest peer P1"
	r.Rule += " || MEMORY CAP (systems queue-...-mem<cap>): the same BFS with blockCacheMemory lowered to <cap> bytes and chains holding blocks with one 20 kB transaction (B): Results() feeds the sizes of the blocks it hands out into the moving average resultSize, resultSlots then allows only the first ceil(cap/resultSize) slots of the 4-slot window (4 -> 2 -> 1 and up again along the chain) while results further back are already complete and blocks inside the limit are missing, in flight, expired or rejected; state key additionally holds resultSize and the slot limit; same safety and liveness oracles (a state where the download stays throttled with the honest peer idle is a dead state) || CONSECUTIVE SYNC CYCLES (systems queue<k>-...): the same BFS on ONE queue and peer set through k sync cycles; in every state of a cycle - completed, or cancelled right there with whatever is queued, in flight, done, ready or lacking - the op cycle(o,c) ends it and starts the next Synchronise exactly as spawnSync / synchronise / syncWithPeer do (queue.Close, queue.Reset, peers.Reset, Prepare(o)) for first block o and chain c: c = the chain just downloaded with every o from the ended cycle's origin up to one above the point its result window reached (import failure inside a handed-out batch / all taken / head advanced by the block fetcher), or c = the other chain (shares blocks 1..shared with it, different headers and bodies above) with every o in 1..shared+1 (ancestor at or below the fork point, also below the ended cycle's origin); requests in flight when a cycle ends are answered late in the next one (honest peer: always and first; arbitrary peers: possibly); the state key additionally holds cycle number, origin and chain; all oracles apply per cycle relative to ITS origin and chain (Results ascending, gap-free from the cycle's origin, exactly once, only headers of the cycle's chain, matching bodies; no abort; no lost task; completion of the cycle reachable from every state of it through fair moves) plus, directly after a cycle start: no task / request / done mark / result slot / header head / busy flag / lacking mark of the ended cycle is left, the window starts at o, the queue is open"
	// part 1 (the queue under every interleaving; consecutive cycles first) gets the
	// first share of the budget, part 2 (the real fetch loop, fetch.go) the rest
	multiBudget, queueBudget, totalBudget := 30e9, 110e9, 215e9
	if !r.Quick() {
		multiBudget, queueBudget, totalBudget = 5*60e9, 21*60e9, 30*60e9
	}
	if v := os.Getenv("C18_MULTI_BUDGET"); v != "" { // seconds (experiments)
		fmt.Sscan(v, &multiBudget)
		multiBudget *= 1e9
	}
	r.SetBudget(time.Duration(multiBudget))
	defer func() {
		if os.Getenv("C18_PART") == "1" {
			return
		}
		r.SetBudget(time.Duration(totalBudget))
		runFetch(r)
	}()
	if os.Getenv("C18_PART") == "2" {
		return
	}
	maxStates := 400000
	if !r.Quick() {
		maxStates = 1500000
	}
	if v := os.Getenv("C18_MAXSTATES"); v != "" {
		fmt.Sscan(v, &maxStates)
	}
	r.Assume("the goroutine/timer layer of Downloader.Synchronise is not scheduled; the claim is for the scheduler data structure under every order of the calls that layer makes (FullSync mode, bodies only)")
	r.Assume("peer P1 is honest for the whole run: it answers every request completely and in order, possibly after the request timed out; P2.. are arbitrary")
	r.Assume("errPeersUnavailable (all idle peers lack the data) is not modelled; the honest peer never lacks data")
	r.Assume("memory-cap configurations: instead of megabyte blocks against the production cap of 64 MiB, blockCacheMemory is lowered (hook VerifSetBlockCacheMemory) to 3900 bytes against blocks of ~20.7 kB / < 1 kB; resultSlots only reads the ratio cap/resultSize and the window length, receipts are not fetched (full sync)")
	cfgs := configs(r)
	if v := os.Getenv("C18_PEERS"); v != "" {
		for i := range cfgs {
			fmt.Sscan(v, &cfgs[i].peers)
		}
	}
	if v := os.Getenv("C18_WINDOW"); v != "" {
		for i := range cfgs {
			fmt.Sscan(v, &cfgs[i].cache)
		}
	}
	if v := os.Getenv("C18_PATTERNS"); v != "" {
		var sel []config
		for _, p := range strings.Split(v, ",") {
			c := cfgs[0]
			c.pattern = p
			sel = append(sel, c)
		}
		cfgs = sel
	}
	if v := os.Getenv("C18_MEM"); v != "" { // experiments: memory cap for the selected patterns
		for i := range cfgs {
			fmt.Sscan(v, &cfgs[i].mem)
		}
	}
	explore := func(cfgs []config) []string {
		var done []string
		for _, cfg := range cfgs {
			cfg := cfg
			if r.Expired() {
				break
			}
			downloader.VerifSetBlockCacheItems(cfg.cache)
			restore := setMemCap(cfg)
			g := newGraph()
			f := func() mc.System { return newSys(r, cfg, g) }
			name := cfg.sysName()
			t0 := time.Now()
			n := r.BFS(f, mc.SeqOpts{Name: name, Config: cfg.String(), Depth: 400, MaxStates: maxStates})
			exhaustive := !r.Expired() && n <= maxStates
			liveness(r, cfg, g, name, exhaustive)
			r.ConfirmSeq(name, f)
			done = append(done, fmt.Sprintf("%s: %d states, exhaustive=%v, %.1f s", cfg.String(), n, exhaustive, time.Since(t0).Seconds()))
			restore()
		}
		return done
	}
	if os.Getenv("C18_MULTI") != "0" {
		r.Assume("consecutive cycles: the cycle switch is atomic (Cancel waits for every fetcher goroutine before the next synchronise resets anything); the local chain between two cycles is only described by the next origin; a request in flight when its cycle ends is either answered in the next cycle or never")
		r.SetExtra("configurations_consecutive_cycles", explore(multiConfigs(r)))
	}
	r.SetBudget(time.Duration(queueBudget))
	if os.Getenv("C18_MULTI") == "only" {
		return
	}
	r.SetExtra("configurations", explore(cfgs))
}

// setMemCap lowers blockCacheMemory for a configuration that asks for it and
// returns the function that puts the previous value back (configurations are
// explored one after the other; part 2 runs afterwards with the production value).
func setMemCap(cfg config) func() {
	if cfg.mem <= 0 {
		return func() {}
	}
	old := downloader.VerifSetBlockCacheMemory(cfg.mem)
	return func() { downloader.VerifSetBlockCacheMemory(old) }
}

func liveness(r *mc.Run, cfg config, g *graph, name string, exhaustive bool) {
	cands, stats := g.analyse(exhaustive)
	for k, v := range stats {
		r.Count("liveness_"+k, int64(v))
	}
	if stats["completion_states"] == 0 && exhaustive {
		r.HarnessError("c18: no completion state reached for " + cfg.String())
	}
	fs := func() *Sys { return newSys(r, cfg, newGraph()) }
	reported := map[string]bool{}
	for i, c := range cands {
		if i >= 200 || len(reported) >= 4 || r.Expired() {
			break
		}
		path := g.path(c.id)
		dead, explored, class := confirmDead(fs, path, 20000)
		r.Count("liveness_candidates_cross_checked", 1)
		if !dead {
			r.HarnessError(fmt.Sprintf("c18: state after [%s] cannot complete in the merged graph but can in a direct search (%d states): key merging unsound?", joinOps(path), explored))
			continue
		}
		if class == "a scheduled block is in no pool" {
			// same defect as the per-transition report "dead state: task lost after <op>"
			r.Count("liveness_dead_states_explained_by_a_lost_task", 1)
			continue
		}
		if reported[class] {
			continue
		}
		reported[class] = true
		g.dmu.Lock()
		g.dead[c.id] = class
		g.dmu.Unlock()
		sys := newSys(r, cfg, g)
		obs, viols, err := mc.ReplaySeq(sys, path)
		if err != nil {
			r.HarnessError("c18: " + err.Error())
			continue
		}
		for _, v := range viols {
			if strings.HasPrefix(v.Sig, "dead state: completion unreachable") {
				v.System, v.Config, v.Ops, v.Obs = name, cfg.String(), path, obs
				v.Detail += fmt.Sprintf("\ncross-check: direct search through fair moves from this state visited %d states, none complete", explored)
				r.Report(v)
			}
		}
	}
}

func Replay(r *mc.Run, v *mc.Violation) {
	setup()
	if strings.HasPrefix(v.System, "fetch-") {
		replayFetch(r, v)
		return
	}
	var cfg config
	found := false
	for _, tier := range []string{"quick", "thorough"} {
		tr := mc.NewRun(r.ID, tier, r.Seed)
		for _, c := range append(configs(tr), multiConfigs(tr)...) {
			if c.sysName() == v.System && c.String() == v.Config {
				cfg, found = c, true
			}
		}
	}
	if !found {
		fmt.Println("unknown configuration", v.Config)
		return
	}
	downloader.VerifSetBlockCacheItems(cfg.cache)
	defer setMemCap(cfg)()
	g := newGraph()
	sys := newSys(r, cfg, g)
	obs, viols, err := mc.ReplaySeq(sys, v.Ops)
	for i, op := range v.Ops {
		o := ""
		if i < len(obs) {
			o = obs[i]
		}
		fmt.Printf("  %2d %-22s -> %s\n", i, op, o)
	}
	fmt.Println("final state:", sys.Key(), "err:", err)
	for _, x := range viols {
		x.System, x.Config, x.Ops = v.System, v.Config, v.Ops
		fmt.Println("violation:", x.Sig, "\n ", x.Detail)
		r.Report(x)
	}
	if strings.HasPrefix(v.Sig, "dead state: completion unreachable") {
		dead, explored, class := confirmDead(func() *Sys { return newSys(r, cfg, newGraph()) }, v.Ops, 20000)
		fmt.Printf("direct search through fair moves: dead=%v states=%d class=%s\n", dead, explored, class)
		if dead {
			x := *v
			r.Report(x)
		}
	}
}
