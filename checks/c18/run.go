package c18

import (
	"fmt"
	"os"
	"strings"
	"time"

	"github.com/youchainhq/go-youchain/logging"
	"github.com/youchainhq/go-youchain/you/downloader"

	"verif/mc"
)

func setup() {
	downloader.VerifSetBlockCacheItems(window)
	logging.Root().SetHandler(logging.DiscardHandler())
}

const window = 4 // blockCacheItems: result window smaller than the chain, so throttling is exercised

func configs(r *mc.Run) []config {
	var out []config
	if r.Quick() {
		// honest peer + one arbitrary peer on four empty/non-empty patterns, then
		// two arbitrary peers on the patterns with three non-empty blocks
		for _, p := range []string{"TTTTT", "ETTET", "TETTE", "TTEET"} {
			out = append(out, config{pattern: p, peers: 2, caps: []int{2, 3}, cache: window, extra: true})
		}
		for _, p := range []string{"TTEET", "ETTET"} {
			out = append(out, config{pattern: p, peers: 3, caps: []int{2, 3}, cache: window, extra: true})
		}
		return out
	}
	var pats []string
	for m := 0; m < 32; m++ {
		p := ""
		for i := 0; i < 5; i++ {
			if m>>uint(i)&1 == 0 {
				p += "T"
			} else {
				p += "E"
			}
		}
		pats = append(pats, p)
	}
	for _, p := range pats {
		out = append(out, config{pattern: p, peers: 2, caps: []int{1, 2, 3}, cache: window, extra: true})
	}
	for _, p := range pats { // two arbitrary peers: small task counts first
		if strings.Count(p, "T") <= 3 {
			out = append(out, config{pattern: p, peers: 3, caps: []int{2, 3}, cache: window, extra: true})
		}
	}
	for _, p := range pats {
		if strings.Count(p, "T") > 3 {
			out = append(out, config{pattern: p, peers: 3, caps: []int{2, 3}, cache: window, extra: true})
		}
	}
	return out
}

// multiConfigs: consecutive sync cycles on ONE queue and peer set.
func multiConfigs(r *mc.Run) []config {
	if r.Quick() {
		return []config{
			// first cycle starts above the fork point: the second can start below the first's origin
			{pattern: "TETT", peers: 2, caps: []int{2}, cache: 3, cycles: 2, org1: 2, alt: "TTT", shared: 1},
			// the next cycle on the same chain (origin below / at / above the point the
			// window reached) or on a chain forking off after block 2 (origin 1..3)
			{pattern: "TTTT", peers: 2, caps: []int{2}, cache: 3, cycles: 2, alt: "TTET", shared: 2},
		}
	}
	return []config{
		{pattern: "TTTT", peers: 2, caps: []int{2, 3}, cache: 3, cycles: 2, alt: "TTET", shared: 2, extra: true},
		{pattern: "TETT", peers: 2, caps: []int{2, 3}, cache: 3, cycles: 2, org1: 2, alt: "TTT", shared: 1, extra: true},
		// three cycles: what the second leaves behind meets the third
		{pattern: "TTT", peers: 2, caps: []int{2}, cache: 2, cycles: 3, alt: "TTT", shared: 1},
		// two arbitrary peers
		{pattern: "TTT", peers: 3, caps: []int{2}, cache: 2, cycles: 2, alt: "TET", shared: 1},
		{pattern: "ETTET", peers: 2, caps: []int{2, 3}, cache: 4, cycles: 2, org1: 2, alt: "ETTTT", shared: 3},
		// as far as the budget of this part reaches (BFS: every state up to the depth completed)
		{pattern: "TTTT", peers: 3, caps: []int{2}, cache: 3, cycles: 2, alt: "TTET", shared: 2},
	}
}

func Run(r *mc.Run) {
	r.Level = "model_checking"
	setup()
	r.Rule = "BFS to a fixpoint over every interleaving of: Schedule(next 1|2 headers), ReserveBodies(+FetchBodies) for any idle registered peer and request size, DeliverBodies of any shape (complete, partial prefix, empty, first/second body wrong, late answer to a given-up request, unsolicited), ExpireBodies (peer dropped when <=2 items timed out, idled otherwise, as fetchParts does), peer disconnect, Results; plus Revoke, Reserve+Cancel and lying header batches; states de-duplicated on the full bookkeeping of queue, peerConnections and PeerSet; distinct = distinct such states; liveness = backward reachability of completion over the recorded graph through moves of a fair environment with honest peer P1"
	r.Rule += " || CONSECUTIVE SYNC CYCLES (systems queue<k>-...): the same BFS on ONE queue and peer set through k sync cycles; in every state of a cycle - completed, or cancelled right there with whatever is queued, in flight, done, ready or lacking - the op cycle(o,c) ends it and starts the next Synchronise exactly as spawnSync / synchronise / syncWithPeer do (queue.Close, queue.Reset, peers.Reset, Prepare(o)) for first block o and chain c: c = the chain just downloaded with every o from the ended cycle's origin up to one above the point its result window reached (import failure inside a handed-out batch / all taken / head advanced by the block fetcher), or c = the other chain (shares blocks 1..shared with it, different headers and bodies above) with every o in 1..shared+1 (ancestor at or below the fork point, also below the ended cycle's origin); requests in flight when a cycle ends are answered late in the next one (honest peer: always and first; arbitrary peers: possibly); the state key additionally holds cycle number, origin and chain; all oracles apply per cycle relative to ITS origin and chain (Results ascending, gap-free from the cycle's origin, exactly once, only headers of the cycle's chain, matching bodies; no abort; no lost task; completion of the cycle reachable from every state of it through fair moves) plus, directly after a cycle start: no task / request / done mark / result slot / header head / busy flag / lacking mark of the ended cycle is left, the window starts at o, the queue is open"
	// part 1 (the queue under every interleaving; consecutive cycles first) gets the
	// first share of the budget, part 2 (the real fetch loop, fetch.go) the rest
	multiBudget, queueBudget, totalBudget := 30e9, 110e9, 215e9
	if !r.Quick() {
		multiBudget, queueBudget, totalBudget = 5*60e9, 21*60e9, 30*60e9
	}
	if v := os.Getenv("C18_MULTI_BUDGET"); v != "" { // seconds (experiments)
		fmt.Sscan(v, &multiBudget)
		multiBudget *= 1e9
	}
	r.SetBudget(time.Duration(multiBudget))
	defer func() {
		if os.Getenv("C18_PART") == "1" {
			return
		}
		r.SetBudget(time.Duration(totalBudget))
		runFetch(r)
	}()
	if os.Getenv("C18_PART") == "2" {
		return
	}
	maxStates := 400000
	if !r.Quick() {
		maxStates = 1500000
	}
	if v := os.Getenv("C18_MAXSTATES"); v != "" {
		fmt.Sscan(v, &maxStates)
	}
	r.Assume("the goroutine/timer layer of Downloader.Synchronise is not scheduled; the claim is for the scheduler data structure under every order of the calls that layer makes (FullSync mode, bodies only)")
	r.Assume("peer P1 is honest for the whole run: it answers every request completely and in order, possibly after the request timed out; P2.. are arbitrary")
	r.Assume("errPeersUnavailable (all idle peers lack the data) is not modelled; the honest peer never lacks data")
	cfgs := configs(r)
	if v := os.Getenv("C18_PEERS"); v != "" {
		for i := range cfgs {
			fmt.Sscan(v, &cfgs[i].peers)
		}
	}
	if v := os.Getenv("C18_WINDOW"); v != "" {
		for i := range cfgs {
			fmt.Sscan(v, &cfgs[i].cache)
		}
	}
	if v := os.Getenv("C18_PATTERNS"); v != "" {
		var sel []config
		for _, p := range strings.Split(v, ",") {
			c := cfgs[0]
			c.pattern = p
			sel = append(sel, c)
		}
		cfgs = sel
	}
	explore := func(cfgs []config) []string {
		var done []string
		for _, cfg := range cfgs {
			cfg := cfg
			if r.Expired() {
				break
			}
			downloader.VerifSetBlockCacheItems(cfg.cache)
			g := newGraph()
			f := func() mc.System { return newSys(r, cfg, g) }
			name := cfg.sysName()
			t0 := time.Now()
			n := r.BFS(f, mc.SeqOpts{Name: name, Config: cfg.String(), Depth: 400, MaxStates: maxStates})
			exhaustive := !r.Expired() && n <= maxStates
			liveness(r, cfg, g, name, exhaustive)
			r.ConfirmSeq(name, f)
			done = append(done, fmt.Sprintf("%s: %d states, exhaustive=%v, %.1f s", cfg.String(), n, exhaustive, time.Since(t0).Seconds()))
		}
		return done
	}
	if os.Getenv("C18_MULTI") != "0" {
		r.Assume("consecutive cycles: the cycle switch is atomic (Cancel waits for every fetcher goroutine before the next synchronise resets anything); the local chain between two cycles is only described by the next origin; a request in flight when its cycle ends is either answered in the next cycle or never")
		r.SetExtra("configurations_consecutive_cycles", explore(multiConfigs(r)))
	}
	r.SetBudget(time.Duration(queueBudget))
	if os.Getenv("C18_MULTI") == "only" {
		return
	}
	r.SetExtra("configurations", explore(cfgs))
}

func liveness(r *mc.Run, cfg config, g *graph, name string, exhaustive bool) {
	cands, stats := g.analyse(exhaustive)
	for k, v := range stats {
		r.Count("liveness_"+k, int64(v))
	}
	if stats["completion_states"] == 0 && exhaustive {
		r.HarnessError("c18: no completion state reached for " + cfg.String())
	}
	fs := func() *Sys { return newSys(r, cfg, newGraph()) }
	reported := map[string]bool{}
	for i, c := range cands {
		if i >= 200 || len(reported) >= 4 || r.Expired() {
			break
		}
		path := g.path(c.id)
		dead, explored, class := confirmDead(fs, path, 20000)
		r.Count("liveness_candidates_cross_checked", 1)
		if !dead {
			r.HarnessError(fmt.Sprintf("c18: state after [%s] cannot complete in the merged graph but can in a direct search (%d states): key merging unsound?", joinOps(path), explored))
			continue
		}
		if class == "a scheduled block is in no pool" {
			// same defect as the per-transition report "dead state: task lost after <op>"
			r.Count("liveness_dead_states_explained_by_a_lost_task", 1)
			continue
		}
		if reported[class] {
			continue
		}
		reported[class] = true
		g.dmu.Lock()
		g.dead[c.id] = class
		g.dmu.Unlock()
		sys := newSys(r, cfg, g)
		obs, viols, err := mc.ReplaySeq(sys, path)
		if err != nil {
			r.HarnessError("c18: " + err.Error())
			continue
		}
		for _, v := range viols {
			if strings.HasPrefix(v.Sig, "dead state: completion unreachable") {
				v.System, v.Config, v.Ops, v.Obs = name, cfg.String(), path, obs
				v.Detail += fmt.Sprintf("\ncross-check: direct search through fair moves from this state visited %d states, none complete", explored)
				r.Report(v)
			}
		}
	}
}

func Replay(r *mc.Run, v *mc.Violation) {
	setup()
	if strings.HasPrefix(v.System, "fetch-") {
		replayFetch(r, v)
		return
	}
	var cfg config
	found := false
	for _, tier := range []string{"quick", "thorough"} {
		tr := mc.NewRun(r.ID, tier, r.Seed)
		for _, c := range append(configs(tr), multiConfigs(tr)...) {
			if c.sysName() == v.System && c.String() == v.Config {
				cfg, found = c, true
			}
		}
	}
	if !found {
		fmt.Println("unknown configuration", v.Config)
		return
	}
	downloader.VerifSetBlockCacheItems(cfg.cache)
	g := newGraph()
	sys := newSys(r, cfg, g)
	obs, viols, err := mc.ReplaySeq(sys, v.Ops)
	for i, op := range v.Ops {
		o := ""
		if i < len(obs) {
			o = obs[i]
		}
		fmt.Printf("  %2d %-22s -> %s\n", i, op, o)
	}
	fmt.Println("final state:", sys.Key(), "err:", err)
	for _, x := range viols {
		x.System, x.Config, x.Ops = v.System, v.Config, v.Ops
		fmt.Println("violation:", x.Sig, "\n ", x.Detail)
		r.Report(x)
	}
	if strings.HasPrefix(v.Sig, "dead state: completion unreachable") {
		dead, explored, class := confirmDead(func() *Sys { return newSys(r, cfg, newGraph()) }, v.Ops, 20000)
		fmt.Printf("direct search through fair moves: dead=%v states=%d class=%s\n", dead, explored, class)
		if dead {
			x := *v
			r.Report(x)
		}
	}
}
