package c18

// Deviation-bounded exhaustive exploration of the schedules of fetch.go.

import (
	"fmt"
	"os"
	"sort"
	"strings"
	"sync"
	"sync/atomic"
	"time"

	"github.com/youchainhq/go-youchain/you/downloader"

	"verif/mc"
)

func configsB(quick bool) []cfgB {
	out := []cfgB{
		// two sync cycles on one Downloader: the first is cancelled once the importer
		// holds cutAt blocks (requests in flight, results possibly ready), the second
		// starts below / at / above the point the result window had reached, on the
		// same chain or on one forking off after block `shared`
		{name: "cyc2-below", pattern: "TTTTTTTT", window: 6, maxFetch: 4, eager: true, cyc2: "same", cutAt: 4, rel: -2},
		{name: "cyc2-fork", pattern: "TTETTTTT", window: 6, maxFetch: 4, eager: true, cyc2: "fork", cutAt: 4, shared: 2},
		{name: "cyc2-at", pattern: "TTTTTTTT", window: 6, maxFetch: 4, cyc2: "same", cutAt: 2, rel: 0},
		{name: "cyc2-above", pattern: "TTTTTTTT", window: 6, maxFetch: 4, eager: true, cyc2: "same", cutAt: 2, rel: 1},
		{name: "cyc2-after-completion", pattern: "TTTTTT", window: 6, maxFetch: 4, cyc2: "same", cutAt: 7, rel: -3},
		{name: "cyc2-below-p2-honest", pattern: "TTTTTTTT", window: 6, maxFetch: 3, p2: "honest", master: true, eager: true, cyc2: "same", cutAt: 3, rel: -2},
		// the designated peer alone: nobody else can take over
		{name: "solo", pattern: "TTTTTTTTTT", window: 6, maxFetch: 4},
		{name: "solo-eager", pattern: "TTETTTTETT", window: 6, maxFetch: 4, eager: true, split: true},
		{name: "solo-master", pattern: "TTTTTTTT", window: 8, maxFetch: 3, master: true},
		// a second peer with a fixed personality
		{name: "p2-honest", pattern: "TTTTTTTTTT", window: 8, maxFetch: 4, p2: "honest"},
		{name: "p2-dead", pattern: "TTTTTTTTTT", window: 8, maxFetch: 4, p2: "dead"},
		{name: "p2-liar", pattern: "TTTTTTTTTT", window: 8, maxFetch: 4, p2: "liar"},
		{name: "p2-empty", pattern: "TTTTTTTTTT", window: 8, maxFetch: 4, p2: "empty"},
		{name: "p2-gone", pattern: "TTTTTTTTTT", window: 8, maxFetch: 4, p2: "gone"},
		// no wake signals used as ticks: time passes only through the loop's own ticker
		{name: "solo-ticker", pattern: "TTTTTTTTTT", window: 6, maxFetch: 4, ticker: true},
	}
	return out
}

// depthB: the deviation bound per configuration and tier.
func depthB(c cfgB, quick bool) int {
	k := 2
	if !quick {
		k = 3
	}
	if c.p2 == "" && !c.ticker {
		k++ // the designated peer alone: nobody else can take over
	}
	if c.ticker {
		k--
	}
	if c.cyc2 != "" { // the decision points of both cycles count
		k = 2
		if !quick {
			k = 3
		}
	}
	if v := os.Getenv("C18B_K"); v != "" {
		fmt.Sscan(v, &k)
	}
	return k
}

type taskB struct {
	sched []string
	devs  int
}

type exploreB struct {
	r    *mc.Run
	cfg  cfgB
	k    int
	name string

	mu       sync.Mutex
	queue    []taskB
	inflight int
	cond     *sync.Cond

	smu       sync.Mutex
	outcomes  map[string]int
	byDevs    map[int]int
	cands     map[string][]string // violation signature -> shortest schedule
	candV     map[string]mc.Violation
	maxWall   time.Duration
	sumWall   time.Duration
	nsched    int64
	diverged  int64
	settles   int64
	decisions int64
}

func fmtSched(points []pointB) []string {
	out := make([]string, len(points))
	for i, p := range points {
		out[i] = p.Label + ":" + p.Chosen
	}
	return out
}

func kindsOf(ops []string) []string {
	out := make([]string, len(ops))
	for i, o := range ops {
		if j := strings.LastIndex(o, ":"); j >= 0 {
			o = o[j+1:]
		}
		out[i] = o
	}
	return out
}

func outcomeKey(res *resultB) string {
	var tags []string
	for t := range res.tags {
		tags = append(tags, t)
	}
	sort.Strings(tags)
	o := res.outcome
	if len(tags) > 0 {
		o += " [" + strings.Join(tags, ",") + "]"
	}
	return o
}

func (e *exploreB) push(t taskB) {
	e.mu.Lock()
	e.queue = append(e.queue, t)
	e.mu.Unlock()
	e.cond.Signal()
}

func (e *exploreB) worker() {
	for {
		e.mu.Lock()
		for len(e.queue) == 0 && e.inflight > 0 {
			e.cond.Wait()
		}
		if len(e.queue) == 0 {
			e.mu.Unlock()
			e.cond.Broadcast()
			return
		}
		// depth first: newest task first keeps the frontier small
		t := e.queue[len(e.queue)-1]
		e.queue = e.queue[:len(e.queue)-1]
		e.inflight++
		e.mu.Unlock()

		if !e.r.Expired() {
			e.one(t)
		}

		e.mu.Lock()
		e.inflight--
		e.mu.Unlock()
		e.cond.Broadcast()
	}
}

func (e *exploreB) one(t taskB) {
	res := runSchedule(e.cfg, t.sched, false)
	r := e.r
	// determinism sample: one schedule in eight is executed a second time; the
	// real loop may take another legal path (both are checked), the evidence
	// says how often that happened
	if hash64(strings.Join(t.sched, ";"))%8 == 0 {
		again := runSchedule(e.cfg, t.sched, false)
		if strings.Join(again.events, "|")+outcomeKey(again) == strings.Join(res.events, "|")+outcomeKey(res) {
			r.Count("fetch_loop_rerun_identical_trace", 1)
		} else {
			r.Count("fetch_loop_rerun_other_legal_path", 1)
			if len(again.viols) != len(res.viols) {
				r.Count("fetch_loop_rerun_other_verdict", 1)
			}
		}
		e.smu.Lock()
		for _, v := range again.viols {
			if _, ok := e.cands[v.Sig]; !ok {
				e.cands[v.Sig] = fmtSched(again.points)
				e.candV[v.Sig] = v
			}
		}
		e.smu.Unlock()
	}
	atomic.AddInt64(&r.Executions, 1)
	atomic.AddInt64(&r.Transitions, int64(len(res.points)))
	atomic.AddInt64(&r.States, int64(len(res.points)))
	key := outcomeKey(res)
	ops := fmtSched(res.points)
	r.Distinct(e.cfg.name + "|" + strings.Join(ops, ";") + "|" + key)
	e.smu.Lock()
	e.nsched++
	e.outcomes[key]++
	e.byDevs[res.devs]++
	e.diverged += int64(res.diverged)
	e.settles += int64(res.settles)
	e.decisions += int64(len(res.points))
	e.sumWall += res.wall
	if res.wall > e.maxWall {
		e.maxWall = res.wall
	}
	for _, v := range res.viols {
		if old, ok := e.cands[v.Sig]; !ok || len(ops) < len(old) || (len(ops) == len(old) && devCount(ops) < devCount(old)) {
			e.cands[v.Sig] = ops
			e.candV[v.Sig] = v
		}
	}
	e.smu.Unlock()
	if res.devs >= 1 && res.devs <= 2 {
		r.Sample(fmt.Sprintf("%s: %s => %s", e.cfg.name, strings.Join(ops, " ; "), key))
	}
	if res.outcome == "unfinished" {
		r.Cap("a schedule did not finish within its step budget (" + e.cfg.name + ")")
	}
	if t.devs >= e.k {
		return
	}
	// children: one more deviation at a decision point after the last explicit one
	for pos := len(t.sched); pos < len(res.points); pos++ {
		for _, alt := range res.points[pos].Alts[1:] {
			child := make([]string, pos+1)
			for i := 0; i < pos; i++ {
				child[i] = res.points[i].Chosen
			}
			child[pos] = alt
			e.push(taskB{sched: child, devs: t.devs + 1})
		}
	}
}

func devCount(ops []string) int {
	n := 0
	for _, k := range kindsOf(ops) {
		if isDeviation(k) {
			n++
		}
	}
	return n
}

func setupB(c cfgB) func() {
	oldW := downloader.VerifSetBlockCacheItems(c.window)
	oldF := downloader.VerifSetMaxBlockFetch(c.maxFetch)
	return func() {
		downloader.VerifSetBlockCacheItems(oldW)
		downloader.VerifSetMaxBlockFetch(oldF)
	}
}

// runFetch is part 2 of the check.
func runFetch(r *mc.Run) {
	r.Assume("part 2 (fetch loop): virtual time - an answer takes no time, the oldest outstanding request expires only when nothing else can happen; other orders of answers and expiries are covered by part 1 on the queue alone")
	r.Assume("part 2: a wake signal (processHeaders' `true`) is used as a tick in addition to fetchParts' own 100 ms ticker; both only trigger a round of the loop")
	r.Assume("part 2, two cycles: the point where the first cycle is cut is fixed per configuration (first loop round at which the importer holds cutAt blocks), not explored; every cut point x every interleaving is part 1's job (systems queue2-...)")
	r.Assume("part 2: peer throughput is measured by wall-clock; MaxBlockFetch is set to 3..4 so the request size is 2 after a failure and MaxBlockFetch after a success whatever the measurement")
	r.Rule += " || PART 2 (real fetch loop): every schedule with at most k deviations (k per configuration in fetch_loop_configurations) of a run of the real Downloader.fetchBodies/fetchParts goroutine against scripted peers; a schedule = the choices at the run's decision points in order of occurrence: per request received by the designated peer P1 one of {full, part (prefix), empty, wrong0 (first body wrong), wrongLast, hollow (as many bodies as requested, each an empty transaction list), dup (previous answer packet again, then the answer), unsol (batch nobody asked for, then the answer), timeout (never answered; expires), late (answered after the expiry was processed), disconnect (reconnects after the orphaned request expired)}, per import opportunity one of {take, stall}; configurations vary chain pattern, result window, MaxBlockFetch, master peer, eager/lazy importer, split header scheduling and a second peer with a fixed personality (honest | dead: never answers | liar: first body always wrong | empty: always empty answers | gone: disconnects on its first request); distinct = distinct (configuration, schedule, outcome); oracles: importer sequence origin.. exactly once with matching body; fetchBodies must return, nil only with every block delivered, an error only with a cause (master lost, no peer left, every peer lacking); a run that has not returned while nothing is in flight, nothing is left for the environment to do and 30 wake-ups change nothing is a dead state; peers are dropped only for a timed-out request of at most 2 items; every violation signature is confirmed by 3 replays of its shortest schedule with the dead state observed over 30 periods of the loop's own 100 ms ticker; configurations cyc2-*: TWO sync cycles on one Downloader - the first is cancelled as soon as the importer holds cutAt blocks (requests in flight, results possibly ready; or it runs to its end) exactly as spawnSync/Cancel/synchronise do (queue closed, cancel channel closed, fetchBodies awaited, wake and delivery channels emptied, queue.Reset, peers.Reset, new cancel channel, Prepare, fetchBodies spawned again), the second fetches from below / at / above the point the result window had reached, on the same chain or on a chain forking off below that point; unanswered requests of the first cycle are answered late in the second; the decision points of both cycles are explored, all oracles apply to each cycle relative to its own first block and chain"
	deadlineB = r.Deadline
	cfgs := configsB(r.Quick())
	if v := os.Getenv("C18B_CONFIGS"); v != "" {
		var sel []cfgB
		for _, c := range cfgs {
			for _, n := range strings.Split(v, ",") {
				if c.name == n {
					sel = append(sel, c)
				}
			}
		}
		cfgs = sel
	}
	workers := r.Workers * 4
	if v := os.Getenv("C18B_WORKERS"); v != "" {
		fmt.Sscan(v, &workers)
	}
	var summary []string
	totalOut := map[string]int{}
	totalDevs := map[int]int{}
	var maxWall time.Duration
	var nsched, diverged, settles int64
	for _, cfg := range cfgs {
		if r.Expired() {
			break
		}
		restore := setupB(cfg)
		e := &exploreB{r: r, cfg: cfg, k: depthB(cfg, r.Quick()), name: "fetch-" + cfg.name,
			outcomes: map[string]int{}, byDevs: map[int]int{}, cands: map[string][]string{}, candV: map[string]mc.Violation{}}
		e.cond = sync.NewCond(&e.mu)
		t0 := time.Now()
		e.push(taskB{})
		var wg sync.WaitGroup
		for w := 0; w < workers; w++ {
			wg.Add(1)
			go func() { defer wg.Done(); e.worker() }()
		}
		wg.Wait()
		e.confirm()
		restore()
		summary = append(summary, fmt.Sprintf("%s (%s): k<=%d, %d schedules %v, %d outcomes, max schedule wall %.0f ms, mean %.0f ms, %.1f s, complete=%v",
			cfg.name, cfg.String(), e.k, e.nsched, e.byDevs, len(e.outcomes), e.maxWall.Seconds()*1000, e.sumWall.Seconds()*1000/float64(max64(e.nsched, 1)), time.Since(t0).Seconds(), !r.Expired()))
		for k, v := range e.outcomes {
			totalOut[k] += v
		}
		for k, v := range e.byDevs {
			totalDevs[k] += v
		}
		if e.maxWall > maxWall {
			maxWall = e.maxWall
		}
		nsched += e.nsched
		diverged += e.diverged
		settles += e.settles
	}
	r.SetExtra("fetch_loop_configurations", summary)
	r.SetExtra("fetch_loop_schedules", nsched)
	devs := map[string]int{}
	for k, v := range totalDevs {
		devs[fmt.Sprintf("%d deviations", k)] = v
	}
	r.SetExtra("fetch_loop_schedules_by_deviations", devs)
	// outcome classes (without the event tags) and, per tag, in how many schedules it occurred
	classes, tagHist := map[string]int{}, map[string]int{}
	for k, v := range totalOut {
		cl := k
		if i := strings.Index(k, " ["); i >= 0 {
			cl = k[:i]
			for _, t := range strings.Split(strings.TrimSuffix(k[i+2:], "]"), ",") {
				tagHist[t] += v
			}
		}
		classes[cl] += v
	}
	r.SetExtra("fetch_loop_outcomes", classes)
	r.SetExtra("fetch_loop_schedules_with_event", tagHist)
	r.SetExtra("fetch_loop_distinct_outcomes", len(totalOut))
	r.SetExtra("fetch_loop_max_schedule_wall_ms", int64(maxWall.Seconds()*1000))
	r.Count("fetch_loop_scheduled_kind_not_applicable", diverged)
	r.Count("fetch_loop_quiescence_waits", settles)
	for k, v := range totalOut {
		switch {
		case strings.HasPrefix(k, "completed"):
			r.Count("fetch_loop_completed", int64(v))
			if strings.Contains(k, "expiry") {
				r.Count("fetch_loop_completed_after_expiry", int64(v))
			}
			if strings.Contains(k, "peer-dropped") {
				r.Count("fetch_loop_completed_after_peer_drop", int64(v))
			}
			if strings.Contains(k, "unsolicited-packet") {
				r.Count("fetch_loop_completed_after_packet_with_nothing_pending", int64(v))
			}
			if strings.Contains(k, "throttled") {
				r.Count("fetch_loop_completed_after_throttling", int64(v))
			}
			for _, t := range []string{"second-cycle-starts-below-the-point-reached", "second-cycle-starts-at-the-point-reached", "second-cycle-starts-above-the-point-reached",
				"second-cycle-after-completion", "cycle-cut-with-requests-in-flight", "cycle-cut-with-results-ready", "late-answer-of-first-cycle"} {
				if strings.Contains(k, t) {
					r.Count("fetch_loop_completed_"+strings.Replace(t, "-", "_", -1), int64(v))
				}
			}
		case strings.HasPrefix(k, "first cycle"):
			r.Count("fetch_loop_first_cycle_ended_without_a_second_one", int64(v))
		case strings.HasPrefix(k, "aborted"):
			r.Count("fetch_loop_aborted", int64(v))
		case strings.HasPrefix(k, "stuck"):
			r.Count("fetch_loop_stuck", int64(v))
		case strings.HasPrefix(k, "exempt"):
			r.Count("fetch_loop_exempt_designated_peer_gone", int64(v))
		default:
			r.Count("fetch_loop_unfinished", int64(v))
		}
	}
}

func max64(a, b int64) int64 {
	if a > b {
		return a
	}
	return b
}

// confirm is the determinism gate: the shortest schedule of every violation
// signature is replayed three times (dead states observed over 30 real ticker
// periods); only a signature that reproduces every time is reported.
func (e *exploreB) confirm() {
	var sigs []string
	for s := range e.cands {
		sigs = append(sigs, s)
	}
	sort.Strings(sigs)
	type rep struct {
		hits int
		outs []string
	}
	reps := make([]rep, len(sigs))
	var wg sync.WaitGroup
	var mu sync.Mutex
	for i, sig := range sigs {
		for k := 0; k < 3; k++ {
			i, sig := i, sig
			wg.Add(1)
			go func() {
				defer wg.Done()
				res := runSchedule(e.cfg, kindsOf(e.cands[sig]), true)
				mu.Lock()
				defer mu.Unlock()
				reps[i].outs = append(reps[i].outs, outcomeKey(res))
				for _, v := range res.viols {
					if v.Sig == sig {
						reps[i].hits++
						break
					}
				}
			}()
		}
	}
	wg.Wait()
	for i, sig := range sigs {
		ops, hits, outs := e.cands[sig], reps[i].hits, reps[i].outs
		if hits == 3 {
			v := e.candV[sig]
			v.System, v.Config, v.Ops = e.name, e.cfg.String(), ops
			e.r.Report(v)
			e.r.Count("fetch_loop_violations_confirmed_by_3_replays", 1)
		} else {
			e.r.HarnessError(fmt.Sprintf("c18 fetch loop (%s): %q reproduced in %d of 3 replays of [%s] (outcomes %v); not reported", e.cfg.name, sig, hits, strings.Join(ops, " ; "), outs))
		}
	}
}

// replayFetch replays a part-2 violation file.
func replayFetch(r *mc.Run, v *mc.Violation) {
	var cfg cfgB
	found := false
	for _, c := range configsB(true) {
		if "fetch-"+c.name == v.System {
			cfg, found = c, true
		}
	}
	if !found {
		fmt.Println("unknown configuration", v.System)
		return
	}
	defer setupB(cfg)()
	res := runSchedule(cfg, kindsOf(v.Ops), true)
	for _, p := range res.points {
		fmt.Printf("  decision %-28s -> %s   (of %v)\n", p.Label, p.Chosen, p.Alts)
	}
	for _, e := range res.events {
		fmt.Println("   ", e)
	}
	fmt.Println("outcome:", outcomeKey(res))
	for _, x := range res.viols {
		x.System, x.Config, x.Ops = v.System, v.Config, v.Ops
		fmt.Println("violation:", x.Sig)
		r.Report(x)
	}
}
