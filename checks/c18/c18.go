// Package c18: block download delivers every block once, in order, with a
// matching body.
//
// BFS (de-duplicated on the complete bookkeeping of the real objects) over every
// interleaving of the calls that fetchParts / processHeaders /
// processFullSyncContent / UnregisterPeer make on the REAL downloader queue,
// with real peerConnection objects in a real PeerSet over a stub Peer.
package c18

import (
	"fmt"
	"math/big"
	"sort"
	"strconv"
	"strings"
	"sync"
	"time"

	"github.com/youchainhq/go-youchain/common"
	"github.com/youchainhq/go-youchain/core/types"
	"github.com/youchainhq/go-youchain/you/downloader"

	"verif/mc"
)

// ---- the header chain ------------------------------------------------------------

type chain struct {
	id      string                 // "m" = main chain, "f" = the alternative chain sharing a prefix with it
	pattern string                 // 'T' = block with a transaction, 'E' = empty block, 'B' = block with one big transaction (bigPayload bytes of data)
	hdr     []*types.Header        // hdr[i] = header number i (hdr[0] = the local head the sync starts from)
	txs     [][]*types.Transaction // txs[i] = body of block i
	num     map[common.Hash]uint64 // header hash -> number
	hash    []common.Hash          // hash[i] = hdr[i].Hash()
	fork    []*types.Header        // fork[i] = a header numbered i whose parent is NOT hdr[i-1]
	bogus   []*types.Transaction   // a body that belongs to no block
}

func mkTx(n uint64) *types.Transaction {
	return types.NewTransaction(n, common.BytesToAddress([]byte{0xc1, byte(n)}), big.NewInt(int64(n)), 21000, big.NewInt(1), nil)
}

// bigPayload: data bytes of the transaction of a 'B' block.  Only its SIZE
// matters: queue.Results feeds the size of every result it hands out into the
// moving average resultSize, from which resultSlots derives how many leading
// slots of the result cache the memory cap (blockCacheMemory) allows.
const bigPayload = 20000

func mkBigTx(n uint64) *types.Transaction {
	data := make([]byte, bigPayload)
	for i := range data {
		data[i] = byte(n) + byte(i)
	}
	return types.NewTransaction(n, common.BytesToAddress([]byte{0xc1, 0xb1, byte(n)}), big.NewInt(int64(n)), 21000, big.NewInt(1), data)
}

func mkHeader(n uint64, parent common.Hash, body []*types.Transaction, extra byte) *types.Header {
	return &types.Header{ParentHash: parent, Number: new(big.Int).SetUint64(n), TxHash: types.DeriveSha(types.Transactions(body)),
		ReceiptHash: types.EmptyRootHash, Subsidy: new(big.Int), GasRewards: new(big.Int), Time: 1000 + n, Extra: []byte{extra}}
}

func mkChain(pattern string) *chain {
	c := &chain{id: "m", pattern: pattern, num: map[common.Hash]uint64{}}
	mk := mkHeader
	c.hdr = append(c.hdr, mk(0, common.Hash{}, nil, 0))
	c.hash = append(c.hash, c.hdr[0].Hash())
	c.txs = append(c.txs, nil)
	c.fork = append(c.fork, nil)
	for i := 1; i <= len(pattern); i++ {
		var body []*types.Transaction
		if pattern[i-1] == 'T' {
			body = []*types.Transaction{mkTx(uint64(i))}
		} else if pattern[i-1] == 'B' {
			body = []*types.Transaction{mkBigTx(uint64(i))}
		}
		h := mk(uint64(i), c.hdr[i-1].Hash(), body, 0)
		c.hdr = append(c.hdr, h)
		c.txs = append(c.txs, body)
		c.hash = append(c.hash, h.Hash())
		c.num[h.Hash()] = uint64(i)
		c.fork = append(c.fork, mk(uint64(i), common.BytesToHash([]byte{0xba, 0xd0, byte(i)}), body, 1))
	}
	c.bogus = []*types.Transaction{mkTx(99)}
	return c
}

// mkFork builds the chain another master peer offers: blocks 1..shared are the
// main chain's (same header objects, same bodies), the blocks above are its own
// (different headers, and - where non-empty - different transactions, so a body
// of one chain never fits a block above the fork point on the other).
func mkFork(main *chain, shared uint64, pattern string) *chain {
	if pattern[:shared] != main.pattern[:shared] {
		panic("harness: the fork's pattern differs from the main chain's below the fork point")
	}
	c := &chain{id: "f", pattern: pattern, num: map[common.Hash]uint64{}, bogus: main.bogus}
	for i := uint64(0); i <= shared; i++ {
		c.hdr = append(c.hdr, main.hdr[i])
		c.hash = append(c.hash, main.hash[i])
		c.txs = append(c.txs, main.txs[i])
		c.fork = append(c.fork, main.fork[i])
		if i > 0 {
			c.num[main.hash[i]] = i
		}
	}
	for i := shared + 1; i <= uint64(len(pattern)); i++ {
		var body []*types.Transaction
		if pattern[i-1] == 'T' {
			body = []*types.Transaction{mkTx(100 + i)}
		} else if pattern[i-1] == 'B' {
			body = []*types.Transaction{mkBigTx(100 + i)}
		}
		h := mkHeader(i, c.hdr[i-1].Hash(), body, 2)
		c.hdr = append(c.hdr, h)
		c.txs = append(c.txs, body)
		c.hash = append(c.hash, h.Hash())
		c.num[h.Hash()] = i
		c.fork = append(c.fork, mkHeader(i, common.BytesToHash([]byte{0xba, 0xd1, byte(i)}), body, 3))
	}
	return c
}

// ---- the driver ------------------------------------------------------------------

type stubPeer struct{}

func (stubPeer) Head() (common.Hash, *big.Int)                                { return common.Hash{}, new(big.Int) }
func (stubPeer) Origin() *big.Int                                             { return new(big.Int) }
func (stubPeer) RequestHeadersByHash(common.Hash, int, int, bool, bool) error { return nil }
func (stubPeer) RequestHeadersByNumber(uint64, int, int, bool, bool) error    { return nil }
func (stubPeer) RequestBodies([]common.Hash) error                            { return nil }
func (stubPeer) RequestReceipts([]common.Hash) error                          { return nil }
func (stubPeer) RequestNodeData(types.TrieKind, []common.Hash) error          { return nil }

type peerM struct {
	id     string
	honest bool
	conn   *downloader.VerifPeer
	// prev: block numbers of the latest request the scheduler has given up on
	// (expired / discarded by a stale delivery / in flight when its sync cycle
	// ended) while the remote side has not answered it yet - the answer can still
	// arrive.  prevCh / prevCyc: the chain and the cycle the request belonged to.
	prev    []uint64
	prevCh  *chain
	prevCyc int
}

type config struct {
	pattern string
	peers   int   // P1 is the designated honest peer
	caps    []int // request sizes offered to ReserveBodies
	cache   int   // blockCacheItems
	extra   bool  // Revoke / Cancel / adversarial Schedule ops
	mem     int   // blockCacheMemory while this configuration runs (0 = the production value, 64 MiB: the memory cap can never bind)

	// consecutive sync cycles on the same queue and peer set (0/1 = a single cycle)
	cycles int
	org1   uint64 // first block the first cycle fetches (0 = 1): local head = org1-1
	alt    string // pattern of the alternative chain a later cycle's master peer may offer
	shared uint64 // the alternative chain shares blocks 1..shared with the main chain
}

func (c config) multi() bool { return c.cycles > 1 }

func (c config) first() uint64 {
	if c.org1 == 0 {
		return 1
	}
	return c.org1
}

func (c config) String() string {
	s := fmt.Sprintf("chain=%s peers=%d caps=%v window=%d", c.pattern, c.peers, c.caps, c.cache)
	if c.mem > 0 {
		s += fmt.Sprintf(" memory-cap=%dB big-tx=%dB", c.mem, bigPayload)
	}
	if c.multi() {
		s += fmt.Sprintf(" cycles=%d first-origin=%d fork=%s sharing 1..%d extra=%v", c.cycles, c.first(), c.alt, c.shared, c.extra)
	}
	return s
}

// sysName is the system name in replay files.
func (c config) sysName() string {
	if c.multi() {
		return fmt.Sprintf("queue%d-%s-o%d-%s@%d-%dp", c.cycles, c.pattern, c.first(), c.alt, c.shared, c.peers)
	}
	if c.mem > 0 {
		return fmt.Sprintf("queue-%s-%dp-mem%d", c.pattern, c.peers, c.mem)
	}
	return fmt.Sprintf("queue-%s-%dp", c.pattern, c.peers)
}

// space prefixes the canonical keys: distinct per configuration.
func (c config) space() string {
	if c.multi() {
		return fmt.Sprintf("%s/%d/%s@%d/%d", c.pattern, c.first(), c.alt, c.shared, c.peers)
	}
	if c.mem > 0 {
		return fmt.Sprintf("%s/mem%d", c.pattern, c.mem)
	}
	return c.pattern
}

type Sys struct {
	r    *mc.Run
	cfg  config
	main *chain // the chain of the first cycle
	alt  *chain // the alternative chain (nil without one)
	ch   *chain // the chain of the current cycle
	g    *graph

	cyc int    // number of the current sync cycle (1..)
	org uint64 // its origin: number of the first block it fetches

	q       *downloader.VerifQueue
	ps      *downloader.VerifPeerSet
	peers   []*peerM
	next    uint64 // number of the next header processHeaders will schedule
	got     uint64 // blocks handed to the importer so far in this cycle
	aborted string // non-empty: the sync cycle ended with this error
	dead    bool

	lost  map[uint64]bool // scheduled blocks already found in no pool
	bad   map[uint64]bool // blocks whose result slot already holds a wrong body
	key   string
	kid   uint64
	viols []mc.Violation

	// replay cache: mc.BFS rebuilds a state by replaying its path for every
	// successor; the real objects are driven again each time, but key, checks and
	// graph recording of a step already done by this instance's previous
	// execution (same op at the same position after the same prefix) are reused.
	counting bool
	trace    []step
	pos      int
	matched  bool
	rootKey  string
	rootKid  uint64
}

type step struct {
	op   string
	key  string
	kid  uint64
	lost []uint64
	bad  []uint64
	dead bool
}

const origin = 1 // number of the first block to fetch (local head = 0): part 2, and the default first cycle of part 1

var (
	chainMu sync.Mutex
	chains  = map[string]*chain{}
)

// chainFor returns the (immutable, shared) header chain of a pattern.
func chainFor(pattern string) *chain {
	chainMu.Lock()
	defer chainMu.Unlock()
	c, ok := chains[pattern]
	if !ok {
		c = mkChain(pattern)
		chains[pattern] = c
	}
	return c
}

var (
	forkMu sync.Mutex
	forks  = map[string]*chain{}
)

// forkFor returns the (immutable, shared) alternative chain of a configuration.
func forkFor(cfg config) *chain {
	if cfg.alt == "" {
		return nil
	}
	main := chainFor(cfg.pattern)
	k := fmt.Sprintf("%s/%s@%d", cfg.pattern, cfg.alt, cfg.shared)
	forkMu.Lock()
	defer forkMu.Unlock()
	c, ok := forks[k]
	if !ok {
		c = mkFork(main, cfg.shared, cfg.alt)
		forks[k] = c
	}
	return c
}

func newSys(r *mc.Run, cfg config, g *graph) *Sys {
	return &Sys{r: r, cfg: cfg, main: chainFor(cfg.pattern), alt: forkFor(cfg), g: g}
}

// n: number of the last block of the chain the current cycle downloads.
func (s *Sys) n() uint64 { return uint64(len(s.ch.pattern)) }

func (s *Sys) Reset() {
	s.ch, s.cyc, s.org = s.main, 1, s.cfg.first()
	s.q = downloader.VerifNewQueue()
	s.q.Prepare(s.org) // syncWithPeer: d.queue.Prepare(origin+1, d.mode)
	s.ps = downloader.VerifNewPeerSet()
	s.peers = s.peers[:0]
	for i := 1; i <= s.cfg.peers; i++ {
		p := &peerM{id: fmt.Sprintf("P%d", i), honest: i == 1}
		p.conn = downloader.VerifNewPeer(p.id, stubPeer{})
		if err := s.ps.Register(p.conn); err != nil {
			panic(err)
		}
		s.peers = append(s.peers, p)
	}
	s.next, s.got, s.aborted, s.dead, s.viols, s.lost, s.bad = s.org, 0, "", false, nil, nil, nil
	s.pos, s.matched = 0, true
	if s.rootKey == "" {
		s.refresh()
		s.rootKey, s.rootKid = s.key, s.kid
		s.g.root(s.kid, s.flags())
	}
	s.key, s.kid = s.rootKey, s.rootKid
}

func (s *Sys) peer(id string) *peerM {
	for _, p := range s.peers {
		if p.id == id {
			return p
		}
	}
	panic("harness: unknown peer " + id)
}

func nums(ns []uint64) string {
	var b strings.Builder
	for i, n := range ns {
		if i > 0 {
			b.WriteByte(',')
		}
		b.WriteString(strconv.FormatUint(n, 10))
	}
	return b.String()
}

// refresh recomputes the canonical key from the real objects.
//
// Key = task queue multiset, task pool, per-peer pending request (ordered),
// done pool, every result slot (number, pending counter, body present), window
// offset, header head, per peer {registered, idle flag, lacking set, unanswered
// given-up request}, headers scheduled, blocks imported, abort flag.
// Why merged states have the same futures: these are all the fields the
// body-download methods of queue/peerConnection/PeerSet read, except
// (a) request.Time - expiry is an explicit op that sets it, (b) resultSize -
// only used when len(resultCache)*resultSize exceeds blockCacheMemory: with the
// production value of 64 MiB impossible for a window of a few slots; in the
// configurations that lower the cap (cfg.mem > 0) resultSize IS in the key (to
// 1/1000 byte) together with the slot limit derived from it, (c) peer throughput/rtt - only feed BlockCapacity,
// which the driver replaces by an explicit request-size parameter, (d) task
// priorities = -number, a function of the header.
func (s *Sys) refresh() downloader.VerifQueueDump {
	d := s.q.Dump()
	var b strings.Builder
	b.Grow(256)
	if s.cfg.multi() {
		// the cycle: its number, origin and chain (the oracles of a cycle are relative to these)
		fmt.Fprintf(&b, "y%d s%d k%s ", s.cyc, s.org, s.ch.id)
	}
	if s.cfg.mem > 0 {
		// what decides the memory-capped part of the window
		fmt.Fprintf(&b, "z%.3f L%d ", s.q.ResultSize(), s.q.ResultLimit())
	}
	fmt.Fprintf(&b, "n%d g%d o%d h%d|Q%s|T%s|", s.next, s.got, d.Offset, s.numAny(d.Head), nums(d.TaskQueue), nums(d.TaskPool))
	done := make([]uint64, 0, len(d.Done))
	for _, h := range d.Done {
		done = append(done, s.numAny(h))
	}
	sort.Slice(done, func(i, j int) bool { return done[i] < done[j] })
	fmt.Fprintf(&b, "D%s|C", nums(done))
	for _, sl := range d.Cache {
		if sl.Nil {
			b.WriteString(" _")
			continue
		}
		b.WriteByte(' ')
		b.WriteString(strconv.FormatUint(sl.Number, 10))
		b.WriteByte(':')
		b.WriteString(strconv.Itoa(sl.Pending))
		if sl.HasTxs {
			if s.bodyOK(sl) {
				b.WriteByte('t')
			} else {
				b.WriteByte('X') // a body that is not the block's
			}
		}
	}
	// the arbitrary peers P2.. are interchangeable: their blocks are sorted, so
	// states equal up to renaming them are merged (all oracles are symmetric in them)
	// Only what can still be read is kept: a lacking mark or a given-up request
	// matters only for blocks that can be handed out again (in the task queue or
	// in somebody's pending request); other numbers are written as 0.  Nothing of
	// an unregistered peer is read any more except its pending request (fetchParts
	// discards its packets, never reserves for it).
	open := map[uint64]bool{}
	for _, n := range d.TaskQueue {
		open[n] = true
	}
	for _, ns := range d.Pend {
		for _, n := range ns {
			open[n] = true
		}
	}
	// A given-up request of an EARLIER cycle can also concern blocks the current
	// cycle has not scheduled yet (within a cycle a requested block is always below
	// s.next); its bodies fit the current cycle's blocks only on the same chain or
	// below the fork point.
	fits := func(p *peerM, n uint64) bool {
		if !open[n] && !(p.prevCyc < s.cyc && n >= s.next && n <= s.n()) {
			return false
		}
		return p.prevCh == s.ch || n <= s.cfg.shared
	}
	var blocks []string
	for _, p := range s.peers {
		pend := "-"
		if ns, ok := d.Pend[p.id]; ok {
			pend = nums(ns)
		}
		var blk string
		if !s.ps.Registered(p.id) {
			blk = "gone p[" + pend + "]"
		} else {
			fl := "r"
			if p.conn.BodiesIdle() {
				fl += "i"
			}
			var lack []uint64
			for _, h := range p.conn.Lacking() {
				if n := s.ch.num[h]; open[n] {
					lack = append(lack, n)
				}
			}
			sort.Slice(lack, func(i, j int) bool { return lack[i] < lack[j] })
			var prev []uint64
			for _, n := range p.prev {
				if !fits(p, n) {
					n = 0
				}
				prev = append(prev, n)
			}
			pv := "-"
			if p.prev != nil {
				pv = nums(prev)
			}
			blk = fl + " p[" + pend + "] v[" + pv + "] l[" + nums(lack) + "]"
		}
		if p.honest {
			b.WriteString("|H " + blk)
		} else {
			blocks = append(blocks, blk)
		}
	}
	sort.Strings(blocks)
	for _, blk := range blocks {
		b.WriteString("|A " + blk)
	}
	for id := range d.Pend {
		if !strings.HasPrefix(id, "P") {
			b.WriteString("|alien-pend " + id)
		}
	}
	if s.aborted != "" {
		b.WriteString("|ABORT " + s.aborted)
	}
	s.key = b.String()
	s.kid = hash64(s.cfg.space() + "#" + s.key)
	return d
}

// numAny: block number of a header hash on the current cycle's chain; 1000+n for
// a header of the other chain only, 9999 for an unknown one, 0 for the zero hash.
func (s *Sys) numAny(h common.Hash) uint64 {
	if h == (common.Hash{}) {
		return 0
	}
	if n, ok := s.ch.num[h]; ok {
		return n
	}
	for _, c := range []*chain{s.main, s.alt} {
		if c != nil {
			if n, ok := c.num[h]; ok {
				return 1000 + n
			}
		}
	}
	return 9999
}

func (s *Sys) Key() string { return s.cfg.space() + "#" + s.key }

// complete: every header of the cycle's range scheduled, every block of it handed to the importer.
func (s *Sys) complete() bool { return s.next > s.n() && s.org+s.got == s.n()+1 }

func (s *Sys) flags() nodeFlags {
	return nodeFlags{complete: s.complete(), exempt: !s.ps.Registered("P1"), aborted: s.aborted != ""}
}

// Enabled lists what the downloader goroutines and the remote peers can do next.
func (s *Sys) Enabled() []string {
	if s.dead || s.aborted != "" {
		return nil
	}
	if s.complete() {
		return s.cycleOps(nil) // the next Synchronise
	}
	d := s.q.Dump()
	var ops []string
	// processFullSyncContent
	if s.q.Processable() > 0 {
		ops = append(ops, "results")
	}
	// processHeaders
	if rem := s.n() - s.next + 1; s.next <= s.n() {
		ops = append(ops, "sched(1)")
		if rem >= 2 {
			ops = append(ops, "sched(2)")
		}
	}
	// fetchParts: reservation for idle registered peers, unless throttled / nothing pending
	canReserve := s.q.PendingBlocks() > 0 && !s.q.ShouldThrottleBlocks()
	for _, p := range s.peers {
		if canReserve && s.ps.Registered(p.id) && p.conn.BodiesIdle() {
			for _, c := range s.cfg.caps {
				ops = append(ops, fmt.Sprintf("reserve(%s,%d)", p.id, c))
			}
		}
	}
	// deliveries (packets of unregistered peers are discarded by fetchParts before the queue sees them)
	for _, p := range s.peers {
		if !s.ps.Registered(p.id) {
			continue
		}
		cur, has := d.Pend[p.id]
		if p.honest {
			// answers every request completely, in the order it received them
			switch {
			case p.prev != nil:
				ops = append(ops, "deliver("+p.id+",stale)")
			case has:
				ops = append(ops, "deliver("+p.id+",full)")
			}
			continue
		}
		if has {
			ops = append(ops, "deliver("+p.id+",full)")
			if len(cur) >= 2 {
				ops = append(ops, "deliver("+p.id+",part1)")
			}
			if len(cur) >= 3 {
				ops = append(ops, "deliver("+p.id+",part2)")
			}
			ops = append(ops, "deliver("+p.id+",empty)", "deliver("+p.id+",wrong1)")
			if len(cur) >= 2 {
				ops = append(ops, "deliver("+p.id+",wrong2)")
			}
			// a non-empty packet of EMPTY bodies (requests only ever hold non-empty
			// blocks: ReserveBodies completes empty ones itself)
			ops = append(ops, "deliver("+p.id+",hollow)")
			if len(cur) >= 2 {
				ops = append(ops, "deliver("+p.id+",hollow2)")
			}
		}
		if p.prev != nil {
			ops = append(ops, "deliver("+p.id+",stale)")
		}
		if !has && p.prev == nil {
			ops = append(ops, "deliver("+p.id+",unsol)")
		}
	}
	// request timeouts (fetchParts ticker -> ExpireBodies), also for requests of departed peers
	for _, p := range s.peers {
		if _, has := d.Pend[p.id]; has {
			ops = append(ops, "expire("+p.id+")")
		}
	}
	// disconnects (UnregisterPeer); the honest peer stays unless the downloader itself drops it
	for _, p := range s.peers {
		if !p.honest && s.ps.Registered(p.id) {
			ops = append(ops, "drop("+p.id+")")
		}
	}
	if s.cfg.extra {
		// no production caller (Revoke: meant for peer drops; Cancel: handed to fetchParts, never invoked)
		for _, p := range s.peers {
			if _, has := d.Pend[p.id]; has && !s.ps.Registered(p.id) {
				ops = append(ops, "revoke("+p.id+")")
			}
		}
		for _, p := range s.peers {
			if !p.honest && canReserve && s.ps.Registered(p.id) && p.conn.BodiesIdle() {
				ops = append(ops, fmt.Sprintf("reserve-cancel(%s,%d)", p.id, s.cfg.caps[len(s.cfg.caps)-1]))
			}
		}
		// header batches of a lying header source
		if s.next <= s.n() {
			if s.next < s.n() {
				ops = append(ops, "sched-gap")
			}
			if s.next > s.org {
				ops = append(ops, "sched-fork", "sched-old")
			}
			if s.next < s.n() {
				ops = append(ops, "sched-forktail")
			}
		}
	}
	return s.cycleOps(ops)
}

// cycleOps: the sync cycle ends here - completed, or cancelled at this very
// point (master peer lost, import failure, timeout, Cancel) - and the next
// Synchronise starts: cycle(o,c) = queue.Close (spawnSync), queue.Reset,
// peers.Reset (synchronise), Prepare(o) (syncWithPeer), for the new master
// peer's chain c and the origin o findAncestor yields.
//
// Which origins: the local head after a cycle that started at s and handed k
// blocks to the importer is anywhere in s-1..s-1+k (InsertChain can fail inside
// a handed-out batch) or above (blocks imported through the block fetcher in
// between).  On the chain just downloaded the next origin is head+1: every o from
// s up to one above the point the result window reached (s+k) is offered.  On the
// other chain the ancestor is at most the fork point: every o in 1..shared+1.
//
// A request in flight (or given up and still unanswered) when the cycle ends is
// answered late, in the next cycle - or its answer is lost: a packet that
// arrives while no cycle runs is refused (errNoSyncActive) or drained from the
// delivery channel by the next synchronise.  For the arbitrary peers both is
// covered by "may answer late or never"; for the honest peer P1 the variant
// cycle(o,c,lost) drops its outstanding answer.
func (s *Sys) cycleOps(ops []string) []string {
	if s.cyc >= s.cfg.cycles || !s.ps.Registered("P1") {
		return ops
	}
	p1 := s.peer("P1")
	_, p1has := s.q.Dump().Pend["P1"]
	p1owes := p1has || p1.prev != nil
	for _, c := range []*chain{s.main, s.alt} {
		if c == nil {
			continue
		}
		lo, hi := uint64(1), s.cfg.shared+1
		if c == s.ch {
			lo, hi = s.org, s.org+s.got+1
		}
		if top := uint64(len(c.pattern)); hi > top {
			hi = top
		}
		for o := lo; o <= hi; o++ {
			ops = append(ops, fmt.Sprintf("cycle(%d,%s)", o, c.id))
			if p1owes {
				ops = append(ops, fmt.Sprintf("cycle(%d,%s,lost)", o, c.id))
			}
		}
	}
	return ops
}

// liveMove: the moves a fair environment with one honest, answering peer
// guarantees: header processing goes on, the importer takes results, timers
// fire, P1 is given work when idle and answers completely.
func liveMove(op string) bool {
	switch {
	case op == "results", strings.HasPrefix(op, "sched("), strings.HasPrefix(op, "expire("):
		return true
	case strings.HasPrefix(op, "reserve(P1,"), op == "deliver(P1,full)", op == "deliver(P1,stale)":
		return true
	}
	return false
}

func (s *Sys) Apply(op string) string {
	i := s.pos
	s.pos++
	if s.matched && i < len(s.trace) && s.trace[i].op == op {
		// step already executed by this instance's previous run: drive the real
		// objects, reuse the recorded key / lost set
		st := &s.trace[i]
		s.counting = false
		var ob string
		if msg := mc.Catch(func() { ob = s.apply(op) }); msg != "" {
			ob = "PANIC: " + msg
		}
		s.viols = s.viols[:0]
		s.key, s.kid, s.dead = st.key, st.kid, st.dead
		s.lost, s.bad = toSet(st.lost), toSet(st.bad)
		return ob
	}
	s.matched = false
	s.trace = s.trace[:i]
	s.viols = s.viols[:0]
	from := s.kid
	s.counting = s.g.firstTime(from, op)
	var ob string
	msg, where := mc.CatchStack(func() {
		ob = s.apply(op)
		d := s.refresh()
		s.checkSlots(d, op)
		s.checkLost(d, op)
		if s.cfg.mem > 0 {
			s.noteMemCap(d, op)
		}
		if opKind(op) == "cycle" {
			s.checkCycleStart(d, op)
		}
	})
	if msg != "" {
		s.dead = true
		ob = "PANIC: " + msg
		s.viols = append(s.viols, mc.Violation{
			Sig:    fmt.Sprintf("panic in %s at %s", opKind(op), where),
			Detail: fmt.Sprintf("%s panicked: %s (at %s)", op, msg, where)})
		s.key = "PANIC " + op + " after " + s.key
		s.kid = hash64(s.cfg.space() + "#" + s.key)
	}
	s.g.edge(from, s.kid, op, liveMove(op), s.flags())
	if s.g.isDead(s.kid) {
		s.viols = append(s.viols, s.g.deadViolation(s.kid, s.key))
	}
	s.trace = append(s.trace, step{op: op, key: s.key, kid: s.kid, lost: fromSet(s.lost), bad: fromSet(s.bad), dead: s.dead})
	return ob
}

func toSet(ns []uint64) map[uint64]bool {
	if len(ns) == 0 {
		return nil
	}
	m := map[uint64]bool{}
	for _, n := range ns {
		m[n] = true
	}
	return m
}

func fromSet(m map[uint64]bool) []uint64 {
	var ns []uint64
	for n := range m {
		ns = append(ns, n)
	}
	return ns
}

// opShape: "deliver(P2,wrong2)" -> "deliver wrong2" (peer name dropped).
func opShape(op string) string {
	k := opKind(op)
	if i := strings.Index(op, ","); i > 0 {
		return k + " " + strings.TrimSuffix(op[i+1:], ")")
	}
	return k
}

func opKind(op string) string {
	if i := strings.Index(op, "("); i > 0 {
		op = op[:i]
	}
	return op
}

func (s *Sys) abort(where string, err error) {
	s.aborted = where + ": " + err.Error()
	s.viols = append(s.viols, mc.Violation{
		Sig:    "sync cycle aborted by the scheduler: " + s.aborted,
		Detail: fmt.Sprintf("the call returned an error that makes fetchParts end the whole synchronisation (sync cycle %d, blocks %d..%d of chain %s, %d handed to the importer)", s.cyc, s.org, s.n(), s.ch.id, s.got)})
}

func (s *Sys) bodies(ns []uint64) [][]*types.Transaction {
	out := make([][]*types.Transaction, 0, len(ns))
	for _, n := range ns {
		out = append(out, s.ch.txs[n])
	}
	return out
}

func (s *Sys) apply(op string) string {
	kind := opKind(op)
	var a1, a2, a3 string
	if i := strings.Index(op, "("); i > 0 {
		args := strings.Split(strings.TrimSuffix(op[i+1:], ")"), ",")
		a1 = args[0]
		if len(args) > 1 {
			a2 = args[1]
		}
		if len(args) > 2 {
			a3 = args[2]
		}
	}
	switch kind {
	case "sched":
		k := uint64(1)
		if a1 == "2" {
			k = 2
		}
		chunk := s.ch.hdr[s.next : s.next+k]
		ins := s.q.Schedule(chunk, s.next)
		ob := fmt.Sprintf("inserted=%d", len(ins))
		if len(ins) != len(chunk) {
			// processHeaders returns errBadPeer
			s.abort("Schedule of the genuine next headers", fmt.Errorf("%d of %d inserted", len(ins), len(chunk)))
		}
		s.next += uint64(len(ins))
		return ob

	case "sched-gap", "sched-fork", "sched-old", "sched-forktail":
		var chunk []*types.Header
		want := 0
		switch kind {
		case "sched-gap": // skips a number
			chunk = []*types.Header{s.ch.hdr[s.next+1]}
		case "sched-fork": // right number, wrong parent
			chunk = []*types.Header{s.ch.fork[s.next]}
		case "sched-old": // an already scheduled header again
			chunk = []*types.Header{s.ch.hdr[s.next-1]}
		case "sched-forktail": // genuine header followed by one that does not link to it
			chunk = []*types.Header{s.ch.hdr[s.next], s.ch.fork[s.next+1]}
			want = 1
		}
		ins := s.q.Schedule(chunk, s.next)
		s.count("bad_header_batches_offered", 1)
		if len(ins) != want || (want == 1 && ins[0] != s.ch.hdr[s.next]) {
			s.viols = append(s.viols, mc.Violation{
				Sig:    "Schedule accepted a header that breaks numbering or ancestry (" + kind + ")",
				Detail: fmt.Sprintf("%s: %d headers inserted, want %d", op, len(ins), want)})
			// the queue now holds a header outside the modelled chain: stop this branch
			s.aborted = "bad header accepted by " + kind
			return fmt.Sprintf("inserted=%d", len(ins))
		}
		// processHeaders ends the cycle with errBadPeer here; what was inserted
		// before the break is a genuine header, so exploration simply goes on
		s.next += uint64(want)
		return fmt.Sprintf("inserted=%d", len(ins))

	case "reserve", "reserve-cancel":
		p := s.peer(a1)
		c := 0
		fmt.Sscan(a2, &c)
		req, progress, err := s.q.ReserveBodies(p.conn, c)
		if err != nil {
			s.abort("ReserveBodies", err)
			return "err"
		}
		ob := fmt.Sprintf("progress=%v", progress)
		if req != nil {
			ob += " req=" + nums(req.Numbers())
			if kind == "reserve-cancel" {
				s.q.CancelBodies(req)
				ob += " cancelled"
			} else if err := p.conn.FetchBodies(req); err != nil {
				// fetchParts panics: "fetch assignment failed"
				s.abort("FetchBodies (double allocation panic in fetchParts)", err)
			}
			s.count("reservations_with_request", 1)
		} else {
			s.count("reservations_without_request", 1)
		}
		return ob

	case "deliver":
		p := s.peer(a1)
		d := s.q.Dump()
		cur, has := d.Pend[p.id]
		var lists [][]*types.Transaction
		answersCur, fromEarlierCycle := true, false
		switch a2 {
		case "full":
			lists = s.bodies(cur)
		case "part1":
			lists = s.bodies(cur[:1])
		case "part2":
			lists = s.bodies(cur[:2])
		case "empty":
			lists = nil
		case "wrong1":
			lists = s.bodies(cur)
			lists[0] = s.ch.bogus
		case "wrong2":
			lists = s.bodies(cur)
			lists[1] = s.ch.bogus
		case "hollow": // as many bodies as requested, each an empty transaction list
			for range cur {
				lists = append(lists, []*types.Transaction{})
			}
			s.noteHollow(cur)
		case "hollow2": // genuine bodies, the second replaced by an empty transaction list
			lists = s.bodies(cur)
			lists[1] = []*types.Transaction{}
			s.noteHollow(cur[1:2])
		case "stale":
			for _, n := range p.prev {
				lists = append(lists, p.prevCh.txs[n])
			}
			fromEarlierCycle = p.prevCyc < s.cyc
			p.prev = nil
			answersCur = false
		case "unsol":
			lists = [][]*types.Transaction{s.ch.bogus}
			answersCur = false
		}
		accepted, err := s.q.DeliverBodies(p.id, lists)
		if has && !answersCur {
			// the scheduler dropped the pending request on this packet, the remote
			// side has still to answer it
			p.prev, p.prevCh, p.prevCyc = cur, s.ch, s.cyc
		}
		ob := fmt.Sprintf("accepted=%d err=%v", accepted, err)
		s.count("deliver_"+a2+"_"+errClass(err), 1)
		if fromEarlierCycle {
			s.count("cycle_late_answer_to_a_request_of_the_previous_cycle_"+errClass(err), 1)
			if has {
				s.count("cycle_late_answer_of_the_previous_cycle_meets_a_pending_request", 1)
			}
			if accepted > 0 {
				s.count("cycle_late_answer_of_the_previous_cycle_bodies_accepted", int64(accepted))
			}
		}
		if err == downloader.VerifErrInvalidChain {
			s.abort("DeliverBodies", err)
		}
		// fetchParts: unless stale, the peer becomes idle again
		if err != downloader.VerifErrStaleDelivery {
			p.conn.SetBodiesIdle(accepted)
		}
		if p.honest && a2 == "full" && err != downloader.VerifErrInvalidChain && (err != nil || accepted != len(cur)) {
			s.viols = append(s.viols, mc.Violation{
				Sig:    "complete honest answer to the pending request not fully accepted: " + errClass(err),
				Detail: fmt.Sprintf("%s: request %s, accepted=%d err=%v", op, nums(cur), accepted, err)})
		}
		return ob

	case "expire":
		p := s.peer(a1)
		d := s.q.Dump()
		cur := d.Pend[p.id]
		s.q.SetRequestTime(p.id, time.Now().Add(-2*time.Hour))
		exp := s.q.ExpireBodies(time.Hour)
		if len(exp) != 1 || exp[p.id] != len(cur) {
			s.r.HarnessError(fmt.Sprintf("c18: ExpireBodies returned %v for %s with %s", exp, p.id, nums(cur)))
		}
		ob := fmt.Sprintf("fails=%d", exp[p.id])
		if s.ps.Registered(p.id) {
			p.prev, p.prevCh, p.prevCyc = cur, s.ch, s.cyc // the remote side may still answer
			if exp[p.id] > 2 {
				p.conn.SetBodiesIdle(0)
				ob += " idle"
				s.count("expiries_keeping_peer", 1)
			} else {
				s.ps.Unregister(p.id) // dropPeer -> removePeer -> UnregisterPeer
				ob += " dropped"
				s.count("expiries_dropping_peer", 1)
			}
		} else {
			s.count("expiries_of_departed_peer", 1)
		}
		return ob

	case "drop":
		s.ps.Unregister(a1)
		return ""

	case "cycle":
		var o uint64
		fmt.Sscan(a1, &o)
		nc := s.main
		if a2 == "f" {
			nc = s.alt
		}
		d := s.q.Dump()
		// what the ending cycle leaves behind (vacuity counters)
		switch reached := s.org + s.got; {
		case o < reached:
			s.count("cycle_start_origin_below_the_point_the_previous_cycle_reached", 1)
		case o == reached:
			s.count("cycle_start_origin_at_the_point_the_previous_cycle_reached", 1)
		default:
			s.count("cycle_start_origin_above_the_point_the_previous_cycle_reached", 1)
		}
		if o < s.org {
			s.count("cycle_start_origin_below_the_previous_cycles_origin", 1)
		}
		if nc == s.ch {
			s.count("cycle_start_on_the_same_chain", 1)
		} else {
			s.count("cycle_start_on_the_other_chain", 1)
		}
		if s.complete() {
			s.count("cycle_start_after_a_completed_cycle", 1)
		} else {
			s.count("cycle_start_after_a_cancelled_cycle", 1)
		}
		inflight, busy, lacking := 0, 0, 0
		for _, p := range s.peers {
			if cur, has := d.Pend[p.id]; has {
				inflight++
				if s.ps.Registered(p.id) {
					// the remote side still holds the request: its answer arrives in the next cycle
					p.prev, p.prevCh, p.prevCyc = cur, s.ch, s.cyc
				}
			}
			if s.ps.Registered(p.id) {
				if !p.conn.BodiesIdle() {
					busy++
				}
				lacking += len(p.conn.Lacking())
			}
			if p.honest && a3 == "lost" {
				p.prev = nil
				s.count("cycle_start_with_the_honest_peers_outstanding_answer_lost", 1)
			}
		}
		slots := 0
		for _, sl := range d.Cache {
			if !sl.Nil {
				slots++
			}
		}
		for name, n := range map[string]int{
			"cycle_start_with_requests_in_flight":              inflight,
			"cycle_start_with_peers_marked_busy":               busy,
			"cycle_start_with_lacking_marks":                   lacking,
			"cycle_start_with_result_slots_in_use":             slots,
			"cycle_start_with_results_ready_but_not_retrieved": s.q.Processable(),
			"cycle_start_with_body_tasks_queued":               len(d.TaskQueue),
			"cycle_start_with_unanswered_given_up_request":     s.unanswered(),
		} {
			if n > 0 {
				s.count(name, 1)
			}
		}
		// spawnSync's epilogue, then synchronise and syncWithPeer of the next cycle
		s.q.Close()
		s.q.Reset()
		s.ps.Reset()
		s.q.Prepare(o)
		s.cyc++
		s.ch, s.org, s.next, s.got = nc, o, o, 0
		s.lost, s.bad = nil, nil
		return fmt.Sprintf("cycle %d: blocks %d..%d of chain %s", s.cyc, o, s.n(), nc.id)

	case "revoke":
		s.q.Revoke(a1)
		return ""

	case "results":
		rs := s.q.Results()
		var ns []uint64
		for _, r := range rs {
			n := r.Header.Number.Uint64()
			ns = append(ns, n)
			want := s.org + s.got
			switch {
			case s.cyc > 1 && s.numAny(r.Header.Hash()) >= 1000:
				s.viols = append(s.viols, mc.Violation{
					Sig:    "Results returned a block that is not on the chain this sync cycle downloads",
					Detail: fmt.Sprintf("cycle %d downloads blocks %d..%d of chain %s; Results returned number %d hash %x (batch %s), a header scheduled in an earlier cycle", s.cyc, s.org, s.n(), s.ch.id, n, r.Header.Hash().Bytes()[:4], nums(ns))})
			case want > s.n() || r.Header.Hash() != s.ch.hash[want]:
				what := "out of order"
				if n < want {
					what = "a second time"
				} else if n == want {
					what = "that is not the scheduled chain's header"
				}
				s.viols = append(s.viols, mc.Violation{
					Sig:    "Results returned block " + what,
					Detail: fmt.Sprintf("importer expects block %d next, Results returned number %d hash %x (batch %s)", want, n, r.Header.Hash().Bytes()[:4], nums(ns))})
			case types.DeriveSha(r.Transactions) != r.Header.TxHash:
				s.viols = append(s.viols, mc.Violation{
					Sig:    "Results returned a body with mismatching tx root",
					Detail: fmt.Sprintf("block %d: %d transactions, root %x, header wants %x", n, len(r.Transactions), types.DeriveSha(r.Transactions).Bytes()[:4], r.Header.TxHash[:4])})
			case r.Pending > 0:
				s.viols = append(s.viols, mc.Violation{Sig: "Results returned a block whose body is still pending", Detail: fmt.Sprintf("block %d", n)})
			}
			s.got++
		}
		s.count("results_batches", 1)
		if len(rs) > 1 {
			s.count("results_batches_of_several_blocks", 1)
		}
		return "blocks=" + nums(ns)
	}
	panic("harness: unknown op " + op)
}

// noteMemCap: vacuity counters of the configurations with a lowered memory cap:
// was the cap binding (slot limit below the window), were there complete results
// in slots beyond the limit, together with a missing block inside it that nobody
// is fetching (the state in which only the first `limit` slots may be counted as
// finished, or nothing is handed out any more), was the download throttled then.
func (s *Sys) noteMemCap(d downloader.VerifQueueDump, op string) {
	limit := s.q.ResultLimit()
	if limit >= len(d.Cache) {
		s.count("memcap_transitions_into_a_state_with_the_cap_not_binding", 1)
		return
	}
	s.count(fmt.Sprintf("memcap_transitions_into_a_state_with_slot_limit_%d_of_%d", limit, len(d.Cache)), 1)
	if opKind(op) == "results" {
		s.count("memcap_results_after_which_the_cap_binds", 1)
	}
	inflight := map[uint64]bool{}
	for _, ns := range d.Pend {
		for _, n := range ns {
			inflight[n] = true
		}
	}
	doneBeyond, holeInside := 0, 0
	for i, sl := range d.Cache {
		switch {
		case i >= limit && !sl.Nil && sl.Pending <= 0:
			doneBeyond++
		case i < limit && (sl.Nil || sl.Pending > 0) && !inflight[d.Offset+uint64(i)] && d.Offset+uint64(i) < s.next:
			holeInside++
		}
	}
	if doneBeyond > 0 {
		s.count("memcap_states_with_complete_results_beyond_the_slot_limit", 1)
	}
	if doneBeyond > 0 && holeInside > 0 {
		s.count("memcap_states_with_complete_results_beyond_the_limit_and_an_unfetched_block_inside_it", 1)
		if s.q.ShouldThrottleBlocks() {
			s.count("memcap_such_states_throttled", 1)
		} else {
			s.count("memcap_such_states_not_throttled", 1)
		}
	}
	if s.q.ShouldThrottleBlocks() {
		s.count("memcap_states_throttled_while_the_cap_binds", 1)
	}
}

// noteHollow: vacuity counters of the "empty body for a non-empty block" lie, and
// a harness check of the premise that a request never asks for an empty block
// (an empty list would be the RIGHT body there, the delivery kind would not be a lie).
func (s *Sys) noteHollow(hollow []uint64) {
	for _, n := range hollow {
		if s.ch.pattern[n-1] == 'E' {
			s.count("hollow_delivery_for_a_request_holding_an_empty_block", 1)
			return
		}
	}
	s.count("hollow_delivery_every_empty_body_stands_for_a_non_empty_block", 1)
}

func errClass(err error) string {
	switch err {
	case nil:
		return "ok"
	case downloader.VerifErrInvalidChain:
		return "invalid-chain"
	case downloader.VerifErrStaleDelivery:
		return "stale"
	case downloader.VerifErrNoFetchesPending:
		return "no-fetch-pending"
	}
	if strings.HasPrefix(err.Error(), "partial failure") {
		return "partial-failure"
	}
	return "error"
}

// bodyOK: the slot's body is the block's body (pointer-equal to the chain's
// transactions, or at least hashing to the header's tx root).
func (s *Sys) bodyOK(sl downloader.VerifSlot) bool {
	n := s.ch.num[sl.Hash]
	if n == 0 {
		return false
	}
	want := s.ch.txs[n]
	if len(sl.Txs) == len(want) {
		same := true
		for i := range want {
			if sl.Txs[i] != want[i] {
				same = false
			}
		}
		if same {
			return true
		}
	}
	return types.DeriveSha(sl.Txs) == s.ch.hdr[n].TxHash
}

// checkSlots: a body sits in a result slot only if it matches the slot's header.
func (s *Sys) checkSlots(d downloader.VerifQueueDump, op string) {
	for _, sl := range d.Cache {
		if sl.Nil {
			continue
		}
		if n := s.ch.num[sl.Hash]; n == 0 || n != sl.Number {
			s.viols = append(s.viols, mc.Violation{Sig: "result slot holds a header that is not on the scheduled chain", Detail: fmt.Sprintf("after %s: slot number %d", op, sl.Number)})
		} else if sl.HasTxs && !s.bodyOK(sl) {
			if s.bad[n] {
				continue // reported when it was stored
			}
			if s.bad == nil {
				s.bad = map[uint64]bool{}
			}
			s.bad[n] = true
			s.viols = append(s.viols, mc.Violation{
				Sig:    "body with mismatching tx root accepted (" + opShape(op) + ")",
				Detail: fmt.Sprintf("after %s the result slot of block %d holds %d transactions hashing to %x, the header wants %x", op, n, len(sl.Txs), types.DeriveSha(sl.Txs).Bytes()[:4], s.ch.hdr[n].TxHash[:4])})
		} else if sl.Pending <= 0 && !sl.HasTxs && s.ch.pattern[n-1] != 'E' {
			s.viols = append(s.viols, mc.Violation{Sig: "result slot complete without a body for a non-empty block", Detail: fmt.Sprintf("after %s: block %d", op, n)})
		}
	}
}

// lostTasks: scheduled, not yet imported blocks that are neither queued, nor in
// a pending request, nor complete in their result slot.  Nothing can ever
// complete such a block (Schedule refuses to add a header twice).
func (s *Sys) lostTasks(d downloader.VerifQueueDump) []uint64 {
	at := map[uint64]bool{}
	for _, n := range d.TaskQueue {
		at[n] = true
	}
	for _, ns := range d.Pend {
		for _, n := range ns {
			at[n] = true
		}
	}
	for _, sl := range d.Cache {
		if !sl.Nil && sl.Pending <= 0 {
			at[sl.Number] = true
		}
	}
	var lost []uint64
	for n := s.org + s.got; n < s.next; n++ {
		if !at[n] {
			lost = append(lost, n)
		}
	}
	return lost
}

func (s *Sys) checkLost(d downloader.VerifQueueDump, op string) {
	if s.aborted != "" {
		return // the cycle is over (reported on its own); the queue is Reset before the next one
	}
	for _, n := range s.lostTasks(d) {
		if s.lost[n] {
			continue
		}
		if s.lost == nil {
			s.lost = map[uint64]bool{}
		}
		s.lost[n] = true
		s.viols = append(s.viols, mc.Violation{
			Sig:    "dead state: task lost after " + opKind(op) + " (scheduled block left in no pool)",
			Detail: fmt.Sprintf("after %s block %d is scheduled and not imported, but is neither in the task queue, nor in a pending request, nor complete in its result slot; nothing can fetch it any more\nstate: %s", op, n, s.key)})
	}
}

// unanswered: registered peers holding a given-up request they have not answered yet.
func (s *Sys) unanswered() int {
	n := 0
	for _, p := range s.peers {
		if p.prev != nil && s.ps.Registered(p.id) {
			n++
		}
	}
	return n
}

// checkCycleStart: directly after queue.Reset + peers.Reset + Prepare(origin)
// nothing of the previous cycle is left: no task, no request, no done mark, no
// result slot, no header head; the result window starts at the new origin; the
// queue is open again; every peer is idle and lacks nothing.
func (s *Sys) checkCycleStart(d downloader.VerifQueueDump, op string) {
	bad := func(what, detail string) {
		s.viols = append(s.viols, mc.Violation{Sig: "cycle start: " + what, Detail: fmt.Sprintf("after %s (queue.Reset, peers.Reset, Prepare(%d)): %s\nstate: %s", op, s.org, detail, s.key)})
	}
	if d.Offset != s.org {
		bad("the result window does not start at the cycle's origin", fmt.Sprintf("window offset %d, first block to fetch %d", d.Offset, s.org))
	}
	if len(d.TaskQueue) > 0 || len(d.TaskPool) > 0 {
		bad("body tasks of the previous cycle survive", fmt.Sprintf("task queue %s, task pool %s", nums(d.TaskQueue), nums(d.TaskPool)))
	}
	if len(d.Pend) > 0 {
		bad("pending requests of the previous cycle survive", fmt.Sprintf("%d requests", len(d.Pend)))
	}
	if len(d.Done) > 0 {
		bad("done marks of the previous cycle survive", fmt.Sprintf("%d marks", len(d.Done)))
	}
	if len(d.Cache) != s.cfg.cache {
		bad("the result window has the wrong size", fmt.Sprintf("%d slots, want %d", len(d.Cache), s.cfg.cache))
	}
	for i, sl := range d.Cache {
		if !sl.Nil {
			bad("results of the previous cycle survive", fmt.Sprintf("slot %d holds block %d", i, sl.Number))
			break
		}
	}
	if d.Head != (common.Hash{}) {
		bad("the header head of the previous cycle survives", fmt.Sprintf("head = header %d", s.numAny(d.Head)))
	}
	if s.q.Closed() {
		bad("the queue is still closed", "Results would return at once with nothing")
	}
	for _, p := range s.peers {
		if !s.ps.Registered(p.id) {
			continue
		}
		if !p.conn.BodiesIdle() {
			bad("a peer is still marked busy", p.id+" has nothing in flight in the new cycle")
		}
		if l := p.conn.Lacking(); len(l) > 0 {
			bad("lacking marks of the previous cycle survive", fmt.Sprintf("%s: %d marks", p.id, len(l)))
		}
	}
}

// count bumps an evidence counter once per distinct (state, op) transition
// (replays of a path do not count again).
func (s *Sys) count(name string, n int64) {
	if s.counting {
		s.r.Count(name, n)
	}
}

func (s *Sys) Check() []mc.Violation { return s.viols }
