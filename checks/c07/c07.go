// Package c07: native tokens are conserved by transactions, staking, rewards
// and slashing.  Every bounded block history (see chainx.Explore) is built on
// the real chain; after EVERY block the total-supply equation is evaluated on a
// full dump of the head state.
package c07

import (
	"verif/checks/chainx"
	"verif/mc"
)

var hooks = chainx.Hooks{Supply: true}

func Run(r *mc.Run) {
	r.Level = "model_checking"
	r.Rule = "every sequence of <= depth blocks over the block menu (coinbase x symbolic txs x injected equivocation evidence), from genesis and from 5 scripted non-initial states, per parameter configuration, is built on the real chain (builder path = miner.worker order of calls); after every block: sum(balances)+staked+unfinished withdrawals+validators' undistributed rewards+role pools+residue+escrow of pending deposits == genesis total; logging.Crit never reached; distinct = distinct head block hashes reached"
	noForced := chainx.DefaultCfg
	noForced.MaxRewardsPeriod = 1000 // forced settlement never due: the equation must hold exactly everywhere
	forced := chainx.DefaultCfg
	forced.MaxRewardsPeriod = 1
	freq3 := chainx.DefaultCfg
	freq3.StakingTrieFrequency, freq3.MaxRewardsPeriod, freq3.WithdrawDelay = 3, 1000, 3
	// a rewards pool that holds 2.5 (3.5) block subsidies: the histories cross the block that drains it
	// (0 < pool < wanted subsidy) and go on with an empty pool
	dry, dry2 := noForced, noForced
	dry.PoolTenths, dry2.PoolTenths = 187, 262
	if r.Quick() {
		r.SetBudget(400e9)
		chainx.Explore(r, hooks, []chainx.ParamCfg{noForced}, chainx.MenuCore, 4, 3)
		chainx.Explore(r, hooks, []chainx.ParamCfg{forced}, chainx.MenuCore, 3, 2)
		chainx.Explore(r, hooks, []chainx.ParamCfg{dry}, chainx.MenuCore, 4, 2)
	} else {
		r.SetBudget(45 * 60e9)
		menu := append(append([]string{}, chainx.MenuCore...), chainx.MenuMore...)
		chainx.Explore(r, hooks, []chainx.ParamCfg{noForced, freq3}, menu, 4, 4)
		chainx.Explore(r, hooks, []chainx.ParamCfg{forced}, chainx.MenuCore, 5, 4)
		chainx.Explore(r, hooks, []chainx.ParamCfg{dry, dry2}, chainx.MenuCore, 5, 3)
	}
	r.Assume("driver: coinbase is always an existing online chamber validator; the last online chamber validator is never taken offline")
}

func Replay(r *mc.Run, v *mc.Violation) { chainx.ReplayHist(r, v, hooks) }
