// Package c07: native tokens are conserved by transactions, staking, rewards
// and slashing.  Every bounded block history (see chainx.Explore) is built on
// the real chain; after EVERY block the total-supply equation is evaluated on a
// full dump of the head state.
package c07

import (
	"os"

	"verif/checks/chainx"
	"verif/mc"
)

// PerBlock: observer of the take-effect exits of the period-end blocks (counters + the exact-refund oracle, chainx/limits.go)
var hooks = chainx.Hooks{Supply: true, PerBlock: chainx.TakeEffectExits}

func Run(r *mc.Run) {
	r.Level = "model_checking"
	r.Rule = "every sequence of <= depth blocks over the block menu (coinbase x symbolic txs x injected equivocation evidence), from genesis and from 5 scripted non-initial states, per parameter configuration, is built on the real chain (builder path = miner.worker order of calls); after every block: sum(balances)+staked+unfinished withdrawals+validators' undistributed rewards+role pools+residue+escrow of pending deposits == genesis total; logging.Crit never reached; distinct = distinct head block hashes reached"
	noForced := chainx.DefaultCfg
	noForced.MaxRewardsPeriod = 1000 // forced settlement never due: the equation must hold exactly everywhere
	forced := chainx.DefaultCfg
	forced.MaxRewardsPeriod = 1
	freq3 := chainx.DefaultCfg
	freq3.StakingTrieFrequency, freq3.MaxRewardsPeriod, freq3.WithdrawDelay = 3, 1000, 3
	// a rewards pool that holds 2.5 (3.5) block subsidies: the histories cross the block that drains it
	// (0 < pool < wanted subsidy) and go on with an empty pool
	dry, dry2 := noForced, noForced
	dry.PoolTenths, dry2.PoolTenths = 187, 262
	// inactivity slashing switched ON (every other configuration waits 1000 rounds): a chamber validator that has
	// not proposed for more than one round is penalised and expelled at the period end; with two extra senators
	// that never propose, several validators are slashed in one block
	inact, inact2 := noForced, noForced
	inact.InactivityWait, inact2.InactivityWait, inact2.ExtraChamber = 1, 1, 2
	only := os.Getenv("VERIF_C07_ONLY") // testing aid: "limits" = the at-the-limit exploration alone
	// two small explorations from scripted states the general ones reach late or not at all:
	// (a) a validator holding less than one stake unit (Token > 0, Stake == 0; house role, no minimum self stake):
	//     its record must survive commits and its tokens stay in the equation;
	// (b) paid withdraw records are KEPT in the queue (retention 4 blocks instead of 1): a validator slashed while
	//     its finished records are still listed must not be charged through them again
	retain := noForced
	retain.WithdrawRetention = 4
	small := func() {
		menu := []string{"c1:", "s1:", "c1:xfer", "c1:!dsign(s1)", "s1:!dsign(c1)", "c1:vdeposit(s1)", "c1:vwithdraw(s1)", "c1:dsub(s1)"}
		chainx.ExploreFrom(r, hooks, noForced, []string{"c1:", "c1:xfer", "c1:vwithdrawmost(s1)", "c1:!dsign(s1)", "c1:vcreate(z1)"}, []string{"tinyhouse"}, 3)
		chainx.ExploreFrom(r, hooks, retain, menu, []string{"withdrawing", "matured"}, 4)
	}
	if r.Quick() {
		r.SetBudget(600e9)
		limits(r, noForced, freq3)
		if only == "limits" {
			return
		}
		chainx.Explore(r, hooks, []chainx.ParamCfg{noForced}, chainx.MenuCore, 4, 3)
		chainx.Explore(r, hooks, []chainx.ParamCfg{forced}, chainx.MenuCore, 3, 2)
		chainx.Explore(r, hooks, []chainx.ParamCfg{dry}, chainx.MenuCore, 4, 2)
		chainx.Explore(r, hooks, []chainx.ParamCfg{inact2}, chainx.MenuCore, 4, 1)
		small()
	} else {
		r.SetBudget(45 * 60e9)
		limits(r, noForced, freq3)
		if only == "limits" {
			return
		}
		menu := append(append([]string{}, chainx.MenuCore...), chainx.MenuMore...)
		chainx.Explore(r, hooks, []chainx.ParamCfg{noForced, freq3}, menu, 4, 4)
		chainx.Explore(r, hooks, []chainx.ParamCfg{forced}, chainx.MenuCore, 5, 4)
		chainx.Explore(r, hooks, []chainx.ParamCfg{dry, dry2}, chainx.MenuCore, 5, 3)
		chainx.Explore(r, hooks, []chainx.ParamCfg{inact, inact2}, chainx.MenuCore, 5, 3)
		small()
	}
	r.Assume("driver: coinbase is always an existing online chamber validator; the last online chamber validator is never taken offline")
}

// limits: the take-effect failure exits of the staking transactions.  From scripted states in which the senator s1
// stands exactly at MaxStakes (one delegator D1 / one delegator D2 / two delegators with D1's own delegation slots
// full) or one unit below, at the start of a staking period, every sequence of blocks over chainx.MenuLimits.
func limits(r *mc.Run, noForced, freq3 chainx.ParamCfg) {
	r.Rule += "; AT THE LIMITS: from scripted start states in which senator s1 stands exactly at MaxStakes (60 units) at the start of a staking period - with one delegator (D1, or D2), with two delegators while D1's own delegation slots are full, or one unit below with one delegator - every sequence of <= depth blocks over chainx.MenuLimits (the delegator leaves wholly/partly, another account joins with a fixed amount or with exactly what the pending total leaves up to MaxStakes, both as separate blocks in either order and as one block, for both assignments of D1/D2 and for the plain account P: the three pending-record keys sort P < s1's own record < D2 < D1 in the staking trie, so every evaluation order of joiner, leaver and the validator's own deposit/withdraw/update occurs; validator deposit, withdraw, withdraw of more than its own tokens, stop accepting delegations; equivocation evidence against s1), with StakingTrieFrequency 2 and 3.  On every period-end block an observer classifies, from the period-end receipt, the withdraw queue and the pending records of the ended period, the exit every pending transaction took (counters take_effect:*; a HARNESS-ERROR is printed when a targeted exit is never reached) and checks that a sender whose delegation/deposit failed to activate has exactly its tokens back on its balance (where nothing else moves that balance)"
	if r.Quick() {
		chainx.ExploreFrom(r, hooks, noForced, chainx.MenuLimits, []string{"atmax-d1", "atmax-d2", "atmax-full", "belowmax-d1"}, 2)
		chainx.ExploreFrom(r, hooks, freq3, chainx.MenuLimits, []string{"atmax-d1/3", "atmax-d2/3"}, 3)
	} else {
		menu := append(append([]string{}, chainx.MenuLimits...), chainx.MenuLimitsMore...)
		chainx.ExploreFrom(r, hooks, noForced, menu, []string{"atmax-d1", "atmax-d2", "atmax-full", "belowmax-d1"}, 3)
		chainx.ExploreFrom(r, hooks, freq3, menu, []string{"atmax-d1/3", "atmax-d2/3", "atmax-full/3"}, 3)
		// two whole periods: what was scheduled at the first period end (capped / raised withdrawals) is paid out at the second
		chainx.ExploreFrom(r, hooks, noForced, chainx.MenuLimits, []string{"atmax-d1"}, 4)
	}
	chainx.LimitsVacuity(r)
	r.Assume("take-effect exits: ValidatorCreate has no reachable failure exit at take-effect time (state.CreateValidator refuses only an existing main address, which admission excludes for the whole period through the pending record; counter take_effect:create_without_validator must stay 0); the delegation-count limits (MaxDelegationForValidator / MaxDelegationForDelegator) are enforced at admission only (existing + pending relationships), there is no take-effect exit for them - the states with full slots are start states (atmax-full) so that the admission refusals next to a full validator are explored; change-status refused at take-effect (stake below MinStakes when a pending 'online' takes effect) moves no tokens and is counted but not targeted")
}

func Replay(r *mc.Run, v *mc.Violation) { chainx.ReplayHist(r, v, hooks) }
