// Package c10: committed state is exactly recoverable (commit -> reopen from the
// three roots), a copy equals and is independent of the original, and roots
// depend only on content.  Stateless DFS over ALL op sequences with commit /
// intermediate-root / copy points on the real StateDB.
package c10

import (
	"fmt"
	"math/big"
	"strings"
	"sync"

	"github.com/youchainhq/go-youchain/common"
	"github.com/youchainhq/go-youchain/core/state"
	"github.com/youchainhq/go-youchain/params"

	"verif/checks/stx"
	"verif/mc"
)

type Sys struct {
	alphabet string
	r        *mc.Run
	table    *rootTable

	db     state.Database
	active *state.StateDB // the object operations are applied to
	// passive: the other side of a Copy() (the original or the copy); it must
	// keep the observation recorded when the copy was taken.
	passive    *state.StateDB
	passiveObs string
	passiveIs  string
	copied     bool
	swapped    bool
	mut        stx.Mut
	hist       []string
	dead       bool
	viols      []mc.Violation
	// committed: every (roots, content) pair this execution committed; each must
	// still open to exactly that content through the SAME state.Database after
	// whatever was done later (oracle iv: a committed state is immutable)
	committed []committedState
	// shadow model of the two storage slots of A0 (oracle v: a read returns the last value written,
	// wherever transaction ends, intermediate roots, commits and reopen points fall)
	slot       [2]int64
	slotAtCopy [2]int64
	touched    [2]bool // written since the object was (re)opened: reading these never goes to the trie
}

type committedState struct {
	a, b, c common.Hash
	content string
	at      int
}

// rootTable is oracle (iii): content dump -> roots, shared by all workers.
type rootTable struct {
	mu sync.Mutex
	m  map[string]rootEntry
}
type rootEntry struct {
	roots string
	ops   string
}

func newSys(r *mc.Run, alphabet string, t *rootTable) *Sys {
	return &Sys{alphabet: alphabet, r: r, table: t}
}

func (s *Sys) Reset() {
	// fresh database per execution: Commit writes into it
	db, _ := stx.NewDB()
	st, err := state.New(common.Hash{}, common.Hash{}, common.Hash{}, db)
	if err != nil {
		panic(err)
	}
	st.AddBalance(stx.Acc[0], big.NewInt(100))
	st.SetNonce(stx.Acc[0], 3)
	st.SetCode(stx.Acc[0], []byte{0x60, 0x00})
	st.SetState(stx.Acc[0], stx.Slots[0], common.BigToHash(big.NewInt(7)))
	st.AddBalance(stx.Acc[2], stx.Tok(50, 0))
	stx.CreateVal(st, 0, stx.Tok(10, 7), params.ValidatorOnline)
	stx.CreateVal(st, 2, stx.Tok(4, 0), params.ValidatorOffline)
	st.UpdateDelegation(stx.Acc[2], st.GetValidatorByMainAddr(stx.ValAddr[0]), stx.Tok(2, 1))
	st.AddWithdrawRecord(stx.MkRecord(1000))
	r0, r1, r2, err := st.Commit(true)
	if err != nil {
		panic(err)
	}
	st, err = state.New(r0, r1, r2, db)
	if err != nil {
		panic(err)
	}
	*s = Sys{alphabet: s.alphabet, r: s.r, table: s.table, db: db, active: st, hist: s.hist[:0], slot: [2]int64{7, 0}}
}

var menus = map[string][]string{
	"acct": {"bal(A1)", "nonce(A0)", "store(A0)", "code(A1)", "suicide(A0)", "create(A1)", "preimage"},
	"val":  {"vcreate(V1)", "vdeposit(V0)", "vstatus(V0)", "dlg+(V0)", "dlg+(V2)", "dlg-(V0)", "dlg-(V2)", "wadd", "wrem", "statreward"},
	// two slots of one account: deleting one leaves a single sibling that, after a reopen, is not loaded
	"slots": {"store(A0)", "store7(A0)", "store0(A0)", "store(A0,s1)", "store0(A0,s1)"},
	"stk":   {"bal(A1)", "dlg+(V2)", "vcreate(V1)", "srec(V1)", "srec(D,V0)", "srec3(D,V0)", "prel(D,V2)"},
}

func (s *Sys) Enabled() []string {
	if s.dead {
		return nil
	}
	ops := append([]string{}, menus[s.alphabet]...)
	ops = append(ops, "finalise", "iroot", "commit", "commit-live")
	// Copy() does not carry the journal ("Snapshots of the copied state cannot be
	// applied to the copy"); the node copies states only at transaction / block
	// boundaries (miner snapshot after a finalised tx, side-chain caches after
	// validation), so a copy point needs an empty journal.
	if !s.copied {
		if a, v, _, _ := s.active.VerifJournalLens(); a == 0 && v == 0 {
			ops = append(ops, "copy>orig", "copy>copy")
		}
	} else if s.passive != nil && !s.swapped {
		// both sides of a copy go on being written in the node (miner: pending-state snapshot and the next
		// block's state; side-chain state cache): continue on the OTHER side once
		ops = append(ops, "swap")
	}
	return ops
}

func (s *Sys) fail(sig, detail string) {
	s.viols = append(s.viols, mc.Violation{Sig: sig, Detail: detail})
}

func (s *Sys) Apply(op string) string {
	idx := len(s.hist)
	s.hist = append(s.hist, op)
	s.viols = s.viols[:0]
	var ob string
	msg, where := mc.CatchStack(func() { ob = s.apply(op, idx) })
	if msg != "" {
		s.dead = true
		ob = "PANIC: " + msg
		s.fail(fmt.Sprintf("panic op=%s at=%s msg=%s", op, where, trimNum(msg)), fmt.Sprintf("%s panicked: %s (at %s)", op, msg, where))
		return ob
	}
	if !s.dead {
		if op == "commit" {
			s.touched = [2]bool{} // continuing on a freshly reopened (cold) object
		} else if strings.HasPrefix(op, "copy>copy") {
			// the copy carries the caches of the original
		}
		mc.Catch(func() { s.checkSlots() })
	}
	// independence: whatever was done to the active object, the other side of the copy is unchanged
	if s.passive != nil && !s.dead {
		var now string
		if m, w := mc.CatchStack(func() { now = full(s.passive) }); m != "" {
			s.dead = true
			s.fail(fmt.Sprintf("panic reading the %s after op on the other side at=%s msg=%s", s.passiveIs, w, trimNum(m)), m)
		} else if now != s.passiveObs {
			s.dead = true
			s.fail(fmt.Sprintf("copy not independent: %s changed by %s on the other side: %s", s.passiveIs, opKind(op), diffFields(s.passiveObs, now)),
				fmt.Sprintf("recorded: %s\nnow: %s", s.passiveObs, now))
		}
	}
	return ob
}

func full(st *state.StateDB) string { return stx.Observe(st) + " |" + stx.ObserveStaking(st) }

func (s *Sys) apply(op string, idx int) string {
	st := s.active
	if ob, ok := s.mut.Apply(st, op, idx); ok {
		s.model(op)
		return ob
	}
	switch op {
	case "finalise":
		st.Finalise(true)
	case "iroot":
		a, b, c := st.IntermediateRoot(true)
		s.contentRoots(st, fmt.Sprintf("%x,%x,%x", a[:6], b[:6], c[:6]))
		s.checkOldRoots("")
	case "commit", "commit-live":
		a, b, c, err := st.Commit(true)
		if err != nil {
			s.fail("commit error", err.Error())
			s.dead = true
			return "ERR"
		}
		roots := fmt.Sprintf("%x,%x,%x", a[:6], b[:6], c[:6])
		re, err := state.New(a, b, c, s.db)
		if err != nil {
			s.fail("reopen from committed roots fails", err.Error())
			s.dead = true
			return "ERR"
		}
		// persistent content only: logs, preimages and the refund counter live in the object, not in the tries
		live := content(st)
		var got string
		if m, w := mc.CatchStack(func() { got = content(re) }); m != "" {
			s.dead = true
			s.fail(fmt.Sprintf("panic reading reopened state at=%s msg=%s", w, trimNum(m)), m)
			return "PANIC"
		}
		s.r.Count("commit_reopen_comparisons", 1)
		if got != live {
			s.dead = true
			s.fail("reopened state differs from live state: "+diffFields(live, got), fmt.Sprintf("live: %s\nreopened: %s", live, got))
			return "MISMATCH"
		}
		// reopened roots must reproduce without any write
		x, y, z := re.IntermediateRoot(true)
		if r2 := fmt.Sprintf("%x,%x,%x", x[:6], y[:6], z[:6]); r2 != roots {
			s.fail("reopened state has other roots than committed", roots+" vs "+r2)
		}
		s.checkOldRoots(roots)
		s.committed = append(s.committed, committedState{a, b, c, live, len(s.hist)})
		if op == "commit" {
			// production: the next block opens the state at the committed roots
			// (the continuing object is left COLD: it is not read here, so that later
			// ops meet unloaded trie nodes exactly as the next block's execution does)
			re2, _ := state.New(a, b, c, s.db)
			s.active = re2
		}
		s.contentRootsOf(live, roots)
	case "swap":
		s.swapped = true
		s.active, s.passive = s.passive, s.active
		if s.passiveIs == "copy" {
			s.passiveIs = "original"
		} else {
			s.passiveIs = "copy"
		}
		s.touched = [2]bool{true, true} // both objects are fully in memory: reading them does not warm anything new
		var o string
		if m, w := mc.CatchStack(func() { o = full(s.passive) }); m != "" {
			s.dead = true
			s.fail(fmt.Sprintf("panic reading one side of a copy at=%s msg=%s", w, trimNum(m)), m)
			return "PANIC"
		}
		s.passiveObs = o
		// the shadow model followed the side that was active; the other side still has the values of the copy point
		s.slot, s.slotAtCopy = s.slotAtCopy, s.slot
	case "copy>orig", "copy>copy":
		s.slotAtCopy = s.slot
		cp := st.Copy()
		s.copied = true
		o, c := full(st), ""
		if m, w := mc.CatchStack(func() { c = full(cp) }); m != "" {
			s.dead = true
			s.fail(fmt.Sprintf("panic reading a fresh copy at=%s msg=%s", w, trimNum(m)), m)
			return "PANIC"
		}
		s.r.Count("copies_compared", 1)
		if o != c {
			s.dead = true
			s.fail("copy differs from original: "+diffFields(o, c), fmt.Sprintf("original: %s\ncopy: %s", o, c))
			return "MISMATCH"
		}
		if op == "copy>orig" {
			s.passive, s.passiveIs = cp, "copy"
		} else {
			s.passive, s.passiveIs, s.active = st, "original", cp
		}
		s.passiveObs = o
	default:
		panic("harness: unknown op " + op)
	}
	return ""
}

// model advances the shadow model of A0's two slots and compares it with what the active object reads
// (after suicide the account's storage is no longer compared).
func (s *Sys) model(op string) {
	if s.slot[0] < 0 {
		return // the account self-destructed: its storage is no longer modelled
	}
	switch op {
	case "store(A0)":
		s.slot[0], s.touched[0] = (s.slot[0]+1)%9, true
	case "store7(A0)":
		s.slot[0], s.touched[0] = 7, true
	case "store0(A0)":
		s.slot[0], s.touched[0] = 0, true
	case "store(A0,s1)":
		s.slot[1], s.touched[1] = (s.slot[1]+1)%3, true
	case "store0(A0,s1)":
		s.slot[1], s.touched[1] = 0, true
	case "suicide(A0)":
		s.slot = [2]int64{-1, -1}
	}
}

// checkSlots compares the slots written since the active object was (re)opened with the shadow model.
// Only those: they are served from the object's own caches, so the read does not load trie nodes
// (the harness must not warm the state it explores).
func (s *Sys) checkSlots() {
	if s.slot[0] < 0 || s.active == nil {
		return
	}
	for i := 0; i < 2; i++ {
		if !s.touched[i] {
			continue
		}
		if got := s.active.GetState(stx.Acc[0], stx.Slots[i]).Big().Int64(); got != s.slot[i] {
			s.fail("a storage slot does not read the last value written", fmt.Sprintf("slot %d reads %d, last written %d", i, got, s.slot[i]))
		}
		s.r.Count("slot_reads_compared_with_the_shadow_model", 1)
	}
}

// checkOldRoots is oracle (iv): every state committed earlier in this execution
// still opens, through the same state.Database, to the content it had when it
// was committed (RPC, side-chain import and reorgs open old roots while the
// head state object goes on being written).
func (s *Sys) checkOldRoots(skip string) {
	for _, c := range s.committed {
		if fmt.Sprintf("%x,%x,%x", c.a[:6], c.b[:6], c.c[:6]) == skip {
			continue // the roots just committed: compared above
		}
		re, err := state.New(c.a, c.b, c.c, s.db)
		if err != nil {
			s.fail("earlier committed roots no longer open", err.Error())
			continue
		}
		var got string
		if m, w := mc.CatchStack(func() { got = content(re) }); m != "" {
			s.fail(fmt.Sprintf("panic reading an earlier committed state at=%s msg=%s", w, trimNum(m)), m)
			continue
		}
		s.r.Count("old_roots_reopened", 1)
		if got != c.content {
			s.fail("state committed earlier reads differently after later writes: "+diffFields(c.content, got),
				fmt.Sprintf("committed after op %d: %s\nopened now: %s", c.at, c.content, got))
		}
	}
}

// contentRoots feeds oracle (iii): two states with the same content must have the same roots.
func (s *Sys) contentRoots(st *state.StateDB, roots string) { s.contentRootsOf(content(st), roots) }

func (s *Sys) contentRootsOf(content, roots string) {
	s.table.mu.Lock()
	e, ok := s.table.m[content]
	if !ok {
		s.table.m[content] = rootEntry{roots, strings.Join(s.hist, " ; ")}
	}
	s.table.mu.Unlock()
	s.r.Count("content_root_lookups", 1)
	if ok && e.roots != roots {
		s.viols = append(s.viols, mc.Violation{Sig: "same content, different roots: " + rootDiff(e.roots, roots),
			Detail: fmt.Sprintf("content: %s\nroots %s via [%s]\nroots %s via this sequence", content, e.roots, e.ops, roots),
			Input:  map[string]interface{}{"other_ops": strings.Split(e.ops, " ; ")}})
	}
	if !ok {
		s.r.Distinct(content)
	}
}

// content is the persistent content only (no logs, refund, suicide flags).
func content(st *state.StateDB) string {
	o := full(st)
	i := strings.Index(o, " logs=")
	j := strings.Index(o, " V0")
	if i > 0 && j > i {
		o = o[:i] + o[j:]
	}
	return strings.Replace(strings.Replace(o, "sui=true", "", -1), "sui=false", "", -1)
}

func rootDiff(a, b string) string {
	pa, pb := strings.Split(a, ","), strings.Split(b, ",")
	names := []string{"state", "val", "staking"}
	var d []string
	for i := range pa {
		if i < len(pb) && pa[i] != pb[i] {
			d = append(d, names[i])
		}
	}
	return strings.Join(d, "+")
}

func opKind(op string) string {
	if i := strings.Index(op, "("); i > 0 {
		return op[:i]
	}
	return op
}

func trimNum(m string) string {
	var b strings.Builder
	for _, c := range m {
		if c >= '0' && c <= '9' {
			continue
		}
		b.WriteRune(c)
	}
	out := b.String()
	if len(out) > 80 {
		out = out[:80]
	}
	return out
}

func diffFields(a, b string) string {
	fa, fb := fields(a), fields(b)
	var d []string
	for i := range fa {
		if i >= len(fb) || fa[i] != fb[i] {
			name := fa[i]
			if j := strings.IndexAny(name, "{=("); j > 0 {
				name = name[:j]
			}
			d = append(d, name)
		}
	}
	return strings.Join(d, ",")
}

func fields(s string) []string {
	s = strings.Replace(s, "}A", "} A", -1)
	return strings.Split(s, " ")
}

func (s *Sys) Check() []mc.Violation { return s.viols }
func (s *Sys) Key() string           { return "" }

func Run(r *mc.Run) {
	r.Level = "model_checking"
	r.Rule = "every op sequence up to the stated depth over each sub-alphabet (mutations + finalise + intermediate root + commit (continue on reopened / on live) + one copy point (continue on original / on copy)) runs on a fresh real StateDB over a fresh database; oracles: reopened==live at every commit, copy==original at the copy point and the other side unchanged after every later op, content->roots table over all executions, and every state committed earlier in the execution reopened (same state.Database) after every later commit / intermediate root still has the content it was committed with; distinct = distinct persistent contents whose roots were computed"
	depth := map[string]int{"acct": 5, "val": 5, "stk": 5, "slots": 5}
	if !r.Quick() {
		depth = map[string]int{"acct": 6, "val": 6, "stk": 6, "slots": 7}
		r.SetBudget(40 * 60e9)
	} else {
		r.SetBudget(480e9)
	}
	r.SetExtra("depth_per_alphabet", depth)
	r.Assume("validator records are only mutated through production call patterns; RemoveValidator excluded (no production caller)")
	for _, a := range []string{"slots", "val", "stk", "acct"} {
		a := a
		t := &rootTable{m: map[string]rootEntry{}}
		f := func() mc.System { return newSys(r, a, t) }
		r.DFSAll(f, mc.SeqOpts{Name: "statedb-" + a, Depth: depth[a], ShardDepth: 2, NoDistinct: true})
		r.ConfirmSeq("statedb-"+a, f) // same table: a content/roots conflict needs the first witness
	}
}

func Replay(r *mc.Run, v *mc.Violation) {
	a := strings.TrimPrefix(v.System, "statedb-")
	t := &rootTable{m: map[string]rootEntry{}}
	if m, ok := v.Input.(map[string]interface{}); ok {
		if oo, ok := m["other_ops"].([]interface{}); ok {
			var other []string
			for _, o := range oo {
				other = append(other, fmt.Sprint(o))
			}
			mc.ReplaySeq(newSys(r, a, t), other)
		}
	}
	obs, viols, err := mc.ReplaySeq(newSys(r, a, t), v.Ops)
	fmt.Println("obs:", obs, "err:", err)
	for _, x := range viols {
		x.System, x.Ops = v.System, v.Ops
		r.Report(x)
	}
}
