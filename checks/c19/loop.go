package c19

// Part 2: the downloader's trie-sync GOROUTINE LAYER over a fault-injecting
// database.
//
// Part 1 (c19.go) drives trie.Sync step by step and calls trieSync.commit
// itself; what the downloader makes of a commit's result - trieSync.loop's
// error handling, its deferred final flush, run / Wait / Cancel, runTrieSync -
// is not in its reach.  Here the REAL trieFetcher / runTrieSync / trieSync.loop
// goroutines run a whole sync of each small source against one honest
// in-process peer (it answers every request completely, in request order,
// through Downloader.DeliverNodeData), and the destination database fails or
// cancels at one enumerated point per run:
//
//   fail-once@op k   the k-th database write operation of the run (a Put on the
//                    database, a Put into a batch, a batch Write) returns an error
//   fail-from@op k   the k-th and every later write operation return an error
//   cancel@op k      trieSync.Cancel() is called (from another goroutine, as its
//                    callers do) when the k-th write operation starts
//   dlcancel@op k    Downloader.cancel() (the sync cycle's cancel channel) then
//   cancel@req j /   the same two when the j-th node-data request reaches the
//   dlcancel@req j   peer (which does not answer it)
//
// for every k = 1..N and j = 1..J, N and J taken from a fault-free run of the
// same configuration.  After a cancel the peer stays silent, so that the loop's
// select has exactly one ready case and the run is deterministic.
//
// Oracle: the sync's result (Wait()) is nil ONLY IF the destination database
// holds exactly the source (part 1's destination-equals-source oracle: exact
// key/value set and the real readers).  A failed write must surface as a
// non-nil result unless a retry made the content complete.  After a non-nil
// result (or the process exit logging.Crit stands for) the destination is
// judged like a crash image of part 1: closed over the reference graph, and an
// honest new sync on it ends equal to the source.  A run that neither
// completes nor fails within the bound is a violation.

import (
	"errors"
	"fmt"
	"math/big"
	"runtime"
	"sort"
	"strings"
	"sync"
	"sync/atomic"
	"time"

	"github.com/youchainhq/go-youchain/common"
	"github.com/youchainhq/go-youchain/core/types"
	"github.com/youchainhq/go-youchain/logging"
	"github.com/youchainhq/go-youchain/you/downloader"
	"github.com/youchainhq/go-youchain/youdb"

	"verif/mc"
)

const (
	loopSysPrefix = "triesync-loop-"
	loopPeerID    = "honest"
	// the sync progress record the state kind writes next to the trie nodes
	// (rawdb.WriteFastTrieProgress); not part of the synchronised content
	progressKey = "TrieSync"
)

var errInjected = errors.New("injected write fault: no space left on device")

// ---- configuration and fault points --------------------------------------------

type loopCfg struct {
	src   *source
	fetch int // downloader.MaxTrieNodeFetch during the run (items per request)
}

func (c loopCfg) kind() types.TrieKind {
	if c.src.isState {
		return types.KindState // syncState
	}
	return types.KindValidator // commonSyncTrie (validator / staking / cht / blt are one code path)
}

func (c loopCfg) kindName() string {
	if c.src.isState {
		return "state"
	}
	return "validator"
}

func (c loopCfg) String() string { return fmt.Sprintf("kind=%s fetch=%d", c.kindName(), c.fetch) }

type faultSpec struct {
	mode string // none | fail-once | fail-from | cancel | dlcancel
	at   string // op | req
	k    int
}

func (f faultSpec) String() string {
	if f.mode == "none" {
		return "none"
	}
	return fmt.Sprintf("%s@%s%d", f.mode, f.at, f.k)
}

func parseFault(s string) (faultSpec, error) {
	if s == "none" {
		return faultSpec{mode: "none"}, nil
	}
	i := strings.Index(s, "@")
	if i < 0 {
		return faultSpec{}, fmt.Errorf("bad fault point %q", s)
	}
	f := faultSpec{mode: s[:i]}
	rest := s[i+1:]
	switch {
	case strings.HasPrefix(rest, "op"):
		f.at, rest = "op", rest[2:]
	case strings.HasPrefix(rest, "req"):
		f.at, rest = "req", rest[3:]
	default:
		return f, fmt.Errorf("bad fault point %q", s)
	}
	if _, err := fmt.Sscanf(rest, "%d", &f.k); err != nil {
		return f, fmt.Errorf("bad fault point %q", s)
	}
	switch f.mode {
	case "fail-once", "fail-from":
		if f.at != "op" {
			return f, fmt.Errorf("bad fault point %q", s)
		}
	case "cancel", "dlcancel":
	default:
		return f, fmt.Errorf("bad fault point %q", s)
	}
	return f, nil
}

func (f faultSpec) fails() bool   { return f.mode == "fail-once" || f.mode == "fail-from" }
func (f faultSpec) cancels() bool { return f.mode == "cancel" || f.mode == "dlcancel" }

// ---- one run -------------------------------------------------------------------

// wop is one database write operation the sync attempted.
type wop struct {
	kind   string // db.Put | db.Delete | batch.Put | batch.Delete | batch.Write
	key    string // node name (or hex) of a Put / Delete
	flush  int    // ordinal of the batch among the batches that received an operation (0: database-level)
	failed bool
}

func (o wop) String() string {
	s := o.kind
	if o.key != "" {
		s += "(" + o.key + ")"
	}
	if o.flush > 0 {
		s += fmt.Sprintf("#%d", o.flush)
	}
	if o.failed {
		s += "!"
	}
	return s
}

type loopRun struct {
	r     *mc.Run
	cfg   loopCfg
	fault faultSpec

	db   *mc.CrashDB
	dl   *downloader.VerifTrieDL
	task *downloader.VerifTrieTask

	ready chan struct{} // closed once task is set: hooks wait for it
	crit  chan struct{} // closed when logging.Crit is reached (the process would exit)

	mu        sync.Mutex
	ops       []wop
	flushes   int
	requests  []string
	reachedAt string // what the fault point turned out to be ("" = never reached)
	reachedFl int    // flush ordinal of the operation the fault point hit (0: none / database-level / request)
	critMsg   string
	critOnce  sync.Once

	cancelled int32 // a cancel has been requested: the peer is silent from here on
	harness   string

	// result
	outcome string // nil | error | crit | hang
	err     error
}

// -- the fault-injecting database ---

type faultDB struct {
	*mc.CrashDB // reads, the live content and the write log
	x           *loopRun
}

func (d *faultDB) Put(k, v []byte) error {
	if d.x.step("db.Put", k, nil) {
		return errInjected
	}
	return d.CrashDB.Put(k, v)
}

func (d *faultDB) Delete(k []byte) error {
	if d.x.step("db.Delete", k, nil) {
		return errInjected
	}
	return d.CrashDB.Delete(k)
}

func (d *faultDB) NewBatch() youdb.Batch {
	return &faultBatch{Batch: d.CrashDB.NewBatch(), x: d.x}
}

type faultBatch struct {
	youdb.Batch
	x  *loopRun
	no int // flush ordinal, assigned at the first operation
}

func (b *faultBatch) Put(k, v []byte) error {
	if b.x.step("batch.Put", k, b) {
		return errInjected // the entry does not reach the batch
	}
	return b.Batch.Put(k, v)
}

func (b *faultBatch) Delete(k []byte) error {
	if b.x.step("batch.Delete", k, b) {
		return errInjected
	}
	return b.Batch.Delete(k)
}

func (b *faultBatch) Write() error {
	if b.x.step("batch.Write", nil, b) {
		return errInjected // atomic: nothing of the batch reaches the database
	}
	return b.Batch.Write()
}

// step records one write operation and decides whether it fails; a cancel
// point is executed before the operation goes on.
func (x *loopRun) step(kind string, key []byte, b *faultBatch) (fail bool) {
	<-x.ready
	x.mu.Lock()
	if b != nil && b.no == 0 {
		x.flushes++
		b.no = x.flushes
	}
	o := wop{kind: kind}
	if b != nil {
		o.flush = b.no
	}
	if key != nil {
		if len(key) == 32 {
			o.key = x.cfg.src.n(common.BytesToHash(key))
		} else {
			o.key = fmt.Sprintf("%q", key)
		}
	}
	n := len(x.ops) + 1
	f := x.fault
	hook := false
	if f.at == "op" {
		fail = (f.mode == "fail-once" && n == f.k) || (f.mode == "fail-from" && n >= f.k)
		hook = f.cancels() && n == f.k
	}
	o.failed = fail
	x.ops = append(x.ops, o)
	if (fail || hook) && x.reachedAt == "" {
		x.reachedAt, x.reachedFl = kind, o.flush
	}
	x.mu.Unlock()
	if hook {
		x.doCancel()
	}
	return fail
}

// doCancel requests the cancel the fault point names and returns once the
// request is visible to the loop.
func (x *loopRun) doCancel() {
	atomic.StoreInt32(&x.cancelled, 1)
	switch x.fault.mode {
	case "cancel":
		// Cancel() = close(cancel) + Wait(): called from a goroutine of its own, as
		// runTrieSync's deferred s.Cancel() and the downloader's callers do
		go x.task.Cancel()
		for dl := time.Now().Add(20 * time.Second); !x.task.CancelRequested(); {
			if time.Now().After(dl) {
				x.mu.Lock()
				x.harness = "c19 loop: Cancel() did not close the cancel channel within 20 s"
				x.mu.Unlock()
				return
			}
			runtime.Gosched()
		}
	case "dlcancel":
		x.dl.CancelCycle()
	}
}

// -- the honest peer ---

type honestPeer struct{ x *loopRun }

func (p *honestPeer) Head() (common.Hash, *big.Int) { return common.Hash{}, new(big.Int) }
func (p *honestPeer) Origin() *big.Int              { return new(big.Int) }
func (p *honestPeer) RequestHeadersByHash(common.Hash, int, int, bool, bool) error {
	return nil
}
func (p *honestPeer) RequestHeadersByNumber(uint64, int, int, bool, bool) error { return nil }
func (p *honestPeer) RequestBodies([]common.Hash) error                         { return nil }
func (p *honestPeer) RequestReceipts([]common.Hash) error                       { return nil }

// RequestNodeData runs on the goroutine peerConnection.FetchNodeData starts.
func (p *honestPeer) RequestNodeData(kind types.TrieKind, hashes []common.Hash) error {
	x := p.x
	<-x.ready
	x.mu.Lock()
	x.requests = append(x.requests, x.cfg.src.names(hashes))
	j := len(x.requests)
	hook := x.fault.at == "req" && x.fault.cancels() && j == x.fault.k
	if hook && x.reachedAt == "" {
		x.reachedAt = "request"
	}
	if kind != x.cfg.kind() {
		x.harness = fmt.Sprintf("c19 loop: request for kind %v, sync started for %v", kind, x.cfg.kind())
	}
	x.mu.Unlock()
	if hook {
		x.doCancel()
	}
	if atomic.LoadInt32(&x.cancelled) != 0 {
		return nil // silent once a cancel was requested
	}
	data := make([][]byte, 0, len(hashes))
	for _, h := range hashes {
		if blob, ok := x.cfg.src.nodes[h]; ok {
			data = append(data, blob)
		}
	}
	x.dl.DeliverNodeData(loopPeerID, data)
	return nil
}

// -- Crit ---

var curLoopRun atomic.Value // *loopRun

func loopCritHook(msg string, ctx []interface{}) {
	x, _ := curLoopRun.Load().(*loopRun)
	if x == nil {
		panic("logging.Crit: " + msg)
	}
	x.critOnce.Do(func() {
		x.mu.Lock()
		x.critMsg = msg
		x.mu.Unlock()
		close(x.crit)
	})
	// Crit ends the process (os.Exit(1)): nothing of this goroutine runs afterwards
	select {}
}

// runLoop performs one sync of cfg.src through the real goroutine layer with the
// given fault point.
func runLoop(r *mc.Run, cfg loopCfg, f faultSpec, hangBound time.Duration) *loopRun {
	x := &loopRun{r: r, cfg: cfg, fault: f, db: mc.NewCrashDB(),
		ready: make(chan struct{}), crit: make(chan struct{})}
	curLoopRun.Store(x)
	old := downloader.MaxTrieNodeFetch
	downloader.MaxTrieNodeFetch = cfg.fetch
	defer func() { downloader.MaxTrieNodeFetch = old }()

	x.dl = downloader.VerifNewTrieDL(func(string) {})
	if err := x.dl.RegisterPeer(loopPeerID, &honestPeer{x}); err != nil {
		panic("c19 loop: " + err.Error())
	}
	x.task = x.dl.SyncTrie(cfg.kind(), cfg.src.roots[0], &faultDB{CrashDB: x.db, x: x})
	close(x.ready)

	errc := make(chan error, 1)
	go func() { errc <- x.task.Wait() }()
	timer := time.NewTimer(hangBound)
	defer timer.Stop()
	select {
	case x.err = <-errc:
		x.outcome = "error"
		if x.err == nil {
			x.outcome = "nil"
		}
	case <-x.crit:
		x.outcome = "crit"
	case <-timer.C:
		x.outcome = "hang"
	}
	if x.outcome != "crit" {
		// (after Crit the loop goroutine is parked for good while it holds the
		// sync; Terminate would wait on nothing, but the fetcher cannot leave
		// runTrieSync: those few goroutines are abandoned)
		x.dl.Terminate()
	}
	return x
}

// image: the destination's content without the sync progress record.
func (x *loopRun) image() (img *mc.CrashDB, progress bool) {
	img = mc.NewCrashDB()
	for _, k := range x.db.Keys() {
		if k == progressKey {
			progress = true
			continue
		}
		v, _ := x.db.Get([]byte(k))
		img.Put([]byte(k), v)
	}
	return img.Snapshot(), progress
}

func (x *loopRun) anyFailed() (n int, first wop) {
	for _, o := range x.ops {
		if o.failed {
			if n == 0 {
				first = o
			}
			n++
		}
	}
	return
}

// pointClass names the fault point by what it hit (stable across runs: no
// indices): used in signatures.
func (x *loopRun) pointClass(finalFlush int) string {
	where := func() string {
		switch {
		case x.reachedAt == "request":
			return "when a request reaches the peer"
		case x.reachedFl == 0:
			return "at the write of the sync progress record"
		case x.reachedFl >= finalFlush:
			return "in the final flush"
		}
		return "in an intermediate flush"
	}
	switch x.fault.mode {
	case "fail-once", "fail-from":
		how := "fails once"
		if x.fault.mode == "fail-from" {
			how = "and every later write fail"
		}
		switch {
		case x.reachedFl == 0:
			return x.reachedAt + " of the sync progress record " + how
		case x.reachedFl >= finalFlush:
			return x.reachedAt + " of the final flush " + how
		}
		return x.reachedAt + " of an intermediate flush " + how
	case "cancel":
		return "trieSync.Cancel " + where()
	case "dlcancel":
		return "Downloader.cancel " + where()
	}
	return "no fault"
}

func errText(err error) string {
	s := err.Error()
	if i := strings.Index(s, ":"); i > 0 {
		s = s[:i]
	}
	return s
}

func (x *loopRun) trace() string {
	var os []string
	for i, o := range x.ops {
		os = append(os, fmt.Sprintf("%d:%s", i+1, o))
	}
	var rs []string
	for j, q := range x.requests {
		rs = append(rs, fmt.Sprintf("%d:[%s]", j+1, q))
	}
	res := x.outcome
	if x.err != nil {
		res = "error: " + x.err.Error()
	}
	if x.outcome == "crit" {
		res = "logging.Crit (process exit): " + x.critMsg
	}
	return fmt.Sprintf("configuration %s, fault point %s; result of Wait(): %s\nrequests answered by the honest peer: %s\ndatabase write operations (! = failed, #n = n-th flush): %s\n%s",
		x.cfg, x.fault, res, strings.Join(rs, " "), strings.Join(os, " "), x.cfg.src.describe())
}

// judge applies the oracle to a finished run.  finalFlush is the ordinal of the
// last flush of the fault-free run of the configuration.
func (x *loopRun) judge(finalFlush int, count bool) (viols []mc.Violation) {
	src, name := x.cfg.src, x.cfg.src.name
	c := func(n string) {
		if count {
			x.r.Count("loop_"+n, 1)
		}
	}
	add := func(sig, detail string) {
		viols = append(viols, mc.Violation{Sig: sig, Detail: detail + "\n" + x.trace()})
	}
	x.mu.Lock()
	defer x.mu.Unlock()
	if x.harness != "" {
		x.r.HarnessError(x.harness)
	}
	nfail, _ := x.anyFailed()
	cancelled := atomic.LoadInt32(&x.cancelled) != 0
	faulted := nfail > 0 || cancelled
	if x.fault.mode != "none" && x.reachedAt == "" {
		c("fault_points_not_reached")
	}
	if x.outcome == "hang" {
		add(fmt.Sprintf("sync neither completes nor fails (%s, source %s)", x.pointClass(finalFlush), name),
			"Wait() did not return within the bound and logging.Crit was not reached")
		return
	}
	img, _ := x.image()
	switch x.outcome {
	case "nil":
		why := src.sameAsSource(img, 0)
		switch {
		case why == "" && nfail > 0:
			c("result_nil_and_complete_although_a_write_failed_(retried_or_not_needed)")
		case why == "" && cancelled:
			c("result_nil_and_complete_cancel_came_after_the_last_response")
		case why == "":
			c("result_nil_and_complete_without_fault")
		case nfail > 0:
			add(fmt.Sprintf("state sync reported success although a database write failed: %s (%s, source %s)", whyClass(why), x.pointClass(finalFlush), name),
				fmt.Sprintf("Wait() returned nil, %d write operation(s) had failed; destination: %s", nfail, why))
		case cancelled:
			add(fmt.Sprintf("cancelled sync reported success although the destination differs from the source: %s (%s, source %s)", whyClass(why), x.pointClass(finalFlush), name),
				"Wait() returned nil; destination: "+why)
		default:
			add(fmt.Sprintf("fault-free sync through the downloader loop reports completion but destination differs from source: %s (source %s)", whyClass(why), name),
				"Wait() returned nil; destination: "+why)
		}
		return
	case "error":
		switch {
		case !faulted:
			add(fmt.Sprintf("fault-free sync through the downloader loop fails: %s (source %s)", errText(x.err), name),
				"honest peer, no write failed, no cancel: Wait() returned "+x.err.Error())
		case nfail > 0:
			c("result_error_after_failed_write")
		case x.err == downloader.VerifErrCancelTrieFetch:
			c("result_errCancelTrieFetch_after_cancel")
		case x.err == downloader.VerifErrCanceledSync:
			c("result_errCanceled_after_downloader_cancel")
		default:
			c("result_other_error_after_cancel")
		}
	case "crit":
		if nfail == 0 {
			add(fmt.Sprintf("logging.Crit reached although no write failed: %s (source %s)", x.critMsg, name), "")
		}
		c("result_process_exit_via_Crit_after_failed_progress_write")
	}
	// not reported complete: what is left behind must be a resumable prefix
	lack := 0
	keys := map[common.Hash]bool{}
	for _, k := range img.Keys() {
		keys[common.BytesToHash([]byte(k))] = true
	}
	for h := range src.reach[0] {
		if !keys[h] {
			lack++
		}
	}
	switch {
	case len(keys) == 0:
		c("failed_runs_leaving_an_empty_destination")
	case lack > 0:
		c("failed_runs_leaving_a_partial_destination")
	default:
		c("failed_runs_leaving_a_complete_destination")
	}
	pv := src.prefixVerdict(x.r, img, 0)
	if pv.closure != "" {
		add(fmt.Sprintf("node present in destination before all its descendants, after a failed or cancelled sync (%s, source %s)", x.pointClass(finalFlush), name), pv.closure)
	}
	if pv.resume != "" {
		add(fmt.Sprintf("partial trie presented complete after a failed or cancelled sync: %s (%s, source %s)", whyClass(pv.resume), x.pointClass(finalFlush), src.label(pv.resumeOn)),
			fmt.Sprintf("a new Sync for root %d on the database the run left behind, answered honestly and completely, ends with: %s", pv.resumeOn+1, pv.resume))
	}
	return
}

// ---- enumeration ---------------------------------------------------------------

// wideSource: a plain trie whose node data exceeds youdb.IdealBatchSize more
// than twice (64 leaves of ~4.4 KB below 16 branches below the root: 81 nodes,
// ~283 KB), so that trieSync.loop's commit(false) really writes while requests
// are still pending: the only source with INTERMEDIATE flushes (with 8 items
// per request: one after every 24 leaves, i.e. two before the final one).
func wideSource() *source {
	var kv [][2][]byte
	for i := 0; i < 64; i++ {
		val := append([]byte(fmt.Sprintf("wide-%02d-", i)), make([]byte, 4400)...)
		for j := 8; j < len(val); j++ {
			val[j] = byte(i*7 + j)
		}
		kv = append(kv, [2][]byte{{byte(i * 4), 0x77}, val})
	}
	s := plainSource("wide-64x4k", kv)
	total := 0
	for _, b := range s.nodes {
		total += len(b)
	}
	s.must(len(s.nodes) == 81 && len(s.kids[s.root]) == 16 && total > 2*youdb.IdealBatchSize+youdb.IdealBatchSize/2 && total < 3*youdb.IdealBatchSize,
		fmt.Sprintf("81 nodes, 16 below the root, between 2.5 and 3 ideal batch sizes (have %d nodes, %d bytes)", len(s.nodes), total))
	return s
}

var (
	wideOnce sync.Once
	wideSrc  *source
)

func wide() *source {
	wideOnce.Do(func() { wideSrc = wideSource() })
	return wideSrc
}

func loopConfigs(r *mc.Run) []loopCfg {
	var out []loopCfg
	fetches := []int{384, 2}
	wideFetches := []int{8}
	if !r.Quick() {
		fetches = []int{384, 3, 2, 1}
		wideFetches = []int{16, 8, 4}
	}
	for _, src := range sources(!r.Quick()) {
		if src.name == "code-equals-storage-node" {
			// completion is already wrong without any fault (known finding of part 1,
			// below the goroutine layer) and whether it shows depends on the item
			// order inside a request
			continue
		}
		for _, f := range fetches {
			out = append(out, loopCfg{src, f})
		}
	}
	for _, f := range wideFetches {
		out = append(out, loopCfg{wide(), f})
	}
	return out
}

func findLoopSource(name string) *source {
	if name == wide().name {
		return wide()
	}
	for _, s := range sources(true) {
		if s.name == name {
			return s
		}
	}
	return nil
}

// exploreLoop: part 2's entry point.
func exploreLoop(r *mc.Run) {
	oldH := logging.Root().GetHandler()
	logging.Root().SetHandler(logging.DiscardHandler())
	oldCrit := logging.VerifCritHook
	logging.VerifCritHook = loopCritHook
	defer func() {
		logging.Root().SetHandler(oldH)
		logging.VerifCritHook = oldCrit
		curLoopRun.Store((*loopRun)(nil))
	}()
	hangBound := 30 * time.Second
	began := time.Now()
	var summary []string
	runs := 0
	hung := false
	for _, cfg := range loopConfigs(r) {
		if r.Expired() || hung {
			break
		}
		cfg := cfg
		sys := loopSysPrefix + cfg.src.name
		one := func(f faultSpec, finalFlush int) *loopRun {
			x := runLoop(r, cfg, f, hangBound)
			runs++
			atomic.AddInt64(&r.Executions, 1)
			viols := x.judge(finalFlush, true)
			if x.outcome == "hang" {
				// a hung sync may leave a spinning goroutine behind and every further
				// one costs the whole bound: report it as it is and end part 2
				hung = true
				r.Cap("part 2 (goroutine layer) stopped after a run that neither completed nor failed within " + hangBound.String())
			}
			for _, v := range viols {
				// seen again on a second run of the same point?
				again := ""
				if hung {
					again = "not re-run (the bound was exceeded)"
				}
				for try := 0; try < 3 && again == ""; try++ {
					y := runLoop(r, cfg, f, hangBound)
					for _, w := range y.judge(finalFlush, false) {
						if w.Sig == v.Sig {
							again = "reproduced on a re-run of the same fault point"
						}
					}
				}
				if again == "" {
					again = "seen once, NOT reproduced by 3 re-runs of the same fault point (depends on the item order inside a request or on goroutine timing)"
					r.Count("loop_violations_not_reproduced", 1)
				}
				v.Detail = again + "\n" + v.Detail
				v.System, v.Config, v.Ops = sys, cfg.String(), []string{f.String()}
				r.Report(v)
			}
			return x
		}
		// fault-free run: N write operations, W flushes, J requests
		pilot := one(faultSpec{mode: "none"}, 1<<30)
		if pilot.outcome != "nil" {
			continue // reported; nothing to enumerate on
		}
		N, W, J := len(pilot.ops), pilot.flushes, len(pilot.requests)
		r.Count("loop_configurations", 1)
		if W > 1 {
			r.Count("loop_configurations_with_intermediate_flushes", 1)
		} else if cfg.src == wide() {
			r.HarnessError("c19 loop: the wide source was synchronised without an intermediate flush: " + cfg.String())
		}
		for k := 1; k <= N && !r.Expired() && !hung; k++ {
			for _, mode := range []string{"fail-once", "fail-from", "cancel", "dlcancel"} {
				if hung {
					break
				}
				f := faultSpec{mode: mode, at: "op", k: k}
				x := one(f, W)
				if x.reachedAt == "" {
					continue
				}
				final := "final_flush"
				switch {
				case x.reachedFl == 0:
					final = "progress_record"
				case x.reachedFl < W:
					final = "intermediate_flush"
				}
				r.Count("loop_points_"+mode+"_at_"+x.reachedAt+"_of_"+final, 1)
				if r.Distinct(fmt.Sprintf("loop %s %s %s", cfg.src.name, cfg, f)) {
					r.Sample(fmt.Sprintf("%s %s %s -> %s", cfg.src.name, cfg, f, x.outcome))
				}
				if mode == "fail-once" && x.reachedAt == "batch.Put" && x.outcome == "error" {
					// the loop's deferred commit(true) runs after the failed flush: did it write?
					for _, o := range x.ops[k:] {
						if o.kind == "batch.Write" && !o.failed {
							r.Count("loop_deferred_final_commit_wrote_after_a_failed_flush", 1)
							break
						}
					}
				}
			}
		}
		for j := 1; j <= J && !r.Expired() && !hung; j++ {
			for _, mode := range []string{"cancel", "dlcancel"} {
				if hung {
					break
				}
				f := faultSpec{mode: mode, at: "req", k: j}
				x := one(f, W)
				if x.reachedAt != "" {
					r.Count("loop_points_"+mode+"_at_request", 1)
					r.Distinct(fmt.Sprintf("loop %s %s %s", cfg.src.name, cfg, f))
				}
			}
		}
		if hung {
			break
		}
		summary = append(summary, fmt.Sprintf("%s %s: %d write operations in %d flush(es), %d requests", cfg.src.name, cfg, N, W, J))
	}
	sort.Strings(summary)
	r.SetExtra("loop_configurations", summary)
	r.SetExtra("loop_runs", runs)
	r.SetExtra("loop_wall_s", fmt.Sprintf("%.1f", time.Since(began).Seconds()))
}

// replayLoop re-runs one fault point of part 2.
func replayLoop(r *mc.Run, v *mc.Violation) {
	src := findLoopSource(strings.TrimPrefix(v.System, loopSysPrefix))
	if src == nil || len(v.Ops) != 1 {
		fmt.Println("unknown system / fault point", v.System, v.Ops)
		return
	}
	cfg := loopCfg{src: src}
	var kind string
	if _, err := fmt.Sscanf(v.Config, "kind=%s fetch=%d", &kind, &cfg.fetch); err != nil {
		fmt.Println("bad configuration", v.Config, err)
		return
	}
	f, err := parseFault(v.Ops[0])
	if err != nil {
		fmt.Println(err)
		return
	}
	logging.Root().SetHandler(logging.DiscardHandler())
	logging.VerifCritHook = loopCritHook
	pilot := runLoop(r, cfg, faultSpec{mode: "none"}, 30*time.Second)
	W := pilot.flushes
	if f.mode == "none" {
		W = 1 << 30
	}
	x := runLoop(r, cfg, f, 30*time.Second)
	fmt.Println(x.trace())
	for _, w := range x.judge(W, false) {
		w.System, w.Config, w.Ops = v.System, v.Config, v.Ops
		fmt.Println("violation:", w.Sig, "\n ", w.Detail)
		r.Report(w)
	}
}
