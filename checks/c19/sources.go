package c19

import (
	"bytes"
	"fmt"
	"math/big"
	"sort"
	"strings"

	"github.com/youchainhq/go-youchain/common"
	"github.com/youchainhq/go-youchain/core/state"
	"github.com/youchainhq/go-youchain/crypto"
	"github.com/youchainhq/go-youchain/params"
	"github.com/youchainhq/go-youchain/rlp"
	"github.com/youchainhq/go-youchain/trie"
	"github.com/youchainhq/go-youchain/youdb"

	"verif/checks/stx"
	"verif/mc"
)

var (
	emptyRoot = common.HexToHash("56e81f171bcc55a6ff8345e692c0f86e5b48e01b996cadc001622fb5e363b421")
	emptyCode = crypto.Keccak256Hash(nil)
)

// source is one immutable synchronisation source: the committed database of a
// small trie / state plus the reference graph computed by an INDEPENDENT node
// parser (plain RLP splitting, no trie package code), which is what the oracles
// compare the destination against.
type source struct {
	name    string
	isState bool
	root    common.Hash
	disk    *youdb.MemDatabase

	nodes map[common.Hash][]byte        // every blob reachable from root (trie nodes, code, delegation blobs)
	kids  map[common.Hash][]common.Hash // direct references of a blob, union over every context it is reached in
	order []common.Hash                 // nodes sorted by hash: index = short name nI
	idx   map[common.Hash]int
	kind  map[common.Hash]string // "acct" | "trie" | "raw" | mixed "raw+trie"

	addrs   []common.Address // state sources: accounts to observe through the real StateDB
	slots   []common.Hash
	content string // observation of the source through the real reader
	foreign []byte // a well-formed trie node that is not part of the source
}

func (s *source) n(h common.Hash) string {
	if i, ok := s.idx[h]; ok {
		return fmt.Sprintf("n%d", i)
	}
	return fmt.Sprintf("?%x", h[:3])
}

func (s *source) names(hs []common.Hash) string {
	var out []string
	for _, h := range hs {
		out = append(out, s.n(h))
	}
	return strings.Join(out, ",")
}

// ---- independent node parser -------------------------------------------------

type refs struct {
	trieKids []common.Hash // hash references to nodes of the same trie
	storage  []common.Hash // storage roots referenced by account leaves
	raws     []common.Hash // code / delegation blobs referenced by account leaves
}

func parseNode(buf []byte, acct bool, out *refs) error {
	elems, _, err := rlp.SplitList(buf)
	if err != nil {
		return err
	}
	n, err := rlp.CountValues(elems)
	if err != nil {
		return err
	}
	switch n {
	case 2:
		kbuf, rest, err := rlp.SplitString(elems)
		if err != nil {
			return err
		}
		if len(kbuf) > 0 && kbuf[0]&0x20 != 0 { // compact key with terminator: leaf
			val, _, err := rlp.SplitString(rest)
			if err != nil {
				return err
			}
			if acct {
				return parseAccount(val, out)
			}
			return nil
		}
		_, err = parseRef(rest, acct, out)
		return err
	case 17:
		rest := elems
		for i := 0; i < 16; i++ {
			if rest, err = parseRef(rest, acct, out); err != nil {
				return err
			}
		}
		val, _, err := rlp.SplitString(rest)
		if err != nil {
			return err
		}
		if len(val) > 0 && acct {
			return parseAccount(val, out)
		}
		return nil
	}
	return fmt.Errorf("node with %d elements", n)
}

func parseRef(buf []byte, acct bool, out *refs) ([]byte, error) {
	kind, val, rest, err := rlp.Split(buf)
	if err != nil {
		return nil, err
	}
	switch {
	case kind == rlp.List:
		return rest, parseNode(buf[:len(buf)-len(rest)], acct, out)
	case kind == rlp.String && len(val) == 32:
		out.trieKids = append(out.trieKids, common.BytesToHash(val))
	case kind == rlp.String && len(val) == 0:
	default:
		return nil, fmt.Errorf("bad reference of %d bytes", len(val))
	}
	return rest, nil
}

func parseAccount(val []byte, out *refs) error {
	var a state.Account
	if err := rlp.DecodeBytes(val, &a); err != nil {
		return err
	}
	if a.Root != emptyRoot && a.Root != (common.Hash{}) {
		out.storage = append(out.storage, a.Root)
	}
	if ch := common.BytesToHash(a.CodeHash); ch != emptyCode {
		out.raws = append(out.raws, ch)
	}
	if len(a.DelegationsHash) > 0 {
		out.raws = append(out.raws, common.BytesToHash(a.DelegationsHash))
	}
	return nil
}

// index walks the source from its root with the independent parser.
func (s *source) index() {
	s.nodes = map[common.Hash][]byte{}
	s.kids = map[common.Hash][]common.Hash{}
	s.kind = map[common.Hash]string{}
	type vk struct {
		h   common.Hash
		ctx string
	}
	seen := map[vk]bool{}
	var visit func(h common.Hash, ctx string)
	visit = func(h common.Hash, ctx string) {
		if seen[vk{h, ctx}] {
			return
		}
		seen[vk{h, ctx}] = true
		blob, err := s.disk.Get(h[:])
		if err != nil || len(blob) == 0 {
			panic(fmt.Sprintf("c19: source %s lacks %x (%s)", s.name, h, ctx))
		}
		if crypto.Keccak256Hash(blob) != h {
			panic("c19: source blob does not hash to its key")
		}
		s.nodes[h] = blob
		if k := s.kind[h]; k == "" {
			s.kind[h] = ctx
		} else if !strings.Contains(k, ctx) {
			ks := append(strings.Split(k, "+"), ctx)
			sort.Strings(ks)
			s.kind[h] = strings.Join(ks, "+")
		}
		if ctx == "raw" {
			return
		}
		var r refs
		if err := parseNode(blob, ctx == "acct", &r); err != nil {
			panic(fmt.Sprintf("c19: source %s node %x: %v", s.name, h, err))
		}
		add := func(c common.Hash) {
			for _, k := range s.kids[h] {
				if k == c {
					return
				}
			}
			s.kids[h] = append(s.kids[h], c)
		}
		for _, c := range r.trieKids {
			add(c)
			visit(c, ctx)
		}
		for _, c := range r.storage {
			add(c)
			visit(c, "trie")
		}
		for _, c := range r.raws {
			add(c)
			visit(c, "raw")
		}
	}
	if s.isState {
		visit(s.root, "acct")
	} else {
		visit(s.root, "trie")
	}
	for h := range s.nodes {
		s.order = append(s.order, h)
	}
	sort.Slice(s.order, func(i, j int) bool { return bytes.Compare(s.order[i][:], s.order[j][:]) < 0 })
	s.idx = map[common.Hash]int{}
	for i, h := range s.order {
		s.idx[h] = i
	}
	// a well-formed leaf node that cannot be part of any source (unique value)
	s.foreign, _ = rlp.EncodeToBytes([]interface{}{[]byte{0x20, 0xfe, 0xed}, []byte("foreign-node-not-in-any-source-trie-0123456789")})
	if _, ok := s.nodes[crypto.Keccak256Hash(s.foreign)]; ok {
		panic("c19: foreign node collides")
	}
	var err error
	if s.content, err = s.observe(s.disk); err != nil {
		panic("c19: cannot observe source " + s.name + ": " + err.Error())
	}
}

func (s *source) describe() string {
	var out []string
	for i, h := range s.order {
		out = append(out, fmt.Sprintf("n%d=%s(%dB)->[%s]", i, s.kind[h], len(s.nodes[h]), s.names(s.kids[h])))
	}
	return s.name + ": root=" + s.n(s.root) + " " + strings.Join(out, " ")
}

// observe reads the complete content through the REAL reader code (trie
// iterator / StateDB + state NodeIterator) from any database.
func (s *source) observe(db youdb.Database) (out string, err error) {
	if msg := mc.Catch(func() { out, err = s.observe0(db) }); msg != "" {
		return "", fmt.Errorf("panic: %s", msg)
	}
	return
}

func (s *source) observe0(db youdb.Database) (string, error) {
	var b strings.Builder
	if !s.isState {
		t, err := trie.New(s.root, trie.NewDatabase(db))
		if err != nil {
			return "", err
		}
		it := trie.NewIterator(t.NodeIterator(nil))
		for it.Next() {
			fmt.Fprintf(&b, "%x=%x;", it.Key, it.Value)
		}
		if it.Err != nil {
			return "", it.Err
		}
		nit := t.NodeIterator(nil)
		n := 0
		for nit.Next(true) {
			n++
		}
		if nit.Error() != nil {
			return "", nit.Error()
		}
		fmt.Fprintf(&b, "nodes=%d", n)
		return b.String(), nil
	}
	st, err := state.New(s.root, common.Hash{}, common.Hash{}, state.NewDatabase(db))
	if err != nil {
		return "", err
	}
	for _, a := range s.addrs {
		fmt.Fprintf(&b, "%x{ex=%v bal=%v n=%d code=%x", a[:2], st.Exist(a), st.GetBalance(a), st.GetNonce(a), st.GetCode(a))
		for _, sl := range s.slots {
			fmt.Fprintf(&b, " s%x=%x", sl[31:], st.GetState(a, sl).Big())
		}
		if st.Error() != nil {
			return "", st.Error()
		}
		fmt.Fprintf(&b, " dlgbal=%v dlg=%x}", st.VerifDelegationBalance(a), st.VerifDelegations(a))
	}
	if st.Error() != nil {
		return "", st.Error()
	}
	it := state.NewNodeIterator(st)
	var hs []string
	for it.Next() {
		if it.Hash != (common.Hash{}) {
			hs = append(hs, s.n(it.Hash))
		}
	}
	if it.Error != nil {
		return "", it.Error
	}
	sort.Strings(hs)
	fmt.Fprintf(&b, " walk=%s", strings.Join(hs, ","))
	return b.String(), nil
}

// ---- the sources ---------------------------------------------------------------

func long(tag string) []byte { // a value >= 32 bytes so that its leaf is stored by hash
	return []byte(tag + "-0123456789abcdef0123456789abcdef")
}

func plainSource(name string, kv [][2][]byte) *source {
	disk := youdb.NewMemDatabase()
	tdb := trie.NewDatabase(disk)
	t, err := trie.New(common.Hash{}, tdb)
	if err != nil {
		panic(err)
	}
	for _, p := range kv {
		t.Update(p[0], p[1])
	}
	root, err := t.Commit(nil)
	if err != nil {
		panic(err)
	}
	if err := tdb.Commit(root, false); err != nil {
		panic(err)
	}
	s := &source{name: name, root: root, disk: disk}
	s.index()
	return s
}

func stateSource(name string, build func(st *state.StateDB, round int, db state.Database, prev common.Hash) bool) *source {
	disk := youdb.NewMemDatabase()
	db := state.NewDatabase(disk)
	var root, vr, sr common.Hash
	for round := 0; ; round++ {
		st, err := state.New(root, vr, sr, db)
		if err != nil {
			panic(err)
		}
		more := build(st, round, db, root)
		if root, vr, sr, err = st.Commit(false); err != nil {
			panic(err)
		}
		if err := db.TrieDB().Commit(root, false); err != nil {
			panic(err)
		}
		if !more {
			break
		}
	}
	s := &source{name: name, isState: true, root: root, disk: disk,
		addrs: []common.Address{stx.Acc[0], stx.Acc[1], stx.Acc[2]}, slots: stx.Slots}
	s.index()
	return s
}

func buildSources(big8 bool) []*source {
	var out []*source
	// 1. a single leaf
	out = append(out, plainSource("single-leaf", [][2][]byte{{{0x12, 0x34}, long("only")}}))
	// 2. branch whose small children are embedded (< 32 B) next to hashed ones
	out = append(out, plainSource("embedded-children", [][2][]byte{
		{{0x11}, []byte("a")}, {{0x12}, []byte("b")}, {{0x13}, long("c")}, {{0x24}, long("d")}, {{0x25}, []byte("e")}}))
	// 3. the same node at two paths: twice under one parent (1.. and 4..) and once two levels deeper (2,3,4..)
	out = append(out, plainSource("identical-nodes-two-paths", [][2][]byte{
		{{0x10, 0xaa}, long("same")}, {{0x40, 0xaa}, long("same")},
		{{0x23, 0x40, 0xaa}, long("same")}, {{0x23, 0x5b, 0xbb}, long("other")}}))
	// 4. a value in a branch's 17th slot (one key is a prefix of two others)
	out = append(out, plainSource("value-in-17th-slot", [][2][]byte{
		{{0x12}, []byte("short-in-branch")}, {{0x12, 0x34}, long("x")}, {{0x12, 0x56}, long("y")}, {{0x77}, long("z")}}))
	// 5. two accounts sharing one storage trie (duplicate sub-trie), one with code
	out = append(out, stateSource("shared-storage-root", func(st *state.StateDB, round int, _ state.Database, _ common.Hash) bool {
		for i := 0; i < 2; i++ {
			st.AddBalance(stx.Acc[i], big.NewInt(int64(100+i)))
			st.SetState(stx.Acc[i], stx.Slots[0], common.BigToHash(big.NewInt(7)))
			st.SetState(stx.Acc[i], stx.Slots[1], common.BigToHash(big.NewInt(9)))
		}
		st.SetCode(stx.Acc[1], []byte{0x60, 0x01, 0x60, 0x02})
		return false
	}))
	// 6. account with code + storage, delegator account with a delegations blob
	out = append(out, stateSource("code-and-delegations", func(st *state.StateDB, round int, _ state.Database, _ common.Hash) bool {
		st.AddBalance(stx.Acc[0], big.NewInt(5))
		st.SetNonce(stx.Acc[0], 3)
		st.SetCode(stx.Acc[0], []byte{0x60, 0x00, 0x56})
		st.SetState(stx.Acc[0], stx.Slots[0], common.BigToHash(big.NewInt(1)))
		st.AddBalance(stx.Acc[2], stx.Tok(50, 0))
		stx.CreateVal(st, 0, stx.Tok(10, 7), params.ValidatorOnline)
		st.UpdateDelegation(stx.Acc[2], st.GetValidatorByMainAddr(stx.ValAddr[0]), stx.Tok(2, 1))
		return false
	}))
	// 7. (added to DESIGN's list) a contract whose code bytes are exactly the
	// storage-root node of another account: one hash wanted both as a raw entry
	// and as a trie node with children.  Anyone can create this shape on chain.
	out = append(out, stateSource("code-equals-storage-node", func(st *state.StateDB, round int, db state.Database, prev common.Hash) bool {
		if round == 0 {
			st.AddBalance(stx.Acc[1], big.NewInt(1))
			st.SetState(stx.Acc[1], stx.Slots[0], common.BigToHash(big.NewInt(7)))
			st.SetState(stx.Acc[1], stx.Slots[1], common.BigToHash(big.NewInt(9)))
			return true
		}
		// read account 1's storage root node from the committed database
		t, err := trie.NewSecure(prev, db.TrieDB(), 0)
		if err != nil {
			panic(err)
		}
		var a state.Account
		if err := rlp.DecodeBytes(t.Get(stx.Acc[1][:]), &a); err != nil {
			panic(err)
		}
		blob, err := db.TrieDB().Node(a.Root)
		if err != nil {
			panic(err)
		}
		st.AddBalance(stx.Acc[0], big.NewInt(1))
		st.SetCode(stx.Acc[0], blob)
		return false
	}))
	// 8. (thorough tier) everything at once: two contracts sharing code and
	// storage, a delegator with a delegations blob
	if big8 {
		out = append(out, stateSource("three-accounts-mixed", func(st *state.StateDB, round int, _ state.Database, _ common.Hash) bool {
			for i := 0; i < 2; i++ {
				st.AddBalance(stx.Acc[i], big.NewInt(int64(100+i)))
				st.SetCode(stx.Acc[i], []byte{0x60, 0x01, 0x60, 0x02})
				st.SetState(stx.Acc[i], stx.Slots[0], common.BigToHash(big.NewInt(7)))
				st.SetState(stx.Acc[i], stx.Slots[1], common.BigToHash(big.NewInt(9)))
			}
			st.AddBalance(stx.Acc[2], stx.Tok(50, 0))
			stx.CreateVal(st, 0, stx.Tok(10, 7), params.ValidatorOnline)
			st.UpdateDelegation(stx.Acc[2], st.GetValidatorByMainAddr(stx.ValAddr[0]), stx.Tok(2, 1))
			return false
		}))
	}
	// 9. (thorough tier) a deeper plain trie: two levels of branches, an extension,
	// the same leaf below two different branches, an embedded leaf
	if big8 {
		out = append(out, plainSource("two-level-branches", [][2][]byte{
			{{0x11, 0x1a}, long("a")}, {{0x11, 0x2b}, long("b")}, {{0x12, 0x3c}, long("c")},
			{{0x25, 0x1a}, long("a")}, {{0x25, 0x2d}, long("d")}, {{0x26}, []byte("s")}}))
	}
	return out
}
