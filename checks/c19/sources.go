package c19

import (
	"bytes"
	"fmt"
	"math/big"
	"sort"
	"strings"

	"github.com/youchainhq/go-youchain/common"
	"github.com/youchainhq/go-youchain/core/state"
	"github.com/youchainhq/go-youchain/crypto"
	"github.com/youchainhq/go-youchain/params"
	"github.com/youchainhq/go-youchain/rlp"
	"github.com/youchainhq/go-youchain/trie"
	"github.com/youchainhq/go-youchain/youdb"

	"verif/checks/stx"
	"verif/mc"
)

var (
	emptyRoot = common.HexToHash("56e81f171bcc55a6ff8345e692c0f86e5b48e01b996cadc001622fb5e363b421")
	emptyCode = crypto.Keccak256Hash(nil)
)

// source is one immutable synchronisation source: the committed database of a
// small trie / state plus the reference graph computed by an INDEPENDENT node
// parser (plain RLP splitting, no trie package code), which is what the oracles
// compare the destination against.
type source struct {
	name    string
	isState bool
	root    common.Hash // = roots[0]
	disk    *youdb.MemDatabase

	// A source FAMILY has more than one root: roots[0] is the state the sync is
	// started on, roots[1] a newer state of the same accounts (one account
	// changed), which the sync is restarted on when the pivot moves (op pivot).
	// nodes/kids/kind/order/idx cover the union of all roots; reach[t] is the
	// set reachable from roots[t]; contents[t] the real readers' view of roots[t].
	roots    []common.Hash
	reach    []map[common.Hash]bool
	contents []string
	shared   map[common.Hash]bool // raw blobs referenced by two or more account leaves of one root

	nodes map[common.Hash][]byte        // every blob reachable from a root (trie nodes, code, delegation blobs)
	kids  map[common.Hash][]common.Hash // direct references of a blob, union over every context it is reached in
	order []common.Hash                 // nodes sorted by hash: index = short name nI
	idx   map[common.Hash]int
	kind  map[common.Hash]string // "acct" | "trie" | "raw" | mixed "raw+trie"

	addrs   []common.Address // state sources: accounts to observe through the real StateDB
	slots   []common.Hash
	foreign []byte // a well-formed trie node that is not part of the source
}

// label names the root a verdict is about: the plain source name for the
// first root, name@rootN for the newer roots of a family.
func (s *source) label(t int) string {
	if t == 0 {
		return s.name
	}
	return fmt.Sprintf("%s@root%d", s.name, t+1)
}

// allowed: may h be in the destination while (or after) roots[t] is synced?
// Nodes of an older root stay behind when the pivot moves; nodes that only a
// newer root has must not appear before the pivot moved.
func (s *source) allowed(h common.Hash, t int) bool {
	for i := 0; i <= t && i < len(s.reach); i++ {
		if s.reach[i][h] {
			return true
		}
	}
	return false
}

func (s *source) n(h common.Hash) string {
	if i, ok := s.idx[h]; ok {
		return fmt.Sprintf("n%d", i)
	}
	return fmt.Sprintf("?%x", h[:3])
}

func (s *source) names(hs []common.Hash) string {
	var out []string
	for _, h := range hs {
		out = append(out, s.n(h))
	}
	return strings.Join(out, ",")
}

// ---- independent node parser -------------------------------------------------

type refs struct {
	trieKids []common.Hash // hash references to nodes of the same trie
	storage  []common.Hash // storage roots referenced by account leaves
	raws     []common.Hash // code / delegation blobs referenced by account leaves
}

func parseNode(buf []byte, acct bool, out *refs) error {
	elems, _, err := rlp.SplitList(buf)
	if err != nil {
		return err
	}
	n, err := rlp.CountValues(elems)
	if err != nil {
		return err
	}
	switch n {
	case 2:
		kbuf, rest, err := rlp.SplitString(elems)
		if err != nil {
			return err
		}
		if len(kbuf) > 0 && kbuf[0]&0x20 != 0 { // compact key with terminator: leaf
			val, _, err := rlp.SplitString(rest)
			if err != nil {
				return err
			}
			if acct {
				return parseAccount(val, out)
			}
			return nil
		}
		_, err = parseRef(rest, acct, out)
		return err
	case 17:
		rest := elems
		for i := 0; i < 16; i++ {
			if rest, err = parseRef(rest, acct, out); err != nil {
				return err
			}
		}
		val, _, err := rlp.SplitString(rest)
		if err != nil {
			return err
		}
		if len(val) > 0 && acct {
			return parseAccount(val, out)
		}
		return nil
	}
	return fmt.Errorf("node with %d elements", n)
}

func parseRef(buf []byte, acct bool, out *refs) ([]byte, error) {
	kind, val, rest, err := rlp.Split(buf)
	if err != nil {
		return nil, err
	}
	switch {
	case kind == rlp.List:
		return rest, parseNode(buf[:len(buf)-len(rest)], acct, out)
	case kind == rlp.String && len(val) == 32:
		out.trieKids = append(out.trieKids, common.BytesToHash(val))
	case kind == rlp.String && len(val) == 0:
	default:
		return nil, fmt.Errorf("bad reference of %d bytes", len(val))
	}
	return rest, nil
}

func parseAccount(val []byte, out *refs) error {
	var a state.Account
	if err := rlp.DecodeBytes(val, &a); err != nil {
		return err
	}
	if a.Root != emptyRoot && a.Root != (common.Hash{}) {
		out.storage = append(out.storage, a.Root)
	}
	if ch := common.BytesToHash(a.CodeHash); ch != emptyCode {
		out.raws = append(out.raws, ch)
	}
	if len(a.DelegationsHash) > 0 {
		out.raws = append(out.raws, common.BytesToHash(a.DelegationsHash))
	}
	return nil
}

// index walks the source from its root with the independent parser.
func (s *source) index() {
	s.nodes = map[common.Hash][]byte{}
	s.kids = map[common.Hash][]common.Hash{}
	s.kind = map[common.Hash]string{}
	type vk struct {
		h   common.Hash
		ctx string
	}
	seen := map[vk]bool{}
	var visit func(h common.Hash, ctx string)
	visit = func(h common.Hash, ctx string) {
		if seen[vk{h, ctx}] {
			return
		}
		seen[vk{h, ctx}] = true
		blob, err := s.disk.Get(h[:])
		if err != nil || len(blob) == 0 {
			panic(fmt.Sprintf("c19: source %s lacks %x (%s)", s.name, h, ctx))
		}
		if crypto.Keccak256Hash(blob) != h {
			panic("c19: source blob does not hash to its key")
		}
		s.nodes[h] = blob
		if k := s.kind[h]; k == "" {
			s.kind[h] = ctx
		} else if !strings.Contains(k, ctx) {
			ks := append(strings.Split(k, "+"), ctx)
			sort.Strings(ks)
			s.kind[h] = strings.Join(ks, "+")
		}
		if ctx == "raw" {
			return
		}
		var r refs
		if err := parseNode(blob, ctx == "acct", &r); err != nil {
			panic(fmt.Sprintf("c19: source %s node %x: %v", s.name, h, err))
		}
		add := func(c common.Hash) {
			for _, k := range s.kids[h] {
				if k == c {
					return
				}
			}
			s.kids[h] = append(s.kids[h], c)
		}
		for _, c := range r.trieKids {
			add(c)
			visit(c, ctx)
		}
		for _, c := range r.storage {
			add(c)
			visit(c, "trie")
		}
		for _, c := range r.raws {
			add(c)
			visit(c, "raw")
		}
	}
	if len(s.roots) == 0 {
		s.roots = []common.Hash{s.root}
	}
	s.root = s.roots[0]
	for _, root := range s.roots {
		if s.isState {
			visit(root, "acct")
		} else {
			visit(root, "trie")
		}
	}
	// per-root reachability over the reference graph, and the blobs shared by
	// several account leaves of one root
	s.shared = map[common.Hash]bool{}
	for _, root := range s.roots {
		in := map[common.Hash]bool{}
		refs := map[common.Hash]int{}
		var walk func(h common.Hash)
		walk = func(h common.Hash) {
			if in[h] {
				return
			}
			in[h] = true
			for _, c := range s.kids[h] {
				if s.kind[c] == "raw" {
					refs[c]++
				}
				walk(c)
			}
		}
		walk(root)
		s.reach = append(s.reach, in)
		for c, n := range refs {
			if n > 1 {
				s.shared[c] = true
			}
		}
	}
	for h := range s.nodes {
		s.order = append(s.order, h)
	}
	sort.Slice(s.order, func(i, j int) bool { return bytes.Compare(s.order[i][:], s.order[j][:]) < 0 })
	s.idx = map[common.Hash]int{}
	for i, h := range s.order {
		s.idx[h] = i
	}
	// a well-formed leaf node that cannot be part of any source (unique value)
	s.foreign, _ = rlp.EncodeToBytes([]interface{}{[]byte{0x20, 0xfe, 0xed}, []byte("foreign-node-not-in-any-source-trie-0123456789")})
	if _, ok := s.nodes[crypto.Keccak256Hash(s.foreign)]; ok {
		panic("c19: foreign node collides")
	}
	for t := range s.roots {
		c, err := s.observe(s.disk, t)
		if err != nil {
			panic("c19: cannot observe source " + s.label(t) + ": " + err.Error())
		}
		s.contents = append(s.contents, c)
	}
}

func (s *source) describe() string {
	var out []string
	for i, h := range s.order {
		out = append(out, fmt.Sprintf("n%d=%s(%dB)->[%s]", i, s.kind[h], len(s.nodes[h]), s.names(s.kids[h])))
	}
	roots := "root=" + s.n(s.root)
	for t := 1; t < len(s.roots); t++ {
		roots += fmt.Sprintf(" root%d=%s", t+1, s.n(s.roots[t]))
	}
	return s.name + ": " + roots + " " + strings.Join(out, " ")
}

// observe reads the complete content through the REAL reader code (trie
// iterator / StateDB + state NodeIterator) from any database.
func (s *source) observe(db youdb.Database, t int) (out string, err error) {
	if msg := mc.Catch(func() { out, err = s.observe0(db, s.roots[t]) }); msg != "" {
		return "", fmt.Errorf("panic: %s", msg)
	}
	return
}

func (s *source) observe0(db youdb.Database, root common.Hash) (string, error) {
	var b strings.Builder
	if !s.isState {
		t, err := trie.New(root, trie.NewDatabase(db))
		if err != nil {
			return "", err
		}
		it := trie.NewIterator(t.NodeIterator(nil))
		for it.Next() {
			fmt.Fprintf(&b, "%x=%x;", it.Key, it.Value)
		}
		if it.Err != nil {
			return "", it.Err
		}
		nit := t.NodeIterator(nil)
		n := 0
		for nit.Next(true) {
			n++
		}
		if nit.Error() != nil {
			return "", nit.Error()
		}
		fmt.Fprintf(&b, "nodes=%d", n)
		return b.String(), nil
	}
	st, err := state.New(root, common.Hash{}, common.Hash{}, state.NewDatabase(db))
	if err != nil {
		return "", err
	}
	for _, a := range s.addrs {
		fmt.Fprintf(&b, "%x{ex=%v bal=%v n=%d code=%x", a[:2], st.Exist(a), st.GetBalance(a), st.GetNonce(a), st.GetCode(a))
		for _, sl := range s.slots {
			fmt.Fprintf(&b, " s%x=%x", sl[31:], st.GetState(a, sl).Big())
		}
		if st.Error() != nil {
			return "", st.Error()
		}
		fmt.Fprintf(&b, " dlgbal=%v dlg=%x}", st.VerifDelegationBalance(a), st.VerifDelegations(a))
	}
	if st.Error() != nil {
		return "", st.Error()
	}
	it := state.NewNodeIterator(st)
	var hs []string
	for it.Next() {
		if it.Hash != (common.Hash{}) {
			hs = append(hs, s.n(it.Hash))
		}
	}
	if it.Error != nil {
		return "", it.Error
	}
	sort.Strings(hs)
	fmt.Fprintf(&b, " walk=%s", strings.Join(hs, ","))
	return b.String(), nil
}

// ---- the sources ---------------------------------------------------------------

func long(tag string) []byte { // a value >= 32 bytes so that its leaf is stored by hash
	return []byte(tag + "-0123456789abcdef0123456789abcdef")
}

func plainSource(name string, kv [][2][]byte) *source {
	disk := youdb.NewMemDatabase()
	tdb := trie.NewDatabase(disk)
	t, err := trie.New(common.Hash{}, tdb)
	if err != nil {
		panic(err)
	}
	for _, p := range kv {
		t.Update(p[0], p[1])
	}
	root, err := t.Commit(nil)
	if err != nil {
		panic(err)
	}
	if err := tdb.Commit(root, false); err != nil {
		panic(err)
	}
	s := &source{name: name, root: root, disk: disk}
	s.index()
	return s
}

func stateSource(name string, build func(st *state.StateDB, round int, db state.Database, prev common.Hash) bool) *source {
	disk := youdb.NewMemDatabase()
	db := state.NewDatabase(disk)
	var root, vr, sr common.Hash
	for round := 0; ; round++ {
		st, err := state.New(root, vr, sr, db)
		if err != nil {
			panic(err)
		}
		more := build(st, round, db, root)
		if root, vr, sr, err = st.Commit(false); err != nil {
			panic(err)
		}
		if err := db.TrieDB().Commit(root, false); err != nil {
			panic(err)
		}
		if !more {
			break
		}
	}
	s := &source{name: name, isState: true, root: root, disk: disk,
		addrs: []common.Address{stx.Acc[0], stx.Acc[1], stx.Acc[2]}, slots: stx.Slots}
	s.index()
	return s
}

// stateFamily commits one state per round on top of the previous one; every
// round's root is a root of the family (roots[0] = oldest).
func stateFamily(name string, addrs []common.Address, rounds ...func(st *state.StateDB)) *source {
	disk := youdb.NewMemDatabase()
	db := state.NewDatabase(disk)
	var root, vr, sr common.Hash
	var roots []common.Hash
	for _, build := range rounds {
		st, err := state.New(root, vr, sr, db)
		if err != nil {
			panic(err)
		}
		build(st)
		if root, vr, sr, err = st.Commit(false); err != nil {
			panic(err)
		}
		if err := db.TrieDB().Commit(root, false); err != nil {
			panic(err)
		}
		roots = append(roots, root)
	}
	s := &source{name: name, isState: true, roots: roots, disk: disk, addrs: addrs, slots: stx.Slots}
	s.index()
	return s
}

// leafOf returns the account-trie node that holds addr's account in roots[t]
// (found by decoding every "acct" node's own leaves with the independent parser
// is not possible without the key, so the real secure trie's iterator is used:
// harness-side shape assertion only, never an oracle).
func (s *source) leafOf(t int, addr common.Address) common.Hash {
	tr, err := trie.New(s.roots[t], trie.NewDatabase(s.disk))
	if err != nil {
		panic(err)
	}
	want := crypto.Keccak256(addr[:])
	it := tr.NodeIterator(nil)
	for it.Next(true) {
		if it.Leaf() && bytes.Equal(it.LeafKey(), want) {
			return it.Parent()
		}
	}
	panic(fmt.Sprintf("c19: source %s has no account %x", s.name, addr))
}

// parentsOf: nodes of roots[t] that reference h.
func (s *source) parentsOf(t int, h common.Hash) (out []common.Hash) {
	for _, p := range s.order {
		if !s.reach[t][p] {
			continue
		}
		for _, c := range s.kids[p] {
			if c == h {
				out = append(out, p)
			}
		}
	}
	return
}

func (s *source) must(cond bool, what string) {
	if !cond {
		panic("c19: source " + s.name + " has not the intended shape: " + what + "\n" + s.describe())
	}
}

// A fourth account for the shared-blob sources.  Secure-trie keys start with
// nibble a (stx.Acc[0]), 2 (Acc[1]), d,b (Acc[2]) and d,3 (acc4): Acc[2] and
// acc4 sit below a common sub-branch, the others directly below the root.  The
// shape every source relies on is asserted after building it.
var acc4 = common.HexToAddress("0xa000000000000000000000000000000000000005")

var (
	codeX = []byte{0x60, 0x01, 0x60, 0x02}
	codeY = []byte{0x60, 0x00, 0x60, 0x00, 0xfd}
)

// sharedBlobSources: sources in which one code blob and/or one delegation blob
// is referenced by two or three account leaves (a token contract deployed many
// times; many delegators of one validator), most of them as a family whose
// second root is the state a block later: ONE of the sharing accounts changed.
func sharedBlobSources(all bool) []*source {
	var out []*source
	raw := func(s *source, t int, blob []byte) common.Hash {
		h := crypto.Keccak256Hash(blob)
		s.must(s.reach[t][h] && s.kind[h] == "raw", fmt.Sprintf("blob %x is a raw node of root %d", blob, t+1))
		return h
	}

	// 10. two contracts with the same code, directly below the root branch, the
	// second one also a delegator (its leaf waits for a code AND a delegations
	// blob); a block later the first one has other code (the shared blob is then
	// referenced by the unchanged account only)
	s := stateFamily("shared-code-2", []common.Address{stx.Acc[0], stx.Acc[1]},
		func(st *state.StateDB) {
			stx.CreateVal(st, 0, stx.Tok(10, 7), params.ValidatorOnline)
			for i := 0; i < 2; i++ {
				st.AddBalance(stx.Acc[i], stx.Tok(50, int64(i)))
				st.SetCode(stx.Acc[i], codeX)
			}
			st.UpdateDelegation(stx.Acc[1], st.GetValidatorByMainAddr(stx.ValAddr[0]), stx.Tok(2, 1))
		},
		func(st *state.StateDB) { st.SetCode(stx.Acc[0], codeY) })
	x := raw(s, 0, codeX)
	s.must(s.shared[x] && len(s.parentsOf(0, x)) == 2 && len(s.parentsOf(1, x)) == 1, "code X: two leaves, then one")
	s.must(len(s.kids[s.leafOf(0, stx.Acc[1])]) == 2, "the leaf of account 1 references a code and a delegations blob")
	s.must(s.leafOf(1, stx.Acc[1]) == s.leafOf(0, stx.Acc[1]) && s.leafOf(1, stx.Acc[0]) != s.leafOf(0, stx.Acc[0]), "only account 0 changes")
	raw(s, 1, codeY)
	out = append(out, s)

	// 11. two delegators of one validator: one delegations blob (the sorted list
	// of validators delegated to); a block later the first one also delegates to
	// a second validator
	s = stateFamily("shared-delegations-2", []common.Address{stx.Acc[1], stx.Acc[2]},
		func(st *state.StateDB) {
			stx.CreateVal(st, 0, stx.Tok(10, 7), params.ValidatorOnline)
			stx.CreateVal(st, 1, stx.Tok(10, 7), params.ValidatorOnline)
			for i := 1; i <= 2; i++ {
				st.AddBalance(stx.Acc[i], stx.Tok(50, int64(i)))
				st.UpdateDelegation(stx.Acc[i], st.GetValidatorByMainAddr(stx.ValAddr[0]), stx.Tok(2, 1))
			}
		},
		func(st *state.StateDB) {
			st.UpdateDelegation(stx.Acc[1], st.GetValidatorByMainAddr(stx.ValAddr[1]), stx.Tok(1, 0))
		})
	var dl []common.Hash
	for h := range s.shared {
		dl = append(dl, h)
	}
	s.must(len(dl) == 1 && len(s.parentsOf(0, dl[0])) == 2 && len(s.parentsOf(1, dl[0])) == 1, "one delegations blob: two leaves, then one")
	s.must(s.leafOf(1, stx.Acc[2]) == s.leafOf(0, stx.Acc[2]) && s.leafOf(1, stx.Acc[1]) != s.leafOf(0, stx.Acc[1]), "only delegator 1 changes")
	out = append(out, s)

	// 12. three contracts with the same code in different sub-tries: one
	// directly below the root, two below a common sub-branch; a block later one
	// of the two below the sub-branch has other code
	three := []common.Address{stx.Acc[0], stx.Acc[2], acc4}
	build3 := func(st *state.StateDB) {
		for i, a := range three {
			st.AddBalance(a, big.NewInt(int64(100+i)))
			st.SetCode(a, codeX)
		}
	}
	shape3 := func(s *source) {
		x := raw(s, 0, codeX)
		s.must(s.shared[x] && len(s.parentsOf(0, x)) == 3, "code X: three leaves")
		l0, l2, l4 := s.leafOf(0, three[0]), s.leafOf(0, three[1]), s.leafOf(0, three[2])
		p0, p2, p4 := s.parentsOf(0, l0), s.parentsOf(0, l2), s.parentsOf(0, l4)
		s.must(len(p0) == 1 && len(p2) == 1 && len(p4) == 1 && p0[0] == s.root && p2[0] == p4[0] && p2[0] != s.root, "one leaf below the root, two below a sub-branch")
	}
	s = stateFamily("shared-code-3-subtries", three, build3, func(st *state.StateDB) { st.SetCode(acc4, codeY) })
	shape3(s)
	s.must(len(s.parentsOf(1, raw(s, 1, codeX))) == 2 && s.leafOf(1, three[1]) == s.leafOf(0, three[1]), "code X: two unchanged leaves in the newer root")
	out = append(out, s)

	// 13. both kinds at once: account 0 has code X, account 2 has code X and
	// delegates to validator 0, account 4 delegates to validator 0 (so the leaf of
	// account 2 waits for two blobs, each shared with another leaf); a block later
	// account 2 has other code
	if all {
		s = stateFamily("shared-code-and-delegations-3", three,
			func(st *state.StateDB) {
				stx.CreateVal(st, 0, stx.Tok(10, 7), params.ValidatorOnline)
				for i, a := range three {
					st.AddBalance(a, stx.Tok(50, int64(i)))
				}
				st.SetCode(three[0], codeX)
				st.SetCode(three[1], codeX)
				st.UpdateDelegation(three[1], st.GetValidatorByMainAddr(stx.ValAddr[0]), stx.Tok(2, 1))
				st.UpdateDelegation(three[2], st.GetValidatorByMainAddr(stx.ValAddr[0]), stx.Tok(2, 1))
			},
			func(st *state.StateDB) { st.SetCode(three[1], codeY) })
		x := raw(s, 0, codeX)
		l2 := s.leafOf(0, three[1])
		s.must(len(s.shared) == 2 && s.shared[x] && len(s.kids[l2]) == 2 && s.shared[s.kids[l2][0]] && s.shared[s.kids[l2][1]], "the leaf of account 2 references two shared blobs")
		s.must(len(s.parentsOf(1, x)) == 1 && s.leafOf(1, three[0]) == s.leafOf(0, three[0]) && s.leafOf(1, three[2]) == s.leafOf(0, three[2]), "only account 2 changes")
		out = append(out, s)
	}
	return out
}

func buildSources(big8 bool) []*source {
	var out []*source
	// 1. a single leaf
	out = append(out, plainSource("single-leaf", [][2][]byte{{{0x12, 0x34}, long("only")}}))
	// 2. branch whose small children are embedded (< 32 B) next to hashed ones
	out = append(out, plainSource("embedded-children", [][2][]byte{
		{{0x11}, []byte("a")}, {{0x12}, []byte("b")}, {{0x13}, long("c")}, {{0x24}, long("d")}, {{0x25}, []byte("e")}}))
	// 3. the same node at two paths: twice under one parent (1.. and 4..) and once two levels deeper (2,3,4..)
	out = append(out, plainSource("identical-nodes-two-paths", [][2][]byte{
		{{0x10, 0xaa}, long("same")}, {{0x40, 0xaa}, long("same")},
		{{0x23, 0x40, 0xaa}, long("same")}, {{0x23, 0x5b, 0xbb}, long("other")}}))
	// 4. a value in a branch's 17th slot (one key is a prefix of two others)
	out = append(out, plainSource("value-in-17th-slot", [][2][]byte{
		{{0x12}, []byte("short-in-branch")}, {{0x12, 0x34}, long("x")}, {{0x12, 0x56}, long("y")}, {{0x77}, long("z")}}))
	// 5. two accounts sharing one storage trie (duplicate sub-trie), one with code
	out = append(out, stateSource("shared-storage-root", func(st *state.StateDB, round int, _ state.Database, _ common.Hash) bool {
		for i := 0; i < 2; i++ {
			st.AddBalance(stx.Acc[i], big.NewInt(int64(100+i)))
			st.SetState(stx.Acc[i], stx.Slots[0], common.BigToHash(big.NewInt(7)))
			st.SetState(stx.Acc[i], stx.Slots[1], common.BigToHash(big.NewInt(9)))
		}
		st.SetCode(stx.Acc[1], []byte{0x60, 0x01, 0x60, 0x02})
		return false
	}))
	// 6. account with code + storage, delegator account with a delegations blob
	out = append(out, stateSource("code-and-delegations", func(st *state.StateDB, round int, _ state.Database, _ common.Hash) bool {
		st.AddBalance(stx.Acc[0], big.NewInt(5))
		st.SetNonce(stx.Acc[0], 3)
		st.SetCode(stx.Acc[0], []byte{0x60, 0x00, 0x56})
		st.SetState(stx.Acc[0], stx.Slots[0], common.BigToHash(big.NewInt(1)))
		st.AddBalance(stx.Acc[2], stx.Tok(50, 0))
		stx.CreateVal(st, 0, stx.Tok(10, 7), params.ValidatorOnline)
		st.UpdateDelegation(stx.Acc[2], st.GetValidatorByMainAddr(stx.ValAddr[0]), stx.Tok(2, 1))
		return false
	}))
	// 7. (added to DESIGN's list) a contract whose code bytes are exactly the
	// storage-root node of another account: one hash wanted both as a raw entry
	// and as a trie node with children.  Anyone can create this shape on chain.
	out = append(out, stateSource("code-equals-storage-node", func(st *state.StateDB, round int, db state.Database, prev common.Hash) bool {
		if round == 0 {
			st.AddBalance(stx.Acc[1], big.NewInt(1))
			st.SetState(stx.Acc[1], stx.Slots[0], common.BigToHash(big.NewInt(7)))
			st.SetState(stx.Acc[1], stx.Slots[1], common.BigToHash(big.NewInt(9)))
			return true
		}
		// read account 1's storage root node from the committed database
		t, err := trie.NewSecure(prev, db.TrieDB(), 0)
		if err != nil {
			panic(err)
		}
		var a state.Account
		if err := rlp.DecodeBytes(t.Get(stx.Acc[1][:]), &a); err != nil {
			panic(err)
		}
		blob, err := db.TrieDB().Node(a.Root)
		if err != nil {
			panic(err)
		}
		st.AddBalance(stx.Acc[0], big.NewInt(1))
		st.SetCode(stx.Acc[0], blob)
		return false
	}))
	// 8. (thorough tier) everything at once: two contracts sharing code and
	// storage, a delegator with a delegations blob
	if big8 {
		out = append(out, stateSource("three-accounts-mixed", func(st *state.StateDB, round int, _ state.Database, _ common.Hash) bool {
			for i := 0; i < 2; i++ {
				st.AddBalance(stx.Acc[i], big.NewInt(int64(100+i)))
				st.SetCode(stx.Acc[i], []byte{0x60, 0x01, 0x60, 0x02})
				st.SetState(stx.Acc[i], stx.Slots[0], common.BigToHash(big.NewInt(7)))
				st.SetState(stx.Acc[i], stx.Slots[1], common.BigToHash(big.NewInt(9)))
			}
			st.AddBalance(stx.Acc[2], stx.Tok(50, 0))
			stx.CreateVal(st, 0, stx.Tok(10, 7), params.ValidatorOnline)
			st.UpdateDelegation(stx.Acc[2], st.GetValidatorByMainAddr(stx.ValAddr[0]), stx.Tok(2, 1))
			return false
		}))
	}
	// 10.. sources with a code / delegations blob shared by several accounts
	out = append(out, sharedBlobSources(big8)...)
	// 9. (thorough tier) a deeper plain trie: two levels of branches, an extension,
	// the same leaf below two different branches, an embedded leaf
	if big8 {
		out = append(out, plainSource("two-level-branches", [][2][]byte{
			{{0x11, 0x1a}, long("a")}, {{0x11, 0x2b}, long("b")}, {{0x12, 0x3c}, long("c")},
			{{0x25, 0x1a}, long("a")}, {{0x25, 0x2d}, long("d")}, {{0x26}, []byte("s")}}))
	}
	return out
}
