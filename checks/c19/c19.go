// Package c19: state/trie sync reproduces the source exactly or reports
// incompleteness.
//
// BFS (de-duplicated on the complete scheduler + destination state) over every
// schedule of the REAL trie.Sync / state.NewStateSync: Missing(k), delivery of
// any wanted node in any order (through the downloader's real
// hash-then-Process step, trieSync.processNodeData), duplicates, corrupted
// bytes, unrequested nodes, commits (trieSync.commit into a write-logging
// CrashDB) and interruptions (a new Sync on whatever reached the database).
//
// Source families (sources with a second, newer root) add op pivot: the new
// Sync is started for the NEWER root on the database as it stands, as the
// downloader does when the pivot block moves during fast sync.
package c19

import (
	"bytes"
	"fmt"
	"os"
	"sort"
	"strings"
	"sync"

	"github.com/youchainhq/go-youchain/common"
	"github.com/youchainhq/go-youchain/core/state"
	"github.com/youchainhq/go-youchain/core/types"
	"github.com/youchainhq/go-youchain/crypto"
	"github.com/youchainhq/go-youchain/trie"
	"github.com/youchainhq/go-youchain/you/downloader"

	"verif/mc"
)

// Sys drives one real Sync over one source.
type Sys struct {
	r   *mc.Run
	src *source

	db     *mc.CrashDB
	sched  *trie.Sync
	ts     *downloader.VerifTrieSync
	target int // index of the root being synced (0 until the pivot moved)

	seen        map[common.Hash]int  // every hash that was a pending request since the last (re)start -> its queue priority (depth at first scheduling)
	popped      map[common.Hash]bool // handed out by Missing since the last (re)start
	outstanding map[common.Hash]bool // popped and still wanted
	checkedLog  int                  // write records already covered by the prefix oracle
	key         string
	counting    bool
	dead        bool
	viols       []mc.Violation
}

func newSys(r *mc.Run, src *source) *Sys { return &Sys{r: r, src: src} }

func (s *Sys) start() {
	s.sched = s.src.newSync(s.target, s.db)
	// kind is only used for logging and for the KindState statistics, which need a Downloader
	s.ts = downloader.VerifNewTrieSync(types.KindValidator, s.db, s.sched)
	s.seen, s.popped, s.outstanding = map[common.Hash]int{}, map[common.Hash]bool{}, map[common.Hash]bool{}
	s.refresh()
}

func (s *Sys) Reset() {
	s.db = mc.NewCrashDB()
	s.checkedLog, s.dead, s.viols, s.target = 0, false, nil, 0
	s.start()
}

func (src *source) newSync(t int, db *mc.CrashDB) *trie.Sync {
	if src.isState {
		return state.NewStateSync(src.roots[t], db)
	}
	return trie.NewSync(src.roots[t], db, nil)
}

type view struct {
	reqs   []trie.VerifSyncReq
	req    map[common.Hash]*trie.VerifSyncReq
	memb   []common.Hash
	inMemb map[common.Hash]bool
	inDB   map[common.Hash]bool
	alien  []string // database keys that are not source hashes
}

func (s *Sys) view() *view {
	v := &view{req: map[common.Hash]*trie.VerifSyncReq{}, inMemb: map[common.Hash]bool{}, inDB: map[common.Hash]bool{}}
	v.reqs = s.sched.VerifRequests()
	for i := range v.reqs {
		v.req[v.reqs[i].Hash] = &v.reqs[i]
	}
	v.memb = s.sched.VerifMembatch()
	for _, h := range v.memb {
		v.inMemb[h] = true
	}
	for _, k := range s.db.Keys() {
		if len(k) == 32 {
			h := common.BytesToHash([]byte(k))
			if _, ok := s.src.nodes[h]; ok {
				v.inDB[h] = true
				continue
			}
		}
		v.alien = append(v.alien, fmt.Sprintf("%x", k))
	}
	sort.Strings(v.alien)
	return v
}

// refresh recomputes the harness bookkeeping and the canonical key from the
// real objects.
//
// Key = every pending request (hash, delivered?, raw?, callback?, dependency
// count, parent list in stored order) + flush-ordered membatch + set of hashes still in
// the scheduler's fetch queue + set handed out and still wanted + destination
// key set.  Why merged states have the same futures: Process/Commit/Pending
// read exactly requests, membatch and the database (all in the key); the fetch
// queue only feeds Missing and is in the key as priority groups (priority =
// depth at first scheduling).  The order inside one priority group depends on
// heap internals; the driver only calls Missing(k) with k at a group boundary,
// so the returned set is a function of the key, and it may deliver every wanted
// node whether or not it was handed out yet (op early(n)), so no delivery order
// is lost by that.  Node bytes are a function of the hash.
func (s *Sys) refresh() *view {
	v := s.view()
	for _, q := range v.reqs {
		if _, ok := s.seen[q.Hash]; !ok {
			s.seen[q.Hash] = q.Depth
		}
	}
	for h := range s.outstanding {
		if q := v.req[h]; q == nil || q.HasData {
			delete(s.outstanding, h)
		}
	}
	var b strings.Builder
	if s.target > 0 {
		fmt.Fprintf(&b, "T%d ", s.target+1)
	}
	b.WriteString("R")
	for _, q := range v.reqs {
		// parents in stored order: it decides the order in which they are
		// committed into the membatch, i.e. the write order
		ps := make([]int, 0, len(q.Parents))
		for _, p := range q.Parents {
			ps = append(ps, s.idxOf(p))
		}
		fl := ""
		if q.HasData {
			fl += "D"
		}
		if q.Raw {
			fl += "R"
		}
		if q.HasCallback {
			fl += "C"
		}
		fmt.Fprintf(&b, " %s:%s:%d:%v", s.src.n(q.Hash), fl, q.Deps, ps)
	}
	b.WriteString(" |M " + s.src.names(v.memb))
	b.WriteString(" |Q")
	for _, g := range s.queueGroups() {
		fmt.Fprintf(&b, " %d:%s", g.depth, s.setStr(g.set))
	}
	b.WriteString(" |O " + s.setStr(s.outstanding))
	b.WriteString(" |D " + s.setStr(v.inDB))
	if len(v.alien) > 0 {
		b.WriteString(" |X " + strings.Join(v.alien, ","))
	}
	s.key = b.String()
	if n := len(s.queued()); n != s.sched.VerifQueueSize() {
		s.r.HarnessError(fmt.Sprintf("c19: fetch-queue model (%d) differs from real queue size (%d)", n, s.sched.VerifQueueSize()))
	}
	return v
}

func (s *Sys) idxOf(h common.Hash) int {
	if i, ok := s.src.idx[h]; ok {
		return i
	}
	return -1
}

type qgroup struct {
	depth int
	set   map[common.Hash]bool
}

// queueGroups: the fetch queue's content grouped by priority, first-popped
// group first (prque pops the highest priority = deepest first; the order
// inside a group depends on heap internals and is never relied on).
func (s *Sys) queueGroups() []qgroup {
	by := map[int]map[common.Hash]bool{}
	for h := range s.queued() {
		d := s.seen[h]
		if by[d] == nil {
			by[d] = map[common.Hash]bool{}
		}
		by[d][h] = true
	}
	var ds []int
	for d := range by {
		ds = append(ds, d)
	}
	sort.Sort(sort.Reverse(sort.IntSlice(ds)))
	var out []qgroup
	for _, d := range ds {
		out = append(out, qgroup{d, by[d]})
	}
	return out
}

func (s *Sys) queued() map[common.Hash]bool {
	q := map[common.Hash]bool{}
	for h := range s.seen {
		if !s.popped[h] {
			q[h] = true
		}
	}
	return q
}

func (s *Sys) setStr(m map[common.Hash]bool) string {
	is := make([]int, 0, len(m))
	for h := range m {
		is = append(is, s.idxOf(h))
	}
	sort.Ints(is)
	return fmt.Sprint(is)
}

func (s *Sys) sorted(m map[common.Hash]bool) []common.Hash {
	hs := make([]common.Hash, 0, len(m))
	for h := range m {
		hs = append(hs, h)
	}
	sort.Slice(hs, func(i, j int) bool { return bytes.Compare(hs[i][:], hs[j][:]) < 0 })
	return hs
}

func (s *Sys) Key() string { return s.src.name + "#" + s.key }

func (s *Sys) Enabled() []string {
	if s.dead {
		return nil
	}
	v := s.view()
	var ops []string
	if s.sched.Pending() == 0 {
		// the production loop has left `for Pending() > 0`; only its final forced
		// commit - or a crash before it - can follow
		if len(v.memb) > 0 {
			return append([]string{"commit", "interrupt"}, s.pivotOp()...)
		}
		// complete and flushed: only a move to a newer root can follow (a sync of
		// the newer state on top of the complete older one)
		return s.pivotOp()
	}
	// Missing(k) for every k that ends at a priority-group boundary of the fetch
	// queue (so that the returned SET does not depend on heap tie-breaking)
	k := 0
	for _, g := range s.queueGroups() {
		k += len(g.set)
		ops = append(ops, fmt.Sprintf("missing(%d)", k))
	}
	for _, h := range s.sorted(s.outstanding) {
		ops = append(ops, "deliver("+s.src.n(h)+")")
	}
	for _, q := range v.reqs {
		if !q.HasData && !s.outstanding[q.Hash] {
			ops = append(ops, "early("+s.src.n(q.Hash)+")")
		}
	}
	if len(v.memb) > 0 {
		ops = append(ops, "commit")
	}
	ops = append(ops, "interrupt")
	ops = append(ops, s.pivotOp()...)
	// faults; every one of them must leave the state unchanged
	for _, h := range s.src.order {
		q := v.req[h]
		switch {
		case q != nil && q.HasData, v.inMemb[h], v.inDB[h]:
			ops = append(ops, "dup("+s.src.n(h)+")")
		case q == nil:
			ops = append(ops, "unreq("+s.src.n(h)+")")
		}
	}
	for _, h := range s.sorted(s.outstanding) {
		ops = append(ops, "flip("+s.src.n(h)+")", "trunc("+s.src.n(h)+")")
	}
	ops = append(ops, "foreign")
	return ops
}

func (s *Sys) pivotOp() []string {
	if s.target+1 < len(s.src.roots) {
		return []string{"pivot"}
	}
	return nil
}

func (s *Sys) Apply(op string) string {
	s.viols = s.viols[:0]
	s.counting = firstTime(s.Key(), op)
	var ob string
	msg, where := mc.CatchStack(func() { ob = s.apply(op) })
	if msg != "" {
		s.dead = true
		ob = "PANIC: " + msg
		s.viols = append(s.viols, mc.Violation{
			Sig:    fmt.Sprintf("panic in %s on source %s at %s", opKind(op), s.src.name, where),
			Detail: fmt.Sprintf("%s panicked: %s (at %s)", op, msg, where)})
		s.key = "PANIC " + op + " after " + s.key
	}
	return ob
}

func opKind(op string) string {
	if i := strings.Index(op, "("); i > 0 {
		return op[:i]
	}
	return op
}

func (s *Sys) arg(op string) common.Hash {
	var i int
	if _, err := fmt.Sscanf(op[strings.Index(op, "(")+1:], "n%d)", &i); err != nil || i < 0 || i >= len(s.src.order) {
		panic("harness: bad op " + op)
	}
	return s.src.order[i]
}

func errClass(err error) string {
	switch {
	case err == nil:
		return "accepted"
	case err == trie.ErrNotRequested:
		return "not-requested"
	case err == trie.ErrAlreadyProcessed:
		return "already-processed"
	}
	return "error(" + err.Error() + ")"
}

func (s *Sys) apply(op string) string {
	src := s.src
	switch k := opKind(op); k {
	case "missing":
		n := 0
		fmt.Sscanf(op, "missing(%d)", &n)
		got := s.sched.Missing(n)
		if len(got) != n {
			s.viols = append(s.viols, mc.Violation{
				Sig:    "Missing hands out fewer hashes than are queued (source " + src.name + ")",
				Detail: fmt.Sprintf("%s returned %d hashes", op, len(got))})
		}
		for _, h := range got {
			s.popped[h] = true
			s.outstanding[h] = true
		}
		s.refresh()
		return src.names(got)

	case "deliver", "early":
		h := s.arg(op)
		_, got, err := s.ts.ProcessNodeData(src.nodes[h])
		delete(s.outstanding, h)
		s.refresh()
		if err != nil || got != h {
			s.viols = append(s.viols, mc.Violation{
				Sig:    fmt.Sprintf("wanted node rejected (%s, source %s, %s node)", errClass(err), src.name, src.kind[h]),
				Detail: fmt.Sprintf("%s: node %s is a pending request without data, its genuine bytes were answered with %v", op, src.n(h), err)})
			return errClass(err)
		}
		s.count("deliveries_accepted_"+k, 1)
		return "ok"

	case "dup", "unreq", "flip", "trunc", "foreign":
		var blob []byte
		switch k {
		case "foreign":
			blob = src.foreign
		case "dup", "unreq":
			blob = src.nodes[s.arg(op)]
		case "flip":
			blob = append([]byte{}, src.nodes[s.arg(op)]...)
			blob[len(blob)/2] ^= 0x01
		case "trunc":
			blob = src.nodes[s.arg(op)]
			blob = append([]byte{}, blob[:len(blob)-1]...)
		}
		before, dbBefore := s.key, s.db.LogLen()
		_, got, err := s.ts.ProcessNodeData(blob)
		s.refresh()
		cls := errClass(err)
		s.count("fault_"+k+"_"+cls, 1)
		if got != crypto.Keccak256Hash(blob) {
			s.viols = append(s.viols, mc.Violation{
				Sig:    "delivery hashed to a wrong key by processNodeData",
				Detail: fmt.Sprintf("%s: blob hashes to %x, processNodeData used %x", op, crypto.Keccak256Hash(blob), got)})
		}
		if err == nil {
			what := map[string]string{"dup": "duplicate of an already processed node", "unreq": "unrequested node",
				"flip": "corrupted (bit-flipped) data", "trunc": "corrupted (truncated) data", "foreign": "node foreign to the source"}[k]
			s.viols = append(s.viols, mc.Violation{
				Sig:    fmt.Sprintf("%s accepted by Process (source %s)", what, src.name),
				Detail: fmt.Sprintf("%s returned no error; state before: %s; after: %s", op, before, s.key)})
		} else if s.key != before || s.db.LogLen() != dbBefore {
			s.viols = append(s.viols, mc.Violation{
				Sig:    fmt.Sprintf("rejected delivery (%s, %s) changed the sync state (source %s)", k, cls, src.name),
				Detail: fmt.Sprintf("%s answered %v but the state changed\nbefore: %s\nafter:  %s", op, err, before, s.key)})
		}
		return cls

	case "commit":
		if some, _ := s.sharedBlobWaiting(s.view()); some {
			s.count("commits_while_shared_blob_absent_and_a_referencing_leaf_delivered", 1)
		}
		err := s.ts.Commit(true)
		v := s.refresh()
		s.count("commits", 1)
		if err != nil {
			s.viols = append(s.viols, mc.Violation{Sig: "commit failed: " + err.Error(), Detail: op})
		}
		s.checkStored(v)
		s.checkPrefixes()
		s.checkCompletion(v)
		return fmt.Sprintf("log=%d", s.db.LogLen())

	case "interrupt":
		v := s.view()
		if len(v.memb) > 0 {
			s.count("interrupts_losing_uncommitted_nodes", 1)
		}
		if len(v.inDB) > 0 && s.lacking(v, s.target) > 0 {
			s.count("interrupts_on_partial_database", 1)
		}
		if some, _ := s.sharedBlobWaiting(v); some {
			s.count("interrupts_while_shared_blob_absent_and_a_referencing_leaf_delivered", 1)
		}
		s.count("interrupts", 1)
		s.start()
		s.checkCompletion(s.view())
		return fmt.Sprintf("pending=%d", s.sched.Pending())

	case "pivot":
		// the pivot block moved: the running sync is dropped (what it had not
		// flushed is lost; "commit ; pivot" is the graceful cancel) and a new one
		// is started for the newer root on the database as it stands
		v := s.view()
		s.count("pivots", 1)
		if len(v.memb) > 0 {
			s.count("pivots_losing_uncommitted_nodes", 1)
		}
		switch lack := s.lacking(v, s.target); {
		case len(v.inDB) == 0:
			s.count("pivots_on_empty_database", 1)
		case lack > 0:
			s.count("pivots_on_partial_database", 1)
		default:
			s.count("pivots_on_complete_older_state", 1)
		}
		s.countSharedBlobPivot(v)
		s.target++
		s.start()
		s.checkCompletion(s.view())
		return fmt.Sprintf("root%d pending=%d", s.target+1, s.sched.Pending())
	}
	panic("harness: unknown op " + op)
}

// checkStored: nothing is ever stored under a key it does not hash to, and
// nothing foreign to the source reaches the destination.
func (s *Sys) checkStored(v *view) {
	if len(v.alien) > 0 {
		s.viols = append(s.viols, mc.Violation{
			Sig:    fmt.Sprintf("destination holds a key that is no source hash (source %s)", s.src.name),
			Detail: "keys: " + strings.Join(v.alien, ",")})
	}
	for _, h := range s.sorted(v.inDB) {
		if !s.src.allowed(h, s.target) {
			s.viols = append(s.viols, mc.Violation{
				Sig:    fmt.Sprintf("destination holds a node that only a root never synced so far references (source %s)", s.src.name),
				Detail: fmt.Sprintf("key %s while root %d is synced", s.src.n(h), s.target+1)})
		}
	}
	for h := range v.inDB {
		val, _ := s.db.Get(h[:])
		if crypto.Keccak256Hash(val) != h || !bytes.Equal(val, s.src.nodes[h]) {
			s.viols = append(s.viols, mc.Violation{
				Sig:    fmt.Sprintf("data stored under a hash it does not hash to (source %s)", s.src.name),
				Detail: fmt.Sprintf("key %s holds %x", s.src.n(h), val)})
		}
	}
}

// checkCompletion: once the scheduler reports nothing pending and everything
// is flushed, the destination must be the source.
func (s *Sys) checkCompletion(v *view) {
	if s.sched.Pending() != 0 || len(v.memb) != 0 {
		return
	}
	s.count("completions_checked", 1)
	if s.target > 0 {
		s.count("completions_checked_after_pivot", 1)
	}
	if why := s.src.sameAsSource(s.db.Snapshot(), s.target); why != "" {
		s.viols = append(s.viols, mc.Violation{
			Sig:    fmt.Sprintf("sync reports completion but destination differs from source: %s (source %s)", whyClass(why), s.src.label(s.target)),
			Detail: why + "\n" + s.src.describe()})
	}
}

// lacking: how many nodes of roots[t] the destination does not hold.
func (s *Sys) lacking(v *view, t int) int {
	n := 0
	for h := range s.src.reach[t] {
		if !v.inDB[h] {
			n++
		}
	}
	return n
}

// sharedBlobWaiting: is there a blob that several account leaves of the root
// being synced reference, still absent from the destination, while one / every
// one of those leaves has been delivered (waiting, finished or stored)?
func (s *Sys) sharedBlobWaiting(v *view) (some, every bool) {
	src := s.src
	for _, h := range src.order {
		if !src.shared[h] || !src.reach[s.target][h] || v.inDB[h] {
			continue
		}
		got, all := 0, 0
		for _, p := range src.parentsOf(s.target, h) {
			all++
			if q := v.req[p]; (q != nil && q.HasData) || v.inDB[p] || v.inMemb[p] {
				got++
			}
		}
		some = some || got > 0
		every = every || got == all
	}
	return
}

// countSharedBlobPivot: vacuity guards of the shared-blob dimension.  The pivot
// moves while a shared blob is still absent and one / every referencing leaf
// has been delivered.
func (s *Sys) countSharedBlobPivot(v *view) {
	src := s.src
	some, every := s.sharedBlobWaiting(v)
	if some {
		s.count("pivots_while_shared_blob_absent_and_a_referencing_leaf_delivered", 1)
	}
	if every {
		s.count("pivots_while_shared_blob_absent_and_every_referencing_leaf_delivered", 1)
	}
	for _, h := range src.order {
		if !src.shared[h] || !src.reach[s.target][h] || v.inDB[h] || !src.reach[s.target+1][h] {
			continue
		}
		// the exact shape of the false completion: every referencing leaf has been
		// delivered, the blob has not, and the newer root references the blob only
		// through leaves that did not change (which a restarted sync never revisits
		// if they reached the database)
		changed, waiting := false, true
		for _, p := range src.parentsOf(s.target, h) {
			if !src.reach[s.target+1][p] {
				changed = true
			}
			if q := v.req[p]; q == nil || !q.HasData {
				waiting = false
			}
		}
		if changed && waiting {
			s.count("pivots_while_every_leaf_waits_for_a_shared_blob_that_only_unchanged_leaves_reference_in_the_newer_root", 1)
		}
	}
}

func whyClass(why string) string {
	if i := strings.Index(why, ":"); i > 0 {
		return why[:i]
	}
	return why
}

// sameAsSource compares a database with roots[t] of the source: exact key/value
// set (every trie node, code and delegation blob of roots[t]; beyond those only
// what an older root of the family left behind) and the observation through the
// real readers.
func (src *source) sameAsSource(db *mc.CrashDB, t int) string {
	var missing, extra []string
	have := map[common.Hash]bool{}
	for _, k := range db.Keys() {
		h := common.BytesToHash([]byte(k))
		if _, ok := src.nodes[h]; !ok || len(k) != 32 || !src.allowed(h, t) {
			extra = append(extra, fmt.Sprintf("%x", k))
			continue
		}
		have[h] = true
		if v, _ := db.Get(h[:]); !bytes.Equal(v, src.nodes[h]) {
			return "wrong value: under " + src.n(h)
		}
	}
	for _, h := range src.order {
		if src.reach[t][h] && !have[h] {
			missing = append(missing, src.n(h)+"("+src.kind[h]+")")
		}
	}
	if len(missing) > 0 {
		return "missing nodes: " + strings.Join(missing, ",")
	}
	if len(extra) > 0 {
		sort.Strings(extra)
		return "extra keys: " + strings.Join(extra, ",")
	}
	got, err := src.observe(db, t)
	if err != nil {
		return "real reader fails: " + err.Error()
	}
	if got != src.contents[t] {
		return "real reader sees different content: have " + got + " want " + src.contents[t]
	}
	return ""
}

// ---- interruption oracle -------------------------------------------------------

type prefixVerdict struct {
	closure  string // "" or the first present node with an absent descendant
	resume   string // "" or why the resumed honest sync is wrong
	resumeOn int    // the root the failing resumed sync was started for
}

var prefixMemo sync.Map // source name + root being synced + present set -> prefixVerdict

// checkPrefixes evaluates, for every write prefix not seen before - every batch
// boundary AND every position inside a batch - the destination as a crash
// would leave it.
func (s *Sys) checkPrefixes() {
	log := s.db.Log()
	for i := s.checkedLog; i < len(log); i++ {
		n := len(log[i].Writes)
		// verdict at the end of the record (the only image an atomic batch can leave)
		end := s.src.prefixVerdict(s.r, s.db.At(i+1), s.target)
		s.reportPrefix(end, i, n, n, "at a commit boundary")
		// images inside the batch: reported only for what the boundary image does
		// not already show, i.e. defects of the write ORDER inside a batch
		base := s.db.At(i)
		for j, w := range log[i].Writes[:n-1] {
			if w.Del {
				base.Delete(w.Key)
			} else {
				base.Put(w.Key, w.Val)
			}
			pv := s.src.prefixVerdict(s.r, base, s.target)
			if end.closure != "" {
				pv.closure = ""
			}
			if end.resume != "" {
				pv.resume = ""
			}
			s.reportPrefix(pv, i, j+1, n, "inside a commit batch (matters only if batch writes are not atomic)")
		}
	}
	s.checkedLog = len(log)
}

func (s *Sys) reportPrefix(pv prefixVerdict, rec, applied, of int, where string) {
	if pv.closure != "" {
		s.viols = append(s.viols, mc.Violation{
			Sig:    fmt.Sprintf("node present in destination before all its descendants, %s (source %s)", where, s.src.name),
			Detail: fmt.Sprintf("write record %d, %d of %d writes applied: %s\n%s", rec, applied, of, pv.closure, s.src.describe())})
	}
	if pv.resume != "" {
		s.viols = append(s.viols, mc.Violation{
			Sig:    fmt.Sprintf("partial trie presented complete after interrupt at write k, %s: %s (source %s)", where, whyClass(pv.resume), s.src.label(pv.resumeOn)),
			Detail: fmt.Sprintf("k = record %d, %d of %d writes applied (while root %d was synced); a new Sync for root %d on that database, answered honestly and completely, ends with: %s\n%s", rec, applied, of, s.target+1, pv.resumeOn+1, pv.resume, s.src.describe())})
	}
}

// prefixVerdict judges one crash image taken while roots[target] was synced:
// closure over the reference graph (trie children, storage roots, code and
// delegation blobs of account leaves alike), and an honest resumed sync for the
// same root AND for every newer root of the family (the node comes back up and
// the pivot has moved meanwhile).
func (src *source) prefixVerdict(r *mc.Run, db *mc.CrashDB, target int) prefixVerdict {
	present := map[common.Hash]bool{}
	var ks []string
	for _, k := range db.Keys() {
		present[common.BytesToHash([]byte(k))] = true
		ks = append(ks, k)
	}
	sort.Strings(ks)
	memo := fmt.Sprintf("%s#%d#%s", src.name, target, strings.Join(ks, ""))
	if v, ok := prefixMemo.Load(memo); ok {
		return v.(prefixVerdict)
	}
	var pv prefixVerdict
	var edges, blobEdges int64
	for _, h := range src.order {
		if !present[h] {
			continue
		}
		for _, c := range src.kids[h] {
			edges++
			if strings.Contains(src.kind[c], "raw") {
				blobEdges++
			}
			if !present[c] {
				pv.closure = fmt.Sprintf("%s (%s) is present, its descendant %s (%s) is not", src.n(h), src.kind[h], src.n(c), src.kind[c])
				break
			}
		}
		if pv.closure != "" {
			break
		}
	}
	for t := target; t < len(src.roots); t++ {
		if why := src.resumeHonestly(db.Snapshot(), t); why != "" && pv.resume == "" {
			pv.resume, pv.resumeOn = why, t
		}
	}
	if _, loaded := prefixMemo.LoadOrStore(memo, pv); !loaded {
		r.Count("distinct_crash_images_resumed", 1)
		if pv.closure == "" {
			r.Count("closure_edges_checked_present_node_to_descendant", edges)
			r.Count("closure_edges_checked_account_leaf_to_code_or_delegations_blob", blobEdges)
		}
		lacking := 0
		for h := range src.reach[target] {
			if !present[h] {
				lacking++
			}
		}
		if len(present) > 0 && lacking > 0 {
			r.Count("distinct_crash_images_partial", 1)
		}
		if n := len(src.roots) - 1 - target; n > 0 {
			r.Count("distinct_crash_images_resumed_on_newer_root", int64(n))
		}
	}
	return pv
}

// resumeHonestly starts a NEW sync on the given database and answers every
// request completely and correctly; it must end complete and equal to the source.
func (src *source) resumeHonestly(db *mc.CrashDB, t int) (why string) {
	if msg := mc.Catch(func() { why = src.resume0(db, t) }); msg != "" {
		return "panic: " + msg
	}
	return
}

func (src *source) resume0(db *mc.CrashDB, t int) string {
	sched := src.newSync(t, db)
	ts := downloader.VerifNewTrieSync(types.KindValidator, db, sched)
	for round := 0; sched.Pending() > 0; round++ {
		if round > 4*len(src.nodes)+4 {
			return "never completes: still pending after answering every request"
		}
		for _, h := range sched.Missing(0) {
			blob, ok := src.nodes[h]
			if !ok {
				return fmt.Sprintf("requests unknown hash: %x", h)
			}
			if _, _, err := ts.ProcessNodeData(blob); err != nil && err != trie.ErrNotRequested && err != trie.ErrAlreadyProcessed {
				return "honest answer rejected: " + err.Error()
			}
		}
		if err := ts.Commit(true); err != nil {
			return "commit failed: " + err.Error()
		}
	}
	if err := ts.Commit(true); err != nil {
		return "commit failed: " + err.Error()
	}
	return src.sameAsSource(db, t)
}

var transSeen [64]struct {
	sync.Mutex
	m map[string]struct{}
}

// count bumps an evidence counter once per distinct (state, op) transition
// (mc.BFS replays paths; replays do not count again).
func (s *Sys) count(name string, n int64) {
	if s.counting {
		s.r.Count(name, n)
	}
}

func firstTime(key, op string) bool {
	k := key + "\x00" + op
	h := uint(0)
	for i := 0; i < len(k); i++ {
		h = h*31 + uint(k[i])
	}
	sh := &transSeen[h&63]
	sh.Lock()
	defer sh.Unlock()
	if sh.m == nil {
		sh.m = map[string]struct{}{}
	}
	if _, dup := sh.m[k]; dup {
		return false
	}
	sh.m[k] = struct{}{}
	return true
}

func (s *Sys) Check() []mc.Violation { return s.viols }

// ---- entry points ----------------------------------------------------------------

var (
	srcOnce sync.Once
	srcs    []*source
)

func sources(all bool) []*source {
	srcOnce.Do(func() { srcs = buildSources(all) })
	return srcs
}

func Run(r *mc.Run) {
	r.Level = "model_checking"
	r.Rule = "BFS to a fixpoint over every schedule of the real trie.Sync/state.NewStateSync on each source: Missing(k) for every k ending at a priority-group boundary of the fetch queue, delivery of any wanted node (handed out or not) through trieSync.processNodeData, duplicate/unrequested/bit-flipped/truncated/foreign deliveries, trieSync.commit into a write-logging database, interrupt (new Sync on the database as it is), and on source families (two roots: the state a block later, one sharing account changed) pivot (new Sync for the NEWER root on the database as it is, from every state incl. the completed one; completion is then compared with the newer root: every trie node, code and delegations blob); every distinct write prefix (batch boundaries and positions inside a batch) is checked for closure over trie children, storage roots, code and delegations blobs, and resumed honestly for the root being synced and for every newer root of the family; states de-duplicated on the full scheduler state (root being synced, requests with dependency counts and parents, membatch order, fetch-queue set, handed-out set, database key set); distinct = distinct such states; a case is non-trivial by construction (every state differs in scheduler or database content).  PART 2 (fault enumeration on the goroutine layer): the real trieFetcher / runTrieSync / trieSync.loop / commit / Wait / Cancel run a whole sync of every source (state sources as syncState does: KindState + state.NewStateSync; plain ones as commonSyncTrie) and of a wide plain trie of 81 nodes / 2.5 ideal batch sizes (the only one whose loop flushes while requests are pending) against one honest in-process peer delivering through Downloader.DeliverNodeData, with MaxTrieNodeFetch in {384, 2} (wide trie: 8; thorough: {384,3,2,1} and {16,8,4}), on a fault-injecting database: one run per fault point, for EVERY database write operation k = 1..N of the fault-free run (Put on the database, Put into a batch, batch Write): the k-th fails once / the k-th and all later ones fail / trieSync.Cancel() at it / Downloader.cancel() at it, and for every node-data request j = 1..J: trieSync.Cancel() / Downloader.cancel() when it reaches the peer (unanswered; after a cancel the peer is silent so that exactly one select case is ready); oracle: Wait() is nil only if the destination holds exactly the source (part 1's comparison incl. the real readers), a non-nil result or Crit leaves a closed, honestly resumable prefix, a fault-free run returns nil, no run exceeds 30 s"
	if r.Quick() {
		r.SetBudget(150e9)
	} else {
		r.SetBudget(25 * 60e9)
	}
	r.Assume("deliveries reach trie.Sync only through the downloader's processNodeData (hash computed from the bytes), as in production; Sync.Process called with a caller-chosen hash is outside the property")
	r.Assume("pivot moves: forward only, at most once per explored execution (families have two roots), the older root's nodes stay in the database")
	r.Assume("crash model: LevelDB - a batch is atomic, the write log is prefix-closed; positions inside a batch are checked too and reported under a separate signature")
	r.Assume("part 2 (goroutine layer): one honest peer that answers every request completely and in request order; database faults are clean (a failed batch Write writes nothing, a failed Put does not reach its batch) and only writes fail; a panic on one of the downloader's own goroutines is not caught (it ends the check process with a stack trace); logging.Crit stands for the process exit it performs; source code-equals-storage-node is left to part 1 (its completion is wrong without any fault: known finding)")
	// part 2 first: it is short and bounded, and must not depend on what part 1
	// leaves of the time budget
	exploreLoop(r)
	var desc []string
	total := 0
	for _, src := range sources(!r.Quick() || os.Getenv("C19_ALL") != "") {
		src := src
		desc = append(desc, src.describe())
		f := func() mc.System { return newSys(r, src) }
		name := "triesync-" + src.name
		n := r.BFS(f, mc.SeqOpts{Name: name, Depth: 200})
		r.SetExtra(name+"_states", n)
		total += n
		r.ConfirmSeq(name, f)
		if r.Expired() {
			break
		}
	}
	r.SetExtra("sources", desc)
	r.SetExtra("states_total", total)
}

func Replay(r *mc.Run, v *mc.Violation) {
	if strings.HasPrefix(v.System, loopSysPrefix) {
		replayLoop(r, v)
		return
	}
	for _, src := range sources(true) {
		if "triesync-"+src.name != v.System {
			continue
		}
		fmt.Println(src.describe())
		sys := newSys(r, src)
		obs, viols, err := mc.ReplaySeq(sys, v.Ops)
		for i, op := range v.Ops {
			o := ""
			if i < len(obs) {
				o = obs[i]
			}
			fmt.Printf("  %2d %-16s -> %s\n", i, op, o)
		}
		fmt.Println("final state:", sys.Key(), "err:", err)
		for _, x := range viols {
			x.System, x.Ops = v.System, v.Ops
			fmt.Println("violation:", x.Sig, "\n ", x.Detail)
			r.Report(x)
		}
		return
	}
	fmt.Println("unknown system", v.System)
}
