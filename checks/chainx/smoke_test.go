package chainx

import (
	"fmt"
	"testing"

	"verif/mc"
)

func TestSmoke(t *testing.T) {
	c := DefaultCfg; c.MaxRewardsPeriod = 1000; SetParams(c)
	r := mc.NewRun("CXX", "quick", 1)
	h := &Hist{F: Fix(), R: r, Hooks: Hooks{Imports: 2, Supply: true, Links: true}}
	h.Reset()
	fmt.Println("genesis supply", h.Genesis)
	for _, op := range []string{"c1:vupdate(s1)+vupdate(h1)", "c1:dadd(s1)+dadd2(s1)+xfer+store+revert+create", "s1:vdeposit(s1)", "c1:dsub(s1)+vwithdraw(s1)", "c1:", "c1:vcreate(n1)", "c1:!dsign(s1)", "c1:", "c1:", "c1:", "c1:"} {
		ob := h.Apply(op)
		s, _ := SupplyOf(h.Node, h.Txs)
		fmt.Println(op, "=>", ob, "\n    ", s)
		for _, v := range h.Check() {
			fmt.Println("   VIOL:", v.Sig, "\n      ", v.Detail)
		}
		if h.dead {
			break
		}
	}
	h.Close()
}
