package chainx

import (
	"fmt"
	"strings"

	"github.com/youchainhq/go-youchain/common"

	"verif/checks/stx"
	"verif/mc"
)

// LinkViolations evaluates the C08 recomputation oracle on the head state.
// Only discrepancies that were not already present in the parent state are
// reported (a drift, once there, stays in every later state of the path).
func LinkViolations(h *Hist, op string, pre *Node) (out []mc.Violation) {
	var cands, dlgs []common.Address
	for _, v := range h.F.Vals {
		cands = append(cands, v.Main)
	}
	for _, a := range h.F.Accounts {
		dlgs = append(dlgs, a.Addr)
	}
	var bad []string
	if m, w := mc.CatchStack(func() { bad = stx.CheckLinksOver(h.Node.State(), cands, dlgs) }); m != "" {
		return []mc.Violation{{Sig: "panic while reading records of the head state at " + w, Detail: m}}
	}
	h.R.Count("link_checks", 1)
	old := map[string]bool{}
	if len(bad) > 0 {
		mc.Catch(func() {
			for _, b := range stx.CheckLinksOver(pre.State(), cands, dlgs) {
				old[stx.PersistKey(b)] = true
			}
		})
	}
	kinds := blockKinds(op)
	if newlyExpelled(h, pre) {
		kinds += "+slashing"
	}
	for _, b := range bad {
		if old[stx.PersistKey(b)] {
			continue // same drift as in the parent state
		}
		kind := b
		if i := strings.Index(b, ":"); i > 0 {
			kind = b[:i]
		}
		out = append(out, mc.Violation{Sig: fmt.Sprintf("%s on head state (%s)", kind, kinds), Detail: b})
	}
	return
}

// blockKinds: the tx/evidence kinds of a block op without arguments.
func blockKinds(op string) string {
	_, txs, evs := ParseBlockOp(op)
	var ks []string
	for _, t := range append(txs, evs...) {
		if i := strings.Index(t, "("); i > 0 {
			t = t[:i]
		}
		ks = append(ks, t)
	}
	return strings.Join(ks, "+")
}

// newlyExpelled: some validator was penalised (expelled) by this block.
func newlyExpelled(h *Hist, pre *Node) bool {
	a, b := pre.State(), h.Node.State()
	for _, v := range h.F.Vals {
		x, y := a.GetValidatorByMainAddr(v.Main), b.GetValidatorByMainAddr(v.Main)
		if y != nil && y.Expelled && (x == nil || !x.Expelled || x.ExpelExpired != y.ExpelExpired) {
			return true
		}
	}
	return false
}
