package chainx

import (
	"errors"
	"math/big"
	"time"

	"github.com/youchainhq/go-youchain/consensus"
	"github.com/youchainhq/go-youchain/consensus/solo"
	"github.com/youchainhq/go-youchain/core/state"
	"github.com/youchainhq/go-youchain/core/types"
	"github.com/youchainhq/go-youchain/params"
)

// StubUcon implements consensus.Engine AND consensus.Ucon so that the
// Ucon-only import paths of BlockChain run (ErrExistCanonical ->
// insertSidechain -> verifyAllSideChainBlocks -> reorg).  Its header check
// reproduces exactly the structural outcomes of ucon's verifyCascadingFields
// (unknown ancestor, older block time, exist-canonical) and replaces the
// cryptographic seal (C01's subject) by a one-byte flag in header.Extra, so
// that blocks with an invalid seal exist in the tree.  VerifyHeaders has the
// channel shape of ucon's (buffered abort; results in input order; the earlier
// headers of the batch passed as parents).
type StubUcon struct {
	*solo.Solo
	// VersionLookup: like ucon's verifyHeader (consensus/ucon/consensus.go), ask the chain for the protocol parameters
	// of the header's round FIRST, passing the earlier headers of the batch as parents, and fail with the lookup's
	// error.  Off by default (C06/C11 keep the outcomes they were built on); switched on by C12 part 3, where this
	// call is the consumer of VersionForRoundWithParents during header verification.
	VersionLookup bool
}

var errBadSeal = errors.New("invalid sealer")

// BadSealMark in header.Extra[0] marks an invalid seal.
const BadSealMark = 0xBD

// NewStubUcon returns the engine (sealer mode on).
func NewStubUcon() *StubUcon {
	s := &StubUcon{Solo: solo.NewSolo()}
	s.Solo.Update(true, 0, 1)
	return s
}

func sealOK(h *types.Header) bool { return !(len(h.Extra) > 0 && h.Extra[0] == BadSealMark) }

func (s *StubUcon) verify(chain consensus.ChainReader, header *types.Header, parents []*types.Header, seal bool) error {
	if header.Number == nil {
		return errors.New("unknown block")
	}
	number := header.Number.Uint64()
	if number == 0 {
		return nil
	}
	if s.VersionLookup {
		if _, err := chain.VersionForRoundWithParents(number, parents); err != nil {
			return err
		}
	}
	// verifySignature happens before the cascading fields in ucon
	if !sealOK(header) {
		return errBadSeal
	}
	var parent *types.Header
	if len(parents) > 0 {
		parent = parents[len(parents)-1]
	} else {
		parent = chain.GetHeader(header.ParentHash, number-1)
	}
	if parent == nil || parent.Number.Uint64() != number-1 || parent.Hash() != header.ParentHash {
		return consensus.ErrUnknownAncestor
	}
	if header.Time <= parent.Time {
		return consensus.ErrOlderBlockTime
	}
	if local := chain.GetHeaderByNumber(number); local != nil && header.Hash() != local.Hash() {
		return consensus.ErrExistCanonical
	}
	return nil
}

func (s *StubUcon) VerifyHeader(chain consensus.ChainReader, header *types.Header, seal bool) error {
	return s.verify(chain, header, nil, seal)
}

func (s *StubUcon) VerifyHeaders(chain consensus.ChainReader, headers []*types.Header, seals []bool) (chan<- struct{}, <-chan error) {
	abort := make(chan struct{}, 1)
	results := make(chan error, len(headers))
	go func() {
		for i, header := range headers {
			err := s.verify(chain, header, headers[:i], seals[i])
			select {
			case <-abort:
				return
			case results <- err:
			}
		}
	}()
	return abort, results
}

func (s *StubUcon) VerifySeal(chain consensus.ChainReader, header *types.Header) error {
	if !sealOK(header) {
		return errBadSeal
	}
	return nil
}

func (s *StubUcon) HandleMsg(data []byte, receivedAt time.Time) error { return nil }
func (s *StubUcon) NewChainHead(block *types.Block)                   {}

func (s *StubUcon) GetLookBackBlockNumber(cp *params.CaravelParams, num *big.Int, lbType params.LookBackType) *big.Int {
	lb := uint64(2)
	if cp != nil {
		lb = cp.StakeLookBack
	}
	if num.Uint64() > lb {
		return new(big.Int).SetUint64(num.Uint64() - lb)
	}
	return new(big.Int)
}

func (s *StubUcon) VerifySideChainHeader(cp *params.CaravelParams, seedHeader *types.Header, vldReader state.ValidatorReader, certHeader *types.Header, certVldReader state.ValidatorReader, block *types.Block, parents []*types.Block) error {
	l := len(parents)
	if l <= 0 {
		return errors.New("no parents")
	}
	ph := parents[l-1].Header()
	h := block.Header()
	if h.Number == nil || h.Number.Uint64() != ph.Number.Uint64()+1 || h.ParentHash != ph.Hash() {
		return consensus.ErrUnknownAncestor
	}
	if !sealOK(h) {
		return errBadSeal
	}
	return nil
}

func (s *StubUcon) VerifyAcHeader(chain consensus.ChainReader, acHeader *types.Header, verifiedAcParents []*types.Header) error {
	return errors.New("not an ac header")
}

var _ consensus.Ucon = (*StubUcon)(nil)
