package chainx

import (
	"fmt"
	"math/big"
	"sort"
	"strings"

	"github.com/youchainhq/go-youchain/common"
	"github.com/youchainhq/go-youchain/core/state"
	"github.com/youchainhq/go-youchain/params"
)

// TxInfo is what the harness remembers about a staking tx it created: the
// tokens it moves out of the sender's balance when it is accepted (escrow
// until the end of the staking period).
type TxInfo struct {
	Op     string
	Escrow *big.Int // nil for txs that hold nothing in escrow
}

// Supply is the conserved quantity of C07 with its breakdown.
type Supply struct {
	Total *big.Int
	Parts map[string]*big.Int
}

func (s Supply) String() string {
	var ks []string
	for k := range s.Parts {
		ks = append(ks, k)
	}
	sort.Strings(ks)
	var b strings.Builder
	for _, k := range ks {
		fmt.Fprintf(&b, "%s=%v ", k, s.Parts[k])
	}
	fmt.Fprintf(&b, "TOTAL=%v", s.Total)
	return b.String()
}

func bi(s string) *big.Int {
	v, ok := new(big.Int).SetString(s, 10)
	if !ok {
		panic("bad integer in dump: " + s)
	}
	return v
}

// SupplyOf computes, from a full dump of the head state: all account balances
// + all staked tokens + all unfinished withdrawals + validators' undistributed
// rewards + role reward pools + global residue + escrow of pending deposits.
func SupplyOf(n *Node, txs map[common.Hash]TxInfo) (Supply, error) {
	head := n.Head()
	st := n.State()
	d := st.RawDump()
	s := Supply{Total: new(big.Int), Parts: map[string]*big.Int{}}
	add := func(k string, v *big.Int) {
		if s.Parts[k] == nil {
			s.Parts[k] = new(big.Int)
		}
		s.Parts[k].Add(s.Parts[k], v)
		s.Total.Add(s.Total, v)
	}
	for _, a := range d.Accounts {
		add("balances", bi(a.Balance))
	}
	for _, v := range d.Validators {
		add("staked", bi(v.Token))
		add("val_rewards", bi(v.RewardsDistributable))
	}
	for _, w := range d.ValidatorsWithdraw {
		if w.Finished == 0 {
			add("withdrawing", bi(w.FinalBalance))
		}
	}
	if d.ValidatorsStat != nil {
		for _, it := range d.ValidatorsStat.Roles {
			add("role_pools", bi(it.RewardsDistributable))
		}
		if k, ok := d.ValidatorsStat.Kinds[params.KindValidator]; ok {
			add("residue", bi(k.RewardsResidue))
		}
	}
	// escrow: records of the current period that have not taken effect yet
	freq := V5().StakingTrieFrequency
	if (head.NumberU64()+1)%freq != 0 && head.NumberU64() > 0 {
		err := st.ForEachStakingRecord(func(dd, v common.Address, rec *state.Record) error {
			for _, h := range rec.TxHashes {
				info, ok := txs[h]
				if !ok {
					return fmt.Errorf("staking record names unknown tx %x", h[:4])
				}
				if info.Escrow != nil {
					add("escrow", info.Escrow)
				}
			}
			return nil
		})
		if err != nil {
			return s, err
		}
	}
	return s, nil
}
