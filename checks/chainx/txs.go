package chainx

import (
	"fmt"
	"math/big"

	"github.com/youchainhq/go-youchain/common"
	"github.com/youchainhq/go-youchain/core/state"
	"github.com/youchainhq/go-youchain/core/types"
	"github.com/youchainhq/go-youchain/params"
	"github.com/youchainhq/go-youchain/staking"
)

const gasPrice = 3

// MkTx builds and signs the transaction a symbolic op stands for, against the
// current state (nonce, current stake) of the node.  Unknown op => error.
func (f *Fixture) MkTx(st *state.StateDB, number *big.Int, op string) (*types.Transaction, error) {
	signer := types.MakeSigner(number)
	sign := func(from *Account, to *common.Address, value *big.Int, gas uint64, data []byte) (*types.Transaction, error) {
		nonce := st.GetNonce(from.Addr)
		var tx *types.Transaction
		if to == nil {
			tx = types.NewContractCreation(nonce, value, gas, big.NewInt(gasPrice), data)
		} else {
			tx = types.NewTransaction(nonce, *to, value, gas, big.NewInt(gasPrice), data)
		}
		return types.SignTx(tx, signer, from.Key)
	}
	stk := func(from *Account, action staking.ActionType, msg staking.Msg) (*types.Transaction, error) {
		data, err := staking.EncodeMessage(action, msg)
		if err != nil {
			return nil, err
		}
		mod := params.StakingModuleAddress
		return sign(from, &mod, new(big.Int), 3000000, data)
	}
	name, arg := op, ""
	for i := 0; i < len(op); i++ {
		if op[i] == '(' {
			name, arg = op[:i], op[i+1:len(op)-1]
			break
		}
	}
	val := func() *ValFix { return f.Val(arg) }
	switch name {
	case "xferalmostall":
		// P sends away all it has but the gas of this transfer, the gas of one more transfer and 100 wei.  A following
		// "xfer" of P passes the pool (each pending tx is checked against the CURRENT balance on its own) and the
		// pre-checks of the state transition (nonce, gas purchase) and then fails with vm.ErrInsufficientBalance AFTER the
		// nonce was incremented and the gas was bought: the one ApplyTransaction error that leaves changes behind, which
		// the builder has to undo (worker.commitTransaction: RevertToSnapshot).
		keep := big.NewInt(2*21000*gasPrice + 100)
		amt := new(big.Int).Sub(st.GetBalance(f.P.Addr), keep)
		if amt.Sign() <= 0 {
			amt = big.NewInt(1)
		}
		return sign(f.P, &f.D2.Addr, amt, 21000, nil)
	case "xfer": // plain transfer P -> D2
		return sign(f.P, &f.D2.Addr, big.NewInt(12345), 21000, nil)
	case "store": // contract call that writes storage and carries value
		return sign(f.P, &f.KStore, big.NewInt(7), 100000, nil)
	case "clear": // contract call that clears a storage slot (gas refund)
		return sign(f.P, &f.KClear, new(big.Int), 100000, nil)
	case "size": // KSize stores EXTCODESIZE(KDie): reads the code-size path of the state database
		return sign(f.P, &f.KSize, new(big.Int), 100000, nil)
	case "die": // KDie self-destructs to the caller: the code at that address goes away
		return sign(f.P, &f.KDie, new(big.Int), 100000, nil)
	case "fund": // 1 wei to KDie's address (re-creates the account, without code, once the contract is gone)
		return sign(f.P, &f.KDie, big.NewInt(1), 100000, nil)
	case "revert": // contract call that reverts (value must come back)
		return sign(f.P, &f.KRevert, big.NewInt(9), 100000, nil)
	case "create": // contract creation: init code returns 1 byte of runtime code
		return sign(f.P, nil, big.NewInt(3), 200000, []byte{0x60, 0x00, 0x60, 0x00, 0x53, 0x60, 0x01, 0x60, 0x00, 0xf3})
	case "lowgas": // gas below intrinsic: refused up front
		return sign(f.P, &f.D2.Addr, big.NewInt(1), 20000, nil)
	case "badstk": // malformed staking payload
		mod := params.StakingModuleAddress
		return sign(f.P, &mod, new(big.Int), 3000000, []byte{0xc3, 0x01, 0x02, 0x03})

	case "vupdate": // accept delegations, commission 25%, risk obligation 50%
		v := val()
		return stk(v.Operator, staking.ValidatorUpdate, &staking.TxUpdateValidator{Nonce: st.GetNonce(v.Operator.Addr), MainAddress: v.Main,
			CommissionRate: 2500, RiskObligation: 5000, AcceptDelegation: 1})
	case "vdeposit":
		v := val()
		return stk(v.Operator, staking.ValidatorDeposit, &staking.TxValidatorDeposit{MainAddress: v.Main, Value: Unit(1, 500000000000000000), Nonce: st.GetNonce(v.Operator.Addr)})
	case "vwithdraw": // part of the self stake
		v := val()
		return stk(v.Operator, staking.ValidatorWithDraw, &staking.TxValidatorWithdraw{MainAddress: v.Main, Recipient: v.Operator.Addr, Value: Unit(2, 250000000000000001), Nonce: st.GetNonce(v.Operator.Addr)})
	case "vwithdrawall":
		v := val()
		cur := st.GetValidatorByMainAddr(v.Main)
		amt := Unit(1, 0)
		if cur != nil && cur.SelfToken.Sign() > 0 {
			amt = new(big.Int).Set(cur.SelfToken)
		}
		return stk(v.Operator, staking.ValidatorWithDraw, &staking.TxValidatorWithdraw{MainAddress: v.Main, Recipient: v.Operator.Addr, Value: amt, Nonce: st.GetNonce(v.Operator.Addr)})
	case "vwithdrawmost": // leave less than one stake unit behind
		v := val()
		cur := st.GetValidatorByMainAddr(v.Main)
		amt := Unit(1, 0)
		if cur != nil && cur.SelfToken.Cmp(Unit(0, 500000000000000000)) > 0 {
			amt = new(big.Int).Sub(cur.SelfToken, Unit(0, 500000000000000000))
		}
		return stk(v.Operator, staking.ValidatorWithDraw, &staking.TxValidatorWithdraw{MainAddress: v.Main, Recipient: v.Operator.Addr, Value: amt, Nonce: st.GetNonce(v.Operator.Addr)})
	case "vwithdrawthin": // leave a self stake between MinSelfStakes and MinStakes: the validator stays online only thanks to its delegations
		v := val()
		cur := st.GetValidatorByMainAddr(v.Main)
		amt := Unit(1, 0)
		keep := Unit(3, 200000000000000000)
		if cur != nil && cur.SelfToken.Cmp(keep) > 0 {
			amt = new(big.Int).Sub(cur.SelfToken, keep)
		}
		return stk(v.Operator, staking.ValidatorWithDraw, &staking.TxValidatorWithdraw{MainAddress: v.Main, Recipient: v.Operator.Addr, Value: amt, Nonce: st.GetNonce(v.Operator.Addr)})
	case "vwithdrawmuch":
		v := val()
		return stk(v.Operator, staking.ValidatorWithDraw, &staking.TxValidatorWithdraw{MainAddress: v.Main, Recipient: v.Operator.Addr, Value: Unit(5000, 0), Nonce: st.GetNonce(v.Operator.Addr)})
	case "voff", "von":
		v := val()
		status := params.ValidatorOffline
		if name == "von" {
			status = params.ValidatorOnline
		}
		return stk(v.Operator, staking.ValidatorChangeStatus, &staking.TxValidatorChangeStatus{MainAddress: v.Main, Status: status, Nonce: st.GetNonce(v.Operator.Addr)})
	case "vsettle":
		v := val()
		return stk(v.Operator, staking.ValidatorSettle, &staking.TxValidatorSettle{MainAddress: v.Main})
	case "vcreatelow": // validator creation whose gas limit covers the intrinsic gas but not the V5 creation surcharge
		v := val()
		data, err := staking.EncodeMessage(staking.ValidatorCreate, &staking.TxCreateValidator{Name: v.Name, OperatorAddress: v.Operator.Addr, Coinbase: v.Coinbase,
			MainPubKey: v.MainPub, BlsPubKey: v.BlsPub, Value: new(big.Int).Set(v.Token), Nonce: st.GetNonce(v.Operator.Addr),
			CommissionRate: 1000, RiskObligation: 10000, AcceptDelegation: 1, Role: v.Role})
		if err != nil {
			return nil, err
		}
		mod := params.StakingModuleAddress
		return sign(v.Operator, &mod, new(big.Int), 500000, data)
	case "vcreate":
		v := val()
		return stk(v.Operator, staking.ValidatorCreate, &staking.TxCreateValidator{Name: v.Name, OperatorAddress: v.Operator.Addr, Coinbase: v.Coinbase,
			MainPubKey: v.MainPub, BlsPubKey: v.BlsPub, Value: new(big.Int).Set(v.Token), Nonce: st.GetNonce(v.Operator.Addr),
			CommissionRate: 1000, RiskObligation: 10000, AcceptDelegation: 1, Role: v.Role})

	case "dadd": // D1 delegates to the validator
		return stk(f.D1, staking.DelegationAdd, &staking.TxDelegation{Validator: val().Main, Value: Unit(3, 700000000000000009)})
	case "dadd2": // D2 delegates to the validator
		return stk(f.D2, staking.DelegationAdd, &staking.TxDelegation{Validator: val().Main, Value: Unit(2, 1)})
	case "dsub": // part
		return stk(f.D1, staking.DelegationSub, &staking.TxDelegation{Validator: val().Main, Value: Unit(1, 100000000000000001)})
	case "dsuball":
		amt := Unit(3, 700000000000000009)
		if cur := st.GetValidatorByMainAddr(val().Main); cur != nil {
			if df := cur.GetDelegationFrom(f.D1.Addr); df != nil {
				amt = new(big.Int).Set(df.Token)
			}
		}
		return stk(f.D1, staking.DelegationSub, &staking.TxDelegation{Validator: val().Main, Value: amt})
	case "dsubmuch":
		return stk(f.D1, staking.DelegationSub, &staking.TxDelegation{Validator: val().Main, Value: Unit(900, 0)})
	case "dsettle":
		return stk(f.D1, staking.DelegationSettle, &staking.TxDelegationSettle{Validator: val().Main})
	}
	if tx, ok, err := f.mkTxLimits(st, number, name, arg); ok { // limits.go: ops at the stakes / delegation limits
		return tx, err
	}
	return nil, fmt.Errorf("unknown tx op %q", op)
}
