package chainx

// limits.go: the take-effect failure exits of the staking transactions (C07).
//
// A staking transaction is accepted (and its tokens are taken) when it is submitted, against the PENDING picture
// of the validator (the running total kept in the validator's own staking record); it takes effect at the end of
// the staking period, where the pending records are walked in staking-trie order (keccak of delegator||validator)
// and every transaction is checked AGAIN against the validator as the records before it left it.  The two
// pictures disagree when
//   - a delegator leaves (DelegationSub) and another one joins (DelegationAdd) in one period and the joiner's
//     record is met first,
//   - the validator withdraws: handleWithdraw rebases the running total on SelfToken instead of Token, so that
//     everything submitted after it is checked against a total that leaves the delegations out,
//   - the validator is slashed / expelled / stops accepting delegations between submission and period end.
// Ordinary traffic (the core menus) never gets near the limits.  This file adds
//   - block ops that bring a validator exactly to MaxStakes (dfill*, vdfill) or one unit below (dfillm1), ops of a
//     second and third delegator (D2, P: the three record keys sort P < validator's own record < D2 < D1 for s1),
//     vnoaccept, vwithdrawover;
//   - scripted prefixes that end at the start of a period with the validator at MaxStakes;
//   - MenuLimits / ExploreFrom: the exhaustive exploration from those states;
//   - TakeEffectExits: a per-block observer that classifies, from the period-end receipt, the withdraw queue and
//     the pending records of the ended period, which exit every pending transaction took (counters = vacuity
//     guards), and a direct oracle: an account whose delegation / deposit failed to activate gets exactly its value back.

import (
	"bytes"
	"fmt"
	"math/big"
	"sort"
	"strings"

	"github.com/youchainhq/go-youchain/common"
	"github.com/youchainhq/go-youchain/common/math"
	"github.com/youchainhq/go-youchain/core"
	"github.com/youchainhq/go-youchain/core/rawdb"
	"github.com/youchainhq/go-youchain/core/state"
	"github.com/youchainhq/go-youchain/core/types"
	"github.com/youchainhq/go-youchain/params"
	"github.com/youchainhq/go-youchain/rlp"
	"github.com/youchainhq/go-youchain/staking"

	"verif/mc"
)

// ---- block ops ----------------------------------------------------------------

// pendingTotal is the total the submission-time check of the stakes limit works on: the running total of the
// validator's own staking record if there is one in this period, else the validator's Token.
func pendingTotal(st *state.StateDB, v *state.Validator) *big.Int {
	t := st.GetStakingRecordValue(common.Address{}, v.MainAddress())
	if t.Sign() == 0 {
		t = new(big.Int).Set(v.Token)
	}
	return t
}

// mkTxLimits: the ops of this file.  Delegation ops end in "" (D1), "2" (D2) or "P" (the plain account).
func (f *Fixture) mkTxLimits(st *state.StateDB, number *big.Int, name, arg string) (*types.Transaction, bool, error) {
	stk := func(from *Account, action staking.ActionType, msg staking.Msg) (*types.Transaction, bool, error) {
		data, err := staking.EncodeMessage(action, msg)
		if err != nil {
			return nil, true, err
		}
		tx := types.NewTransaction(st.GetNonce(from.Addr), params.StakingModuleAddress, new(big.Int), 3000000, big.NewInt(gasPrice), data)
		tx, err = types.SignTx(tx, types.MakeSigner(number), from.Key)
		return tx, true, err
	}
	who, base := f.D1, name
	switch {
	case strings.HasSuffix(name, "2"):
		who, base = f.D2, name[:len(name)-1]
	case strings.HasSuffix(name, "P"):
		who, base = f.P, name[:len(name)-1]
	}
	switch base {
	case "vnoaccept", "vwithdrawover", "vdfill", "dfill", "dfillm1", "dadd", "dsub", "dsuball":
	default:
		return nil, false, nil
	}
	v := f.Val(arg)
	cur := st.GetValidatorByMainAddr(v.Main)
	switch name {
	case "vnoaccept": // stop accepting delegations (nothing else changes)
		return stk(v.Operator, staking.ValidatorUpdate, &staking.TxUpdateValidator{Nonce: st.GetNonce(v.Operator.Addr), MainAddress: v.Main,
			CommissionRate: math.MaxUint16, RiskObligation: math.MaxUint16, AcceptDelegation: params.NotAcceptDelegation})
	case "vwithdrawover": // one unit more than the validator owns itself: passes at submission only against a running total that holds delegations
		amt := Unit(1, 0)
		if cur != nil {
			amt.Add(amt, cur.SelfToken)
		}
		return stk(v.Operator, staking.ValidatorWithDraw, &staking.TxValidatorWithdraw{MainAddress: v.Main, Recipient: v.Operator.Addr, Value: amt, Nonce: st.GetNonce(v.Operator.Addr)})
	case "vdfill": // the operator deposits exactly what the running total leaves up to MaxStakes
		amt := Unit(1, 0)
		if cur != nil {
			if room := new(big.Int).Sub(Unit(int64(V5().MaxStakes[cur.Role]), 0), pendingTotal(st, cur)); room.Sign() > 0 {
				amt = room
			}
		}
		return stk(v.Operator, staking.ValidatorDeposit, &staking.TxValidatorDeposit{MainAddress: v.Main, Value: amt, Nonce: st.GetNonce(v.Operator.Addr)})
	}
	switch base {
	case "dfill", "dfillm1": // delegate exactly what the running total leaves up to MaxStakes (dfillm1: up to MaxStakes - 1 unit)
		amt := Unit(2, 0)
		if cur != nil {
			max := int64(V5().MaxStakes[cur.Role])
			if base == "dfillm1" {
				max--
			}
			if room := new(big.Int).Sub(Unit(max, 0), pendingTotal(st, cur)); room.Sign() > 0 {
				amt = room
			}
		}
		return stk(who, staking.DelegationAdd, &staking.TxDelegation{Validator: v.Main, Value: amt})
	case "dadd":
		return stk(who, staking.DelegationAdd, &staking.TxDelegation{Validator: v.Main, Value: Unit(2, 500000000000000007)})
	case "dsub":
		return stk(who, staking.DelegationSub, &staking.TxDelegation{Validator: v.Main, Value: Unit(1, 100000000000000001)})
	case "dsuball":
		amt := Unit(2, 1)
		if cur != nil {
			if df := cur.GetDelegationFrom(who.Addr); df != nil {
				amt = new(big.Int).Set(df.Token)
			}
		}
		return stk(who, staking.DelegationSub, &staking.TxDelegation{Validator: v.Main, Value: amt})
	}
	return nil, false, nil
}

// decodeStk returns what a staking transaction asks for (ok=false: not a well-formed staking transaction).
type stkReq struct {
	Action    staking.ActionType
	Validator common.Address
	Value     *big.Int // tokens named by the transaction (nil: none)
	Status    uint8
}

func decodeStk(tx *types.Transaction) (q stkReq, ok bool) {
	if tx.To() == nil || *tx.To() != params.StakingModuleAddress {
		return q, false
	}
	var m staking.Message
	if rlp.DecodeBytes(tx.Data(), &m) != nil {
		return q, false
	}
	q.Action = m.Action
	switch m.Action {
	case staking.ValidatorCreate:
		var t staking.TxCreateValidator
		if rlp.DecodeBytes(m.Payload, &t) != nil {
			return q, false
		}
		q.Validator, q.Value = state.PubToAddress(t.MainPubKey), t.Value
	case staking.ValidatorUpdate:
		var t staking.TxUpdateValidator
		if rlp.DecodeBytes(m.Payload, &t) != nil {
			return q, false
		}
		q.Validator = t.MainAddress
	case staking.ValidatorDeposit:
		var t staking.TxValidatorDeposit
		if rlp.DecodeBytes(m.Payload, &t) != nil {
			return q, false
		}
		q.Validator, q.Value = t.MainAddress, t.Value
	case staking.ValidatorWithDraw:
		var t staking.TxValidatorWithdraw
		if rlp.DecodeBytes(m.Payload, &t) != nil {
			return q, false
		}
		q.Validator, q.Value = t.MainAddress, t.Value
	case staking.ValidatorChangeStatus:
		var t staking.TxValidatorChangeStatus
		if rlp.DecodeBytes(m.Payload, &t) != nil {
			return q, false
		}
		q.Validator, q.Status = t.MainAddress, t.Status
	case staking.ValidatorSettle:
		var t staking.TxValidatorSettle
		if rlp.DecodeBytes(m.Payload, &t) != nil {
			return q, false
		}
		q.Validator = t.MainAddress
	case staking.DelegationAdd, staking.DelegationSub:
		var t staking.TxDelegation
		if rlp.DecodeBytes(m.Payload, &t) != nil {
			return q, false
		}
		q.Validator, q.Value = t.Validator, t.Value
	case staking.DelegationSettle:
		var t staking.TxDelegationSettle
		if rlp.DecodeBytes(m.Payload, &t) != nil {
			return q, false
		}
		q.Validator = t.Validator
	default:
		return q, false
	}
	return q, true
}

// escrowFor: the tokens a transaction takes out of its sender's balance when it is accepted.  Ops with a fixed
// amount keep the table of escrowOf; ops whose amount depends on the state (dfill, vdfill, ...) are read back from
// the signed payload.  (Only transactions named by a staking record are ever looked up.)
func escrowFor(f *Fixture, op string, tx *types.Transaction) *big.Int {
	if e := escrowOf(f, op); e != nil {
		return e
	}
	if q, ok := decodeStk(tx); ok && q.Value != nil {
		switch q.Action {
		case staking.ValidatorCreate, staking.ValidatorDeposit, staking.DelegationAdd:
			return new(big.Int).Set(q.Value)
		}
	}
	return nil
}

// ---- start states and menu ------------------------------------------------------

func init() {
	// (StakingTrieFrequency 2: periods are blocks {2,3}, {4,5}, ...; the exploration starts with block 4)
	// s1 accepts delegations and stands exactly at MaxStakes with ONE delegator (L = D1 / D2)
	Prefixes["atmax-d1"] = []string{"c1:vupdate(s1)", "c1:", "c1:dfill(s1)"}
	Prefixes["atmax-d2"] = []string{"c1:vupdate(s1)", "c1:", "c1:dfill2(s1)"}
	// s1 at MaxStakes with TWO delegators (its delegation slots are full), D1 delegating to two validators (its own
	// slots are full), h2 accepting delegations
	Prefixes["atmax-full"] = []string{"c1:vupdate(s1)+vupdate(h1)+vupdate(h2)", "c1:dadd2(s1)+dadd(h1)", "c1:dfill(s1)"}
	// one unit below MaxStakes, one delegator
	Prefixes["belowmax-d1"] = []string{"c1:vupdate(s1)", "c1:", "c1:dfillm1(s1)"}
	// the same for StakingTrieFrequency 3 (periods {3,4,5}, {6,7,8}: the exploration starts with block 6)
	Prefixes["atmax-d1/3"] = []string{"c1:vupdate(s1)", "c1:", "c1:dfill(s1)", "c1:", "c1:"}
	Prefixes["atmax-d2/3"] = []string{"c1:vupdate(s1)", "c1:", "c1:dfill2(s1)", "c1:", "c1:"}
	Prefixes["atmax-full/3"] = []string{"c1:vupdate(s1)+vupdate(h1)+vupdate(h2)", "c1:", "c1:dadd2(s1)+dadd(h1)", "c1:dfill(s1)", "c1:"}
}

// prefixWant: what the start state of a limits prefix must look like (checked before it is explored).
func prefixWant(pn string) (total int64, delegators int) {
	switch strings.TrimSuffix(pn, "/3") {
	case "atmax-d1", "atmax-d2":
		return 60, 1
	case "atmax-full":
		return 60, 2
	case "belowmax-d1":
		return 59, 1
	}
	return 0, 0
}

// MenuLimits: the blocks explored from the at-the-limit states.  L leaves / J joins in both submission orders and
// both assignments of D1, D2 (and P, whose record sorts on the other side of the validator's own record); the
// validator's own deposit / withdraw / update next to them; equivocation evidence.
var MenuLimits = []string{
	"c1:", "s1:",
	"c1:dsuball(s1)", "c1:dsub(s1)", "c1:dsuball2(s1)", "c1:dsub2(s1)",
	"c1:dadd(s1)", "c1:dadd2(s1)", "c1:daddP(s1)",
	"c1:dsuball(s1)+dadd2(s1)", "c1:dsuball2(s1)+dadd(s1)",
	"c1:dfill(s1)", "c1:dfill2(s1)",
	"c1:vdeposit(s1)", "c1:vwithdraw(s1)", "c1:vwithdrawover(s1)", "c1:vnoaccept(s1)",
	"c1:!dsign(s1)",
	"c1:dadd(h2)", // D1 towards a third validator: refused at admission while D1's two slots are taken (start state atmax-full)
}

// MenuLimitsMore: thorough tier.
var MenuLimitsMore = []string{
	"c1:dfillP(s1)", "c1:dsuballP(s1)", "c1:vdfill(s1)", "c1:vwithdrawall(s1)", "c1:dsuball(h1)", "c1:dadd2(s1)+dsuball(s1)",
	"c1:voff(s1)", "c1:von(s1)", "c1:dfillm1(s1)",
}

// ExploreFrom: every sequence of <= depth blocks over the menu from each of the named scripted start states.
func ExploreFrom(r *mc.Run, hooks Hooks, cfg ParamCfg, menu []string, prefixes []string, depth int) {
	SetParams(cfg)
	for _, pn := range prefixes {
		pn := pn
		if r.Expired() {
			return
		}
		if _, ok := Prefixes[pn]; !ok {
			r.HarnessError("unknown scripted prefix " + pn)
			continue
		}
		// the start state is what its name says (else everything explored from it is beside the point)
		if total, dlg := prefixWant(pn); total > 0 {
			h := &Hist{F: Fix(), R: r, Prefix: Prefixes[pn], Hooks: Hooks{}}
			h.Reset()
			bad := ""
			if h.dead {
				bad = "a prefix block fails"
			} else {
				v := h.Node.State().GetValidatorByMainAddr(h.F.Val("s1").Main)
				n := h.Node.Head().NumberU64()
				switch {
				case v == nil:
					bad = "s1 missing"
				case v.Token.Cmp(Unit(total, 0)) != 0 || v.Delegations.Len() != dlg || v.AcceptDelegation != params.AcceptDelegation || !v.IsOnline():
					bad = fmt.Sprintf("s1 token %v delegations %d accept %d status %d, want %d units and %d delegations", v.Token, v.Delegations.Len(), v.AcceptDelegation, v.Status, total, dlg)
				case (n+1)%cfg.StakingTrieFrequency != 0:
					bad = fmt.Sprintf("head %d is not the last block of a staking period", n)
				}
			}
			h.Close()
			if bad != "" {
				r.HarnessError(fmt.Sprintf("scripted prefix %s (freq %d) does not reach its state: %s", pn, cfg.StakingTrieFrequency, bad))
				continue
			}
		}
		name := fmt.Sprintf("chain[%s|limits,freq=%d,maxRewardsPeriod=%d]", pn, cfg.StakingTrieFrequency, cfg.MaxRewardsPeriod)
		f := func() mc.Forker {
			return &Hist{F: Fix(), R: r, Menu: menu, Prefix: Prefixes[pn], Hooks: hooks}
		}
		r.DFSFork(f, mc.SeqOpts{Name: name, Config: fmt.Sprintf("%+v", cfg), Depth: depth, ShardDepth: 1})
	}
}

// ---- which exit did every pending transaction take ---------------------------------

// Take-effect exits (counter names).  "reachable" = made reachable by MenuLimits from the at-the-limit states
// (guarded by LimitsVacuity).
const (
	teAddMax       = "take_effect:delegation_add_refused(max_stakes)_refunded"
	teAddNoAccept  = "take_effect:delegation_add_refused(validator_not_accepting)_refunded"
	teAddExpelled  = "take_effect:delegation_add_refused(validator_expelled)_refunded"
	teDepositMax   = "take_effect:deposit_refused(max_stakes)_refunded"
	teStatusFailed = "take_effect:change_status_online_refused(min_stakes)"
	teSubNothing   = "take_effect:delegation_sub_failed(nothing_delegated)"
	teWdrCapped    = "take_effect:validator_withdraw_capped_to_self_token"
	teWdrAll       = "take_effect:validator_withdraw_raised_to_all(min_self_stakes)"
	teWdrAsked     = "take_effect:validator_withdraw_as_requested"
	teSubCapped    = "take_effect:delegation_sub_capped_to_delegation"
	teSubAll       = "take_effect:delegation_sub_raised_to_all(min_delegation_tokens)"
	teSubAsked     = "take_effect:delegation_sub_as_requested"
	teAddOK        = "take_effect:delegation_add_effective"
	teDepositOK    = "take_effect:deposit_effective"
	teCreateOK     = "take_effect:create_effective"
	teCreateLost   = "take_effect:create_without_validator"
	teAddFirst     = "take_effect_order:an_add_is_evaluated_before_a_sub/withdraw_of_the_same_validator"
	teSubFirst     = "take_effect_order:a_sub/withdraw_is_evaluated_before_an_add_of_the_same_validator"
	teRefundExact  = "take_effect:refund_checked_exactly_on_the_sender's_balance"
	teRefundSkip   = "take_effect:refund_not_checkable_on_the_balance(sender_has_rewards_or_withdrawals)"
	teForcedOffVal = "take_effect:validator_forced_offline"
)

var teGuarded = []string{"admission:delegation_add_refused(max_delegations_for_delegator)", "admission:delegation_add_refused(max_delegations_for_validator)",
	"admission:delegation_add_refused(max_stakes_on_the_pending_total)", teAddMax, teAddNoAccept, teAddExpelled, teDepositMax, teSubNothing, teWdrCapped, teWdrAll, teSubCapped, teSubAll, teAddFirst, teSubFirst, teRefundExact}

// LimitsVacuity: every exit the limits exploration was built to reach must have been reached.
func LimitsVacuity(r *mc.Run) {
	if r.Expired() {
		return
	}
	for _, k := range teGuarded {
		if *r.Counter(k) == 0 {
			r.HarnessError("vacuous: no explored history reached " + k)
		}
	}
}

func topicIs(l *types.Log, s string) bool {
	return len(l.Topics) > 0 && l.Topics[0] == common.StringToHash(s)
}

// TakeEffectExits is a Hooks.PerBlock observer for period-end blocks.
func TakeEffectExits(h *Hist, op string, b *Built, pre *Node) (out []mc.Violation) {
	n := b.Block.NumberU64()
	if m, w := mc.CatchStack(func() { admissionRefusals(h, b, pre) }); m != "" {
		h.R.HarnessError("admission observer panics at " + w + ": " + m)
	}
	if (n+1)%V5().StakingTrieFrequency != 0 || len(b.Receipts) <= len(b.Included) {
		return nil
	}
	msg, where := mc.CatchStack(func() { out = takeEffectExits(h, b, pre) })
	if msg != "" {
		h.R.HarnessError("take-effect observer panics at " + where + ": " + msg)
	}
	return out
}

// admissionRefusals: why the FIRST transaction of the block, if it is a DelegationAdd that was included with status 0,
// was refused at admission - read off the state the transaction ran on (parent state with the staking trie of the
// block's period), in the order of the checks of handleDelegationAdd.  Counters only (which admission limits the
// explored histories run into: the delegation-count limits have no take-effect exit, they exist at admission only).
func admissionRefusals(h *Hist, b *Built, pre *Node) {
	if len(b.Included) == 0 || b.Receipts[0].Status != 0 {
		return
	}
	tx := b.Included[0]
	q, ok := decodeStk(tx)
	if !ok || q.Action != staking.DelegationAdd {
		return
	}
	yp := V5()
	ph := pre.Head().Header()
	st, err := pre.BC.StateAt(ph.Root, ph.ValRoot, core.StakingRootForNewBlock(yp.StakingTrieFrequency, ph))
	if err != nil {
		return
	}
	from, _ := types.Sender(types.MakeSigner(b.Block.Number()), tx)
	v := st.GetValidatorByMainAddr(q.Validator)
	why := "other"
	switch {
	case v == nil:
		why = "no_such_validator"
	case v.AcceptDelegation != params.AcceptDelegation:
		why = "validator_not_accepting"
	case v.Expelled:
		why = "validator_expelled"
	case q.Value.Cmp(yp.MinDelegationTokens) < 0:
		why = "below_min_delegation_tokens"
	case new(big.Int).Sub(st.GetBalance(from), new(big.Int).Mul(new(big.Int).SetUint64(tx.Gas()), tx.GasPrice())).Cmp(q.Value) < 0:
		why = "insufficient_balance"
	case !(v.Delegations.Exist(from) || st.PendingRelationshipExist(from, q.Validator)) && uint64(st.GetCountOfDelegateTo(from)+st.DelegatorPendingCount(from)) >= uint64(yp.MaxDelegationForDelegator):
		why = "max_delegations_for_delegator"
	case !(v.Delegations.Exist(from) || st.PendingRelationshipExist(from, q.Validator)) && uint64(v.Delegations.Len()+st.ValidatorPendingCount(q.Validator)) >= uint64(yp.MaxDelegationForValidator):
		why = "max_delegations_for_validator"
	case params.YOUToStake(new(big.Int).Add(pendingTotal(st, v), q.Value)).Uint64() > yp.MaxStakes[v.Role]:
		why = "max_stakes_on_the_pending_total"
	}
	h.R.Count("admission:delegation_add_refused("+why+")", 1)
}

type pendTx struct {
	tx   *types.Transaction
	from common.Address
	q    stkReq
}

func takeEffectExits(h *Hist, b *Built, pre *Node) (out []mc.Violation) {
	n := b.Block.NumberU64()
	post, prev := h.Node.State(), pre.State()
	signer := types.MakeSigner(b.Block.Number())
	// the pending transactions of the ended period in the order they took effect (the records are still in the
	// period-end state; the trie is reset by the next block)
	var pend []pendTx
	byHash := map[common.Hash]pendTx{}
	err := post.ForEachStakingRecord(func(d, v common.Address, rec *state.Record) error {
		for _, th := range rec.TxHashes {
			tx, _, _, _ := rawdb.ReadTransaction(h.Node.DB, th)
			if tx == nil {
				return fmt.Errorf("pending tx %x not stored", th[:4])
			}
			q, ok := decodeStk(tx)
			if !ok {
				return fmt.Errorf("pending tx %x is not a staking tx", th[:4])
			}
			from, _ := types.Sender(signer, tx)
			p := pendTx{tx, from, q}
			pend = append(pend, p)
			byHash[th] = p
		}
		return nil
	})
	if err != nil {
		h.R.HarnessError("take-effect observer: " + err.Error())
		return nil
	}
	if len(pend) == 0 {
		return nil
	}
	// order dimension
	seenAdd, seenSub := map[common.Address]bool{}, map[common.Address]bool{}
	addFirst, subFirst := false, false
	for _, p := range pend {
		switch p.q.Action {
		case staking.DelegationAdd, staking.ValidatorDeposit:
			if seenSub[p.q.Validator] {
				subFirst = true
			}
			seenAdd[p.q.Validator] = true
		case staking.DelegationSub, staking.ValidatorWithDraw:
			if seenAdd[p.q.Validator] {
				addFirst = true
			}
			seenSub[p.q.Validator] = true
		}
	}
	if addFirst {
		h.R.Count(teAddFirst, 1)
	}
	if subFirst {
		h.R.Count(teSubFirst, 1)
	}
	// failures named by the period-end receipt
	failed := map[common.Hash]bool{}
	refund := map[common.Address]*big.Int{}
	for _, l := range b.Receipts[len(b.Receipts)-1].Logs {
		switch {
		case topicIs(l, staking.LogTopicDelegationAddFailed), topicIs(l, staking.LogTopicDepositFailed):
			p, ok := byHash[l.TxHash]
			if !ok {
				h.R.HarnessError("failure log names a tx that is not pending")
				continue
			}
			failed[l.TxHash] = true
			if refund[p.from] == nil {
				refund[p.from] = new(big.Int)
			}
			refund[p.from].Add(refund[p.from], p.q.Value)
			if topicIs(l, staking.LogTopicDepositFailed) {
				h.R.Count(teDepositMax, 1)
			} else if len(l.Topics) > 1 && l.Topics[1][0] == 0x1 {
				h.R.Count(teAddMax, 1)
			} else if v := post.GetValidatorByMainAddr(p.q.Validator); v != nil && v.Expelled {
				h.R.Count(teAddExpelled, 1)
			} else {
				h.R.Count(teAddNoAccept, 1)
			}
		case topicIs(l, staking.LogTopicChangeStatusFailed):
			h.R.Count(teStatusFailed, 1)
		case topicIs(l, staking.LogTopicDelegationSubFailed):
			h.R.Count(teSubNothing, 1)
		}
	}
	for _, p := range pend {
		if failed[p.tx.Hash()] {
			continue
		}
		switch p.q.Action {
		case staking.DelegationAdd:
			h.R.Count(teAddOK, 1)
		case staking.ValidatorDeposit:
			h.R.Count(teDepositOK, 1)
		case staking.ValidatorCreate:
			if post.GetValidatorByMainAddr(p.q.Validator) != nil {
				h.R.Count(teCreateOK, 1)
			} else {
				h.R.Count(teCreateLost, 1)
			}
		}
	}
	// withdrawals scheduled by this block: asked vs scheduled
	for _, w := range post.GetWithdrawQueue().Records {
		if w.CreationHeight != n {
			continue
		}
		p, ok := byHash[w.TxHash]
		if !ok || p.q.Value == nil {
			continue
		}
		c := w.InitialBalance.Cmp(p.q.Value)
		if w.Delegator == (common.Address{}) {
			h.R.Count(map[int]string{-1: teWdrCapped, 0: teWdrAsked, 1: teWdrAll}[c], 1)
		} else {
			h.R.Count(map[int]string{-1: teSubCapped, 0: teSubAsked, 1: teSubAll}[c], 1)
		}
	}
	for _, v := range post.GetValidatorsForUpdate() {
		if o := prev.GetValidatorByMainAddr(v.MainAddress()); o != nil && o.IsOnline() && !v.IsOnline() && !v.Expelled {
			forced := true
			for _, p := range pend {
				if p.q.Action == staking.ValidatorChangeStatus && p.q.Validator == v.MainAddress() {
					forced = false
				}
			}
			if forced {
				h.R.Count(teForcedOffVal, 1)
			}
		}
	}
	// direct oracle: a sender whose delegation / deposit failed to activate has exactly its tokens back.  Checked on
	// the sender's balance where nothing else can move it in this block: fees and escrow of its own transactions of
	// this block are known; the sender must not be a delegator (rewards are settled to delegators) nor the recipient
	// of an unfinished withdrawal, neither before nor after the block.
	var who []common.Address
	for a := range refund {
		who = append(who, a)
	}
	sort.Slice(who, func(i, j int) bool { return bytes.Compare(who[i][:], who[j][:]) < 0 })
	for _, a := range who {
		clean := prev.GetCountOfDelegateTo(a) == 0 && post.GetCountOfDelegateTo(a) == 0
		for _, q := range [](*state.WithdrawQueue){prev.GetWithdrawQueue(), post.GetWithdrawQueue()} {
			for _, w := range q.Records {
				if w.Recipient == a {
					clean = false
				}
			}
		}
		want := new(big.Int).Add(prev.GetBalance(a), refund[a])
		for i, tx := range b.Included {
			from, _ := types.Sender(signer, tx)
			if tx.To() != nil && *tx.To() == a {
				clean = false // the sender is paid by a transfer of this block
			}
			if from != a {
				continue
			}
			if _, isStk := decodeStk(tx); !isStk {
				clean = false // value transfers / contract calls of the sender in this block (incl. the known gas-refund defect)
			}
			want.Sub(want, new(big.Int).Mul(new(big.Int).SetUint64(b.Receipts[i].GasUsed), tx.GasPrice()))
			want.Sub(want, tx.Value())
			if b.Receipts[i].Status == 1 {
				if e := escrowFor(h.F, h.Txs[tx.Hash()].Op, tx); e != nil {
					want.Sub(want, e)
				}
			}
		}
		if !clean {
			h.R.Count(teRefundSkip, 1)
			continue
		}
		h.R.Count(teRefundExact, 1)
		if got := post.GetBalance(a); got.Cmp(want) != 0 {
			out = append(out, mc.Violation{Sig: "a delegation or deposit that failed to activate is not refunded exactly to its sender",
				Detail: fmt.Sprintf("block %d sender %s: balance %v, expected %v (before the block %v, refunds due %v): difference %v", n, h.F.nameOf(a), got, want, prev.GetBalance(a), refund[a], new(big.Int).Sub(got, want))})
		}
	}
	return out
}

// stateErrViolation: the block's StateDB memorised an error while the block was executed (Built.StateErr) and the
// block was sealed and stored all the same.  The one error the explored histories produce: a staking record whose
// FinalValue went negative can not be RLP-encoded, StateDB.updateStakingTrie gives up at that record (the first in key
// order: the validator's own record), so the records of the transactions just accepted never reach the staking trie
// - the tokens they took from their senders are gone - and at the period end processPendingTxs fails as a whole:
// nothing that was pending in that period takes effect.
func stateErrViolation(h *Hist, b *Built) mc.Violation {
	h.R.Count("blocks_sealed_although_the_state_reported_an_error", 1)
	s, _ := SupplyOf(h.Node, h.Txs)
	return mc.Violation{Sig: "block sealed although updating the staking trie failed: " + normErr(b.StateErr.Error()) + " (pending staking records of the period are lost)",
		Detail: fmt.Sprintf("block %d (%s): StateDB.Error() = %v; supply at the start %v, now %v\n%s", b.Block.NumberU64(), supplyContext(h, b), b.StateErr, h.Genesis, s.Total, s)}
}

// residueLostWithDeletedValidator recognises one specific supply defect: a validator whose whole stake is withdrawn
// (Token == 0 after the period end) is deleted at Finalise.  When one of its pending transactions took effect, its
// rewards were settled first (processPendingTxs -> settleValidatorRewards), and for an ONLINE validator the settlement
// leaves the rounding residue (total % Stake, i.e. fewer wei than the validator has stake units) in
// RewardsDistributable; the full withdrawal then empties the record and the residue is deleted with it.  Returns the
// names of the validators deleted by this block ("" if the loss can not be attributed): the loss must be smaller
// than the sum of their stakes before the block, counted in wei.
func residueLostWithDeletedValidator(pre, post *Node, diff *big.Int) string {
	if diff.Sign() >= 0 {
		return ""
	}
	after := post.State()
	bound := new(big.Int)
	var who []string
	for _, v := range pre.State().GetValidatorsForUpdate() {
		if after.GetValidatorByMainAddr(v.MainAddress()) == nil {
			who = append(who, v.Name)
			bound.Add(bound, v.Stake)
		}
	}
	if len(who) == 0 || new(big.Int).Neg(diff).Cmp(bound) >= 0 {
		return ""
	}
	return strings.Join(who, ",")
}

func (f *Fixture) nameOf(a common.Address) string {
	for _, x := range f.Accounts {
		if x.Addr == a {
			return x.Name
		}
	}
	return a.Hex()
}
