package chainx

import (
	"fmt"
	"math/big"
	"strings"

	"github.com/youchainhq/go-youchain/common"
	"github.com/youchainhq/go-youchain/core/state"
	"github.com/youchainhq/go-youchain/core/types"
	"github.com/youchainhq/go-youchain/params"
	"github.com/youchainhq/go-youchain/staking"

	"verif/mc"
)

// Hooks are the per-property oracles evaluated after every built block.
type Hooks struct {
	Imports int  // number of independent imports (re-executions) of every built block (C06)
	Supply  bool // C07
	Links   bool // C08
	// Warm: every explored path is also built block by block on ONE node that is never reopened (warm caches from
	// genesis on); its head must equal the head of the explored lineage, whose nodes are reopened from a database
	// copy before every block (cold caches).  Execution must not depend on cache contents (C06).
	Warm bool
	// Worker: every block is also assembled by the REAL miner worker (miner.worker.commitNewWork through the hook
	// miner.VerifBuildBlock, fed by a real core.TxPool) on a copy of the pre-block node; its block must be accepted
	// unchanged by an independent importer, and must agree with the mirror builder's block on every header field but
	// Time and on the transactions (worker.go).  Applied to the blocks of the scripted prefix as well.
	Worker   bool
	PerBlock func(h *Hist, op string, b *Built, pre *Node) []mc.Violation
}

// Hist is the block-history system: one op = one block (coinbase + symbolic
// txs + injected evidences), built on the real node by the builder path.
type Hist struct {
	F      *Fixture
	R      *mc.Run
	Menu   []string
	Prefix []string // scripted warm-up blocks (non-initial start states)
	Hooks  Hooks

	Node    *Node
	Path    []string // block ops applied since Reset (without the prefix)
	Txs     map[common.Hash]TxInfo
	Genesis *big.Int // supply at genesis
	viols   []mc.Violation
	dead    bool
	inPre   bool
	// violations of the worker oracles in blocks of the scripted prefix: reported with the first explored block
	preViols []mc.Violation
}

func (h *Hist) Reset() {
	if h.Node != nil {
		h.Node.Close()
	}
	h.Node = NewNode(h.F)
	h.Txs = map[common.Hash]TxInfo{}
	h.viols, h.dead, h.Path, h.preViols = nil, false, nil, nil
	s, err := SupplyOf(h.Node, h.Txs)
	if err != nil {
		panic(err)
	}
	h.Genesis = s.Total
	h.inPre = true
	for _, op := range h.Prefix {
		h.Apply(op)
		if h.dead || len(h.viols) > 0 {
			// a block of the scripted prefix fails: that is a violation of the start state, reported here
			// (the explorer does not visit the root), and nothing is explored from it
			for _, v := range h.viols {
				v.System = "scripted prefix " + strings.Join(h.Prefix, " ; ")
				v.Config = fmt.Sprintf("%+v", curCfg)
				v.Detail = fmt.Sprintf("in scripted prefix block %q; %s", op, v.Detail)
				v.Ops = []string{}
				h.R.Report(v)
			}
			if len(h.viols) == 0 {
				h.R.Count("scripted_prefixes_ended_early_without_a_violation(logging_crit_judged_by_C07)", 1)
			}
			h.dead = true
			h.viols = nil
			break
		}
	}
	h.inPre = false
	// the oracle's baseline is the supply at the start state of the exploration (a scripted
	// prefix is itself a path of the from-genesis exploration and is judged there)
	if len(h.Prefix) > 0 && !h.dead {
		s, err := SupplyOf(h.Node, h.Txs)
		if err != nil {
			panic(err)
		}
		h.Genesis = s.Total
	}
}

func (h *Hist) Fork() mc.Forker {
	c := *h
	c.Node = h.Node.Fork()
	c.Txs = make(map[common.Hash]TxInfo, len(h.Txs))
	for k, v := range h.Txs {
		c.Txs[k] = v
	}
	c.viols = nil
	c.Path = append([]string{}, h.Path...)
	return &c
}

func (h *Hist) Close() {
	if h.Node != nil {
		h.Node.Close()
		h.Node = nil
	}
}

func (h *Hist) Enabled() []string {
	if h.dead {
		return nil
	}
	// driver assumption (consensus eligibility): the proposer of block n is an
	// online chamber validator of the stake look-back state (n - StakeLookBack),
	// which is where the sortition of the real engine draws proposers from
	var ops []string
	elig := map[string]bool{}
	var lb *state.StateDB
	for _, op := range h.Menu {
		cb := op[:strings.Index(op, ":")]
		ok, seen := elig[cb]
		if !seen {
			if lb == nil {
				lb = h.lookBackState()
			}
			ok = h.eligibleIn(lb, cb)
			elig[cb] = ok
		}
		if ok {
			ops = append(ops, op)
		}
	}
	return ops
}

func (h *Hist) lookBackState() *state.StateDB {
	if h.Node == nil {
		return nil
	}
	n := h.Node.Head().NumberU64() + 1
	lb := uint64(0)
	if n > V5().StakeLookBack {
		lb = n - V5().StakeLookBack
	}
	hd := h.Node.BC.GetHeaderByNumber(lb)
	if hd == nil {
		return nil
	}
	st, err := h.Node.BC.StateAt(hd.Root, hd.ValRoot, hd.StakingRoot)
	if err != nil {
		return nil
	}
	return st
}

func (h *Hist) eligibleIn(st *state.StateDB, cb string) bool {
	if st == nil {
		return true
	}
	v := st.GetValidatorByMainAddr(h.F.Val(cb).Main)
	return v != nil && v.IsOnline() && v.Role != params.RoleHouse
}

func (h *Hist) eligible(cb string) bool { return h.eligibleIn(h.lookBackState(), cb) }

func (h *Hist) Check() []mc.Violation { return h.viols }

func (h *Hist) Key() string {
	if h.dead || h.Node == nil {
		return ""
	}
	return h.Node.Head().Hash().Hex()
}

func (h *Hist) fail(sig, detail string) {
	h.viols = append(h.viols, mc.Violation{Sig: sig, Detail: detail})
}

// ParseBlockOp: "cb:item+item" ; items "!kind(arg)" are evidence injections.
func ParseBlockOp(op string) (cb string, txs, evs []string) {
	i := strings.Index(op, ":")
	cb = op[:i]
	for _, it := range strings.Split(op[i+1:], "+") {
		if it == "" {
			continue
		}
		if it[0] == '!' {
			evs = append(evs, it[1:])
		} else {
			txs = append(txs, it)
		}
	}
	return
}

func escrowOf(f *Fixture, op string) *big.Int {
	name, arg := op, ""
	if i := strings.Index(op, "("); i > 0 {
		name, arg = op[:i], op[i+1:len(op)-1]
	}
	switch name {
	case "vcreate":
		return new(big.Int).Set(f.Val(arg).Token)
	case "vdeposit":
		return Unit(1, 500000000000000000)
	case "dadd":
		return Unit(3, 700000000000000009)
	case "dadd2":
		return Unit(2, 1)
	}
	return nil
}

func normErr(e string) string {
	// strip hashes / numbers so that one failure has one signature
	var b strings.Builder
	for _, f := range strings.Fields(e) {
		if strings.ContainsAny(f, "0123456789") && len(f) > 6 {
			b.WriteString("# ")
			continue
		}
		b.WriteString(f + " ")
	}
	s := strings.TrimSpace(b.String())
	if len(s) > 100 {
		s = s[:100]
	}
	return s
}

func (h *Hist) Apply(op string) string {
	h.viols = nil
	cbName, txOps, evOps := ParseBlockOp(op)
	cb := h.F.Val(cbName).Main
	pre := h.Node.Fork()
	defer pre.Close()
	st := h.Node.State()
	num := new(big.Int).Add(h.Node.Head().Number(), common.Big1())
	var txs []*types.Transaction
	// several txs of one sender in one block need consecutive nonces: build against a scratch copy
	for _, t := range txOps {
		tx, err := h.F.MkTx(st, num, t)
		if err != nil {
			panic("harness: " + err.Error())
		}
		from, _ := types.Sender(types.MakeSigner(num), tx)
		st.SetNonce(from, st.GetNonce(from)+1) // scratch state only (never committed)
		h.Txs[tx.Hash()] = TxInfo{Op: t, Escrow: escrowFor(h.F, t, tx)}
		txs = append(txs, tx)
	}
	var evs []staking.Evidence
	for _, e := range evOps {
		for _, ev := range h.F.MkEvidence(h.Node, e) {
			h.Node.Staking.VerifAddEvidence(ev)
			evs = append(evs, ev)
		}
	}
	var built *Built
	var berr error
	msg, where := mc.CatchStack(func() { built, berr = h.Node.Build(cb, txs) })
	if msg != "" {
		h.dead = true
		if strings.HasPrefix(msg, "logging.Crit") {
			// a deliberate halt of the node: judged by C07 (Hooks.Supply), which owns the
			// "no block boundary is lost" oracle; for the other checks the path ends here
			if h.Hooks.Supply {
				h.fail("builder reached logging.Crit: "+normErr(strings.TrimPrefix(msg, "logging.Crit: ")), msg)
			} else {
				h.R.Count("paths_ended_by_logging_crit_in_the_builder(judged_by_C07)", 1)
			}
		} else {
			h.fail(fmt.Sprintf("builder panics at %s: %s", where, normErr(msg)), msg)
		}
		return "PANIC " + msg
	}
	if berr != nil {
		h.dead = true
		h.fail("builder fails: "+normErr(berr.Error()), berr.Error())
		return "ERR " + berr.Error()
	}
	ob := fmt.Sprintf("#%d txs=%d/%d status=%s", built.Block.NumberU64(), len(built.Included), len(txs), statuses(built))
	var wviols []mc.Violation
	if h.Hooks.Worker {
		wviols = h.workerOracles(op, cb, txs, evs, built, pre)
	}
	if h.inPre {
		h.preViols = append(h.preViols, wviols...)
		return ob
	}
	h.Path = append(h.Path, op)
	if len(h.Path) == 1 {
		h.viols = append(h.viols, h.preViols...)
	}
	h.viols = append(h.viols, wviols...)
	if h.Hooks.Warm {
		h.warmReplay(built)
	}
	// C06: every independent import of the block succeeds unchanged
	for i := 0; i < h.Hooks.Imports; i++ {
		b := pre.Fork() // never pre itself: the other oracles compare against the pre-block state
		var ierr error
		m, w := mc.CatchStack(func() { ierr = b.Import(built.Block) })
		if m == "" && ierr == nil && b.Head().Hash() != built.Block.Hash() {
			ierr = fmt.Errorf("imported block did not become head")
		}
		b.Close()
		h.R.Count("imports_of_built_blocks", 1)
		if m != "" {
			h.fail(fmt.Sprintf("import path panics at %s: %s", w, normErr(m)), m)
			break
		}
		if ierr != nil {
			h.fail("import path rejects the built block: "+normErr(ierr.Error()), fmt.Sprintf("import #%d: %v", i, ierr))
			break
		}
	}
	if h.Hooks.Supply && built.StateErr != nil {
		// the staking trie could not be updated and the block was sealed all the same (limits.go): judged on its own,
		// under its own signature; the state the path would go on with has lost pending records
		h.viols = append(h.viols, stateErrViolation(h, built))
		h.dead = true
		return ob
	}
	if h.Hooks.Supply {
		s, err := SupplyOf(h.Node, h.Txs)
		h.R.Count("supply_checks", 1)
		if err != nil {
			h.fail("supply dump fails: "+normErr(err.Error()), err.Error())
		} else if s.Total.Cmp(h.Genesis) != 0 {
			diff := new(big.Int).Sub(s.Total, h.Genesis)
			dir := "created"
			if diff.Sign() < 0 {
				dir = "destroyed"
			}
			detail := fmt.Sprintf("expected %v now %v diff %v\n%s", h.Genesis, s.Total, diff, s)
			if refundMint(h, built, diff) {
				// second attributed defect: gas used (and with it header.GasRewards, which the block rewards pay
				// out) is reported BEFORE the SSTORE refund is applied, so refund x price is paid twice.
				h.fail("tokens created by a refund-earning transaction: header.GasRewards is computed from the gas used before the refund, the sender gets the refund back as well",
					detail)
				h.Genesis = s.Total
				h.R.Count("refund_mints_attributed", 1)
			} else if who := forcedSettleLoss(pre, built, diff); who != "" {
				// attributed to one specific defect: report it under its own signature and
				// rebase, so that any OTHER supply change on this path is still seen.
				h.fail("tokens destroyed at a forced-settle period end: the rewards just distributed to an online validator are overwritten by settling its stale record",
					"force-settled online validators: "+who+"\n"+detail)
				h.Genesis = s.Total
				h.R.Count("forced_settle_losses_attributed", 1)
			} else if who := residueLostWithDeletedValidator(pre, h.Node, diff); who != "" {
				// third attributed defect (limits.go): a validator record deleted in this block (whole stake withdrawn)
				// takes the rounding residue of its last settlement with it; bounded by its stake, in wei
				h.fail("tokens destroyed when a validator record is deleted: the rounding residue of its last rewards settlement (RewardsDistributable, fewer wei than it had stake units) is deleted with the record",
					"deleted validators: "+who+"\n"+detail)
				h.Genesis = s.Total
				h.R.Count("residue_losses_with_deleted_validators_attributed", 1)
			} else {
				h.fail(fmt.Sprintf("tokens %s: total supply changed (%s)", dir, supplyContext(h, built)), detail)
				h.dead = true // later blocks only repeat the same discrepancy
			}
		}
	}
	if h.Hooks.Links {
		h.viols = append(h.viols, LinkViolations(h, op, pre)...)
	}
	if h.Hooks.PerBlock != nil {
		h.viols = append(h.viols, h.Hooks.PerBlock(h, op, built, pre)...)
	}
	return ob
}

// forcedSettleLoss recognises the one known supply defect: at a period end,
// distributeRewards adds the period's rewards to a copy of an online validator,
// stores it, and then - when a forced settlement is due - settles the STALE
// record and stores that, which overwrites the rewards just added.  Returns the
// names of the validators for which this applies ("" if the loss can not be
// attributed to it): period-end block, loss bounded by what was distributable,
// and an online validator whose forced settlement was due in this block.
func forcedSettleLoss(pre *Node, b *Built, diff *big.Int) string {
	yp := V5()
	n := b.Block.NumberU64()
	if diff.Sign() >= 0 || (n+1)%yp.StakingTrieFrequency != 0 {
		return ""
	}
	gap := yp.MaxRewardsPeriod * yp.StakingTrieFrequency
	st := pre.State()
	var who []string
	for _, v := range st.GetValidatorsForUpdate() {
		if v.IsOnline() && v.RewardsLastSettled < n && v.RewardsLastSettled+gap <= n {
			who = append(who, v.Name)
		}
	}
	if len(who) == 0 {
		return ""
	}
	// bound: nothing more than the pools (before the block) plus this block's rewards can be lost this way
	bound := new(big.Int).SetUint64(yp.SubsidyThreshold) // a block's subsidy is < threshold (coefficient <= 9 over 10)
	bound.Add(bound, b.Block.Header().GasRewards)
	stat, _ := st.GetValidatorsStat()
	for _, ro := range []params.ValidatorRole{params.RoleChancellor, params.RoleSenator, params.RoleHouse} {
		bound.Add(bound, stat.GetByRole(ro).GetRewardsDistributable())
	}
	bound.Add(bound, stat.GetRewardResidue())
	if new(big.Int).Neg(diff).Cmp(bound) > 0 {
		return ""
	}
	return strings.Join(who, ",")
}

// refundMint recognises the known gas-accounting defect: the block holds a successful call of the clearing contract
// (the only refund-earning tx of the menu) and the supply grew by at most the capped refund (gasUsed/2) x price.
func refundMint(h *Hist, b *Built, diff *big.Int) bool {
	if diff.Sign() <= 0 {
		return false
	}
	bound := new(big.Int)
	for i, tx := range b.Included {
		if h.Txs[tx.Hash()].Op == "clear" && b.Receipts[i].Status == 1 {
			bound.Add(bound, new(big.Int).Mul(new(big.Int).SetUint64(b.Receipts[i].GasUsed/2), tx.GasPrice()))
		}
	}
	return bound.Sign() > 0 && diff.Cmp(bound) <= 0
}

// BuildOnly builds the block a block op stands for on h.Node (txs signed against the head state,
// evidences injected) without running any oracle.
func (h *Hist) BuildOnly(op string) (*types.Block, error) {
	cbName, txOps, evOps := ParseBlockOp(op)
	st := h.Node.State()
	num := new(big.Int).Add(h.Node.Head().Number(), common.Big1())
	var txs []*types.Transaction
	for _, t := range txOps {
		tx, err := h.F.MkTx(st, num, t)
		if err != nil {
			return nil, err
		}
		from, _ := types.Sender(types.MakeSigner(num), tx)
		st.SetNonce(from, st.GetNonce(from)+1)
		if h.Txs != nil {
			h.Txs[tx.Hash()] = TxInfo{Op: t, Escrow: escrowFor(h.F, t, tx)}
		}
		txs = append(txs, tx)
	}
	for _, e := range evOps {
		for _, ev := range h.F.MkEvidence(h.Node, e) {
			h.Node.Staking.VerifAddEvidence(ev)
		}
	}
	b, err := h.Node.Build(h.F.Val(cbName).Main, txs)
	if err != nil {
		return nil, err
	}
	return b.Block, nil
}

// warmReplay builds prefix + path on one never-reopened node and compares heads.
func (h *Hist) warmReplay(built *Built) {
	w := &Hist{F: h.F, R: h.R, Node: NewNode(h.F)}
	defer w.Node.Close()
	var err error
	msg, where := mc.CatchStack(func() {
		for _, op := range append(append([]string{}, h.Prefix...), h.Path...) {
			if _, err = w.BuildOnly(op); err != nil {
				return
			}
		}
	})
	h.R.Count("warm_replays", 1)
	switch {
	case msg != "":
		h.fail(fmt.Sprintf("builder panics on a node that was never reopened at %s", where), msg)
	case err != nil:
		h.fail("builder fails on a node that was never reopened: "+normErr(err.Error()), err.Error())
	case w.Node.Head().Hash() != built.Block.Hash():
		a, b := w.Node.Head().Header(), built.Block.Header()
		var d []string
		if a.Root != b.Root {
			d = append(d, "state root")
		}
		if a.ValRoot != b.ValRoot {
			d = append(d, "validator root")
		}
		if a.StakingRoot != b.StakingRoot {
			d = append(d, "staking root")
		}
		if a.ReceiptHash != b.ReceiptHash {
			d = append(d, "receipt root")
		}
		if a.GasUsed != b.GasUsed {
			d = append(d, "gas used")
		}
		if len(d) == 0 {
			d = append(d, "other header field")
		}
		h.fail("execution depends on cache contents: a node that stayed up and a node reopened from its database build different blocks ("+strings.Join(d, ", ")+")",
			fmt.Sprintf("path %v: warm head %s cold head %s", h.Path, a.Hash().Hex(), b.Hash().Hex()))
	}
}

func statuses(b *Built) string {
	var s []string
	for i := range b.Included {
		s = append(s, fmt.Sprint(b.Receipts[i].Status))
	}
	return strings.Join(s, "")
}

// supplyContext classifies where a supply change happened, to keep one
// signature per cause: the kind of block (period end or not, forced settle due)
// rather than the concrete amounts.
func supplyContext(h *Hist, b *Built) string {
	n := b.Block.NumberU64()
	freq := V5().StakingTrieFrequency
	kind := "inside a staking period"
	if (n+1)%freq == 0 {
		kind = "at a staking period end"
	}
	var ops []string
	for _, tx := range b.Included {
		op := h.Txs[tx.Hash()].Op
		if i := strings.Index(op, "("); i > 0 {
			op = op[:i]
		}
		ops = append(ops, op)
	}
	if len(b.Block.Header().SlashData) > 0 {
		ops = append(ops, "slashdata")
	}
	return fmt.Sprintf("%s, block txs [%s]", kind, strings.Join(ops, ","))
}
