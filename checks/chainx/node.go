// Package chainx is the chain-level harness shared by C05, C06, C07, C08 and
// C11: a real core.BlockChain + StateProcessor + staking module on an in-memory
// database, a block builder that calls the same functions in the same order as
// miner.worker.commitNewWork, the import path (InsertChain) on an independent
// copy of the database, cheap forking of a node (database copy + reopen), a full
// state dump and the oracles built on it.
package chainx

import (
	"crypto/ecdsa"
	"fmt"
	"math/big"
	"sync"

	"github.com/youchainhq/go-youchain/bls"
	"github.com/youchainhq/go-youchain/common"
	"github.com/youchainhq/go-youchain/consensus"
	"github.com/youchainhq/go-youchain/consensus/solo"
	"github.com/youchainhq/go-youchain/core"
	"github.com/youchainhq/go-youchain/core/state"
	"github.com/youchainhq/go-youchain/core/types"
	"github.com/youchainhq/go-youchain/crypto"
	"github.com/youchainhq/go-youchain/event"
	"github.com/youchainhq/go-youchain/local"
	"github.com/youchainhq/go-youchain/logging"
	"github.com/youchainhq/go-youchain/params"
	"github.com/youchainhq/go-youchain/staking"
	"github.com/youchainhq/go-youchain/youdb"
)

// ---- parameters -----------------------------------------------------------

// ParamCfg is the scaled-down protocol table (installed into params.Versions,
// which is an exported mutable map; one configuration per process at a time).
type ParamCfg struct {
	StakingTrieFrequency uint64
	MaxRewardsPeriod     uint64
	WithdrawDelay        uint64
	WithdrawRetention    uint64
	InactivityWait       uint64
	PenaltyInactive      uint64
	// PoolTenths: genesis balance of the rewards pool in tenths of a YOU (0 = the
	// default of 1000 units + 1, which no bounded history can drain)
	PoolTenths uint64
	// ExtraChamber: number (0..2) of additional online senators (s2, s3) in genesis.  They never
	// propose (no menu names them), so under a short InactivityWait they are slashed for
	// inactivity together, in one period-end block
	ExtraChamber uint64
}

var DefaultCfg = ParamCfg{StakingTrieFrequency: 2, MaxRewardsPeriod: 2, WithdrawDelay: 2, WithdrawRetention: 1, InactivityWait: 1000, PenaltyInactive: 1}

var (
	setupOnce sync.Once
	origV5    params.YouParams
	critMu    sync.Mutex
)

// CritPanic is what logging.Crit turns into under the verification hook.
type CritPanic struct{ Msg string }

func (c CritPanic) Error() string { return "logging.Crit: " + c.Msg }

// SetParams installs the scaled-down V5 table.  Must not be called while nodes are running.
func SetParams(c ParamCfg) {
	setupOnce.Do(func() {
		params.InitNetworkId(params.NetworkIdForTestCase)
		origV5 = params.Versions[params.YouV5].DeepCopy()
		logging.VerifCritHook = func(msg string, ctx []interface{}) { panic(CritPanic{fmt.Sprint(msg, " ", ctx)}) }
		// the node's logger writes to stderr by default; keep only errors out of the way too
		logging.Root().SetHandler(logging.DiscardHandler())
	})
	v5 := origV5.DeepCopy()
	v5.StakingTrieFrequency = c.StakingTrieFrequency
	v5.MaxRewardsPeriod = c.MaxRewardsPeriod
	v5.WithdrawDelay = c.WithdrawDelay
	v5.WithdrawRecordRetention = c.WithdrawRetention
	v5.StakeLookBack = 2
	v5.ExpelledRoundForDoubleSign = 4
	v5.ExpelledRoundForInactive = 3
	v5.InactivityPenaltyWaitRounds = c.InactivityWait
	v5.PenaltyFractionForInactive = c.PenaltyInactive
	v5.PenaltyFractionForDoubleSign = 2
	v5.MaxEvidenceExpiredIn = 3
	v5.MinStakes = map[params.ValidatorRole]uint64{params.RoleChancellor: 5, params.RoleSenator: 5, params.RoleHouse: 2}
	v5.MaxStakes = map[params.ValidatorRole]uint64{params.RoleChancellor: 1000, params.RoleSenator: 60, params.RoleHouse: 50}
	v5.MinSelfStakes = map[params.ValidatorRole]uint64{params.RoleChancellor: 3, params.RoleSenator: 3, params.RoleHouse: 0}
	v5.SignatureRequired = map[params.ValidatorRole]bool{params.RoleChancellor: false, params.RoleSenator: false, params.RoleHouse: false}
	v5.MinDelegationTokens = new(big.Int).Mul(big.NewInt(2), params.StakeUint)
	v5.MaxDelegationForValidator = 2
	v5.MaxDelegationForDelegator = 2
	params.Versions[params.YouV5] = v5
	curCfg = c
}

var curCfg ParamCfg

func V5() params.YouParams { return params.Versions[params.YouV5] }

// ---- fixture ---------------------------------------------------------------

type Account struct {
	Name string
	Key  *ecdsa.PrivateKey
	Addr common.Address
}

type ValFix struct {
	Name     string
	Role     params.ValidatorRole
	MainKey  *ecdsa.PrivateKey
	MainPub  []byte
	Main     common.Address // main address == header.Coinbase of blocks it proposes
	BlsSK    bls.SecretKey
	BlsPub   []byte
	Operator *Account
	Coinbase common.Address // rewards recipient
	Token    *big.Int
	Status   uint8
	Genesis  bool
}

type Fixture struct {
	Vals     []*ValFix // c1, s1, h1, h2 (genesis), n1 (candidate, not in genesis)
	D1, D2   *Account  // delegators
	P        *Account  // plain account
	KStore   common.Address
	KRevert  common.Address
	KClear   common.Address // clears a slot that is non-zero in genesis: the first call earns an SSTORE refund
	KDie     common.Address // SELFDESTRUCT(CALLER)
	KSize    common.Address // SSTORE(0, EXTCODESIZE(KDie))
	Accounts []*Account
	Universe []common.Address // every address that may ever hold a balance (for reporting only)
}

func mkAcc(name string, seed byte) *Account {
	k, err := crypto.ToECDSA(common.LeftPadBytes([]byte{0x7, seed}, 32))
	if err != nil {
		panic(err)
	}
	return &Account{Name: name, Key: k, Addr: crypto.PubkeyToAddress(k.PublicKey)}
}

var (
	fixOnce sync.Once
	fix     *Fixture
)

func Unit(units, extra int64) *big.Int {
	v := new(big.Int).Mul(big.NewInt(units), params.StakeUint)
	return v.Add(v, big.NewInt(extra))
}

// Fix returns the process-wide fixture (keys are derived from fixed seeds).
func Fix() *Fixture {
	fixOnce.Do(func() {
		f := &Fixture{}
		mgr := bls.NewBlsManager()
		mk := func(name string, role params.ValidatorRole, seed byte, token *big.Int, status uint8, gen bool) *ValFix {
			mainK, _ := crypto.ToECDSA(common.LeftPadBytes([]byte{0x9, seed}, 32))
			pub := crypto.CompressPubkey(&mainK.PublicKey)
			sk, err := mgr.DecSecretKey(blsSeed(seed))
			if err != nil {
				panic(err)
			}
			pk, _ := sk.PubKey()
			cpk := pk.Compress()
			op := mkAcc(name+".op", seed+0x40)
			return &ValFix{Name: name, Role: role, MainKey: mainK, MainPub: pub, Main: state.PubToAddress(pub), BlsSK: sk, BlsPub: append([]byte{}, cpk[:]...),
				Operator: op, Coinbase: common.BytesToAddress([]byte{0xcb, seed}), Token: token, Status: status, Genesis: gen}
		}
		f.Vals = []*ValFix{
			mk("c1", params.RoleChancellor, 1, Unit(20, 7), params.ValidatorOnline, true),
			mk("s1", params.RoleSenator, 2, Unit(12, 500000000000000003), params.ValidatorOnline, true),
			mk("h1", params.RoleHouse, 3, Unit(5, 11), params.ValidatorOnline, true),
			mk("h2", params.RoleHouse, 5, Unit(3, 2), params.ValidatorOnline, true), // three house validators: the equal split of the role pool leaves a residue
			mk("h3", params.RoleHouse, 6, Unit(4, 3), params.ValidatorOnline, true),
			mk("n1", params.RoleSenator, 4, Unit(6, 1), params.ValidatorOffline, false),
			// s2, s3: in genesis only under ParamCfg.ExtraChamber
			mk("s2", params.RoleSenator, 8, Unit(7, 13), params.ValidatorOnline, false),
			// s3 ties with s2 in stake, token AND coinbase (one operator, one reward address): their order in the
			// validator table - which signer indexes of evidences resolve through - rests on the main address alone
			mk("s3", params.RoleSenator, 9, Unit(7, 13), params.ValidatorOnline, false),
			// z1: a house validator below one stake unit (MinSelfStakes of the house role is 0): Token > 0, Stake == 0
			mk("z1", params.RoleHouse, 7, Unit(0, 500000000000000000), params.ValidatorOffline, false),
		}
		f.Val("s3").Coinbase = f.Val("s2").Coinbase
		f.D1, f.D2, f.P = mkAcc("D1", 0x21), mkAcc("D2", 0x22), mkAcc("P", 0x23)
		f.KStore = common.HexToAddress("0xc0de000000000000000000000000000000000001")
		f.KRevert = common.HexToAddress("0xc0de000000000000000000000000000000000002")
		f.KClear = common.HexToAddress("0xc0de000000000000000000000000000000000003")
		f.KDie = common.HexToAddress("0xc0de000000000000000000000000000000000004")
		f.KSize = common.HexToAddress("0xc0de000000000000000000000000000000000005")
		f.Accounts = []*Account{f.D1, f.D2, f.P}
		for _, v := range f.Vals {
			f.Accounts = append(f.Accounts, v.Operator)
		}
		fix = f
	})
	return fix
}

func blsSeed(seed byte) []byte {
	b := make([]byte, 32)
	b[31] = seed
	b[30] = 0x5a
	return b
}

func (f *Fixture) Val(name string) *ValFix {
	for _, v := range f.Vals {
		if v.Name == name {
			return v
		}
	}
	panic("no validator " + name)
}

func (f *Fixture) Acc(name string) *Account {
	for _, a := range f.Accounts {
		if a.Name == name {
			return a
		}
	}
	panic("no account " + name)
}

// Genesis builds the genesis specification: 3 online validators (chancellor,
// senator, house), funded operators/delegators/plain account, two contracts,
// a funded rewards pool.  Amounts are deliberately not multiples of the unit.
func (f *Fixture) Genesis() *core.Genesis {
	yp := V5()
	g := &core.Genesis{
		NetworkId:   params.NetworkIdForTestCase,
		GasLimit:    8000000,
		Timestamp:   1000,
		CurrVersion: params.YouV5,
		Alloc:       core.GenesisAlloc{},
		Validators:  core.GenesisValidators{},
	}
	for _, a := range f.Accounts {
		g.Alloc[a.Addr] = core.GenesisAccount{Balance: Unit(100, 999)}
	}
	g.Alloc[yp.RewardsPoolAddress] = core.GenesisAccount{Balance: Unit(1000, 1)}
	if curCfg.PoolTenths != 0 {
		pool := new(big.Int).Mul(new(big.Int).SetUint64(curCfg.PoolTenths), big.NewInt(params.YOU/10))
		g.Alloc[yp.RewardsPoolAddress] = core.GenesisAccount{Balance: pool.Add(pool, big.NewInt(1))}
	}
	// KStore: SSTORE(0, CALLVALUE+1) ; STOP      KRevert: REVERT(0,0)
	g.Alloc[f.KStore] = core.GenesisAccount{Balance: big.NewInt(5), Code: []byte{0x34, 0x60, 0x01, 0x01, 0x60, 0x00, 0x55, 0x00}}
	g.Alloc[f.KRevert] = core.GenesisAccount{Balance: big.NewInt(0), Code: []byte{0x60, 0x00, 0x60, 0x00, 0xfd}}
	// KClear: SSTORE(0, 0) ; STOP   with slot 0 == 1 in genesis
	g.Alloc[f.KClear] = core.GenesisAccount{Balance: big.NewInt(0), Code: []byte{0x60, 0x00, 0x60, 0x00, 0x55, 0x00},
		Storage: map[common.Hash]common.Hash{{}: common.BigToHash(big.NewInt(1))}}
	// KDie: CALLER ; SELFDESTRUCT      KSize: PUSH20 KDie ; EXTCODESIZE ; PUSH1 0 ; SSTORE ; STOP
	g.Alloc[f.KDie] = core.GenesisAccount{Balance: big.NewInt(0), Code: []byte{0x33, 0xff}}
	g.Alloc[f.KSize] = core.GenesisAccount{Balance: big.NewInt(0), Code: append(append([]byte{0x73}, f.KDie[:]...), 0x3b, 0x60, 0x00, 0x55, 0x00)}
	for _, v := range f.Vals {
		extra := (v.Name == "s2" && curCfg.ExtraChamber >= 1) || (v.Name == "s3" && curCfg.ExtraChamber >= 2)
		if !v.Genesis && !extra {
			continue
		}
		g.Validators[v.Main] = core.GenesisValidator{Name: v.Name, OperatorAddress: v.Operator.Addr, Coinbase: v.Coinbase,
			MainPubKey: v.MainPub, BlsPubKey: v.BlsPub, Token: new(big.Int).Set(v.Token), Role: v.Role, Status: v.Status}
	}
	return g
}

// ---- node -------------------------------------------------------------------

// Node is one real chain instance.
type Node struct {
	DB      *youdb.MemDatabase
	BC      *core.BlockChain
	Staking *staking.Staking
	Mux     *event.TypeMux
	Engine  *solo.Solo
	Ucon    bool // opened with the Ucon-shaped stub engine (side-chain import paths active)
	Plain   bool // no staking module registered (the configuration of the repository's own core tests)
}

func copyDB(src *youdb.MemDatabase) *youdb.MemDatabase {
	dst := youdb.NewMemDatabase()
	for _, k := range src.Keys() {
		v, err := src.Get(k)
		if err == nil {
			dst.Put(k, v)
		}
	}
	return dst
}

// NewNode creates a node with the fixture genesis on a fresh database.
func NewNode(f *Fixture) *Node {
	db := youdb.NewMemDatabase()
	if _, err := core.SetupGenesisBlock(db, params.NetworkIdForTestCase, f.Genesis()); err != nil {
		panic(err)
	}
	return openNode(db, nil)
}

func openNode(db *youdb.MemDatabase, pendingEv []staking.Evidence) *Node {
	return openNodeWith(db, pendingEv, false)
}

func openNodeWith(db *youdb.MemDatabase, pendingEv []staking.Evidence, ucon bool) *Node {
	return openNodeOpt(db, pendingEv, ucon, false)
}

// NewPlainNode: fixture genesis, NO staking module (blocks without txs have no receipts at all).
func NewPlainNode(f *Fixture) *Node {
	db := youdb.NewMemDatabase()
	if _, err := core.SetupGenesisBlock(db, params.NetworkIdForTestCase, f.Genesis()); err != nil {
		panic(err)
	}
	return openNodeOpt(db, nil, false, true)
}

func openNodeOpt(db *youdb.MemDatabase, pendingEv []staking.Evidence, ucon, plain bool) *Node {
	eng := solo.NewSolo()
	eng.Update(true, 0, 1)
	var engine consensus.Engine = eng
	if ucon {
		stub := NewStubUcon()
		eng, engine = stub.Solo, stub
	}
	mux := new(event.TypeMux)
	bc, err := core.NewBlockChain(db, engine, mux, params.ArchiveNode, local.FakeDetailDB())
	if err != nil {
		panic(err)
	}
	bc.VerifWaitIndexersActive()  // else Stop() leaves the indexers' event loops (and the chain) behind
	st := staking.NewStaking(nil) // nil mux: no background goroutines; evidences are injected
	if !plain {
		st.Register(bc.Processor())
	}
	if err := st.Start(bc, engine); err != nil {
		panic(err)
	}
	for _, e := range pendingEv {
		st.VerifAddEvidence(e)
	}
	return &Node{DB: db, BC: bc, Staking: st, Mux: mux, Engine: eng, Ucon: ucon, Plain: plain}
}

// Fork returns an independent node with the same chain, state and pending evidences.
func (n *Node) Fork() *Node {
	return openNodeOpt(copyDB(n.DB), n.Staking.VerifEvidences(), n.Ucon, n.Plain)
}

// ForkUcon is Fork with the Ucon-shaped stub engine (importer whose side-chain paths are active).
func (n *Node) ForkUcon() *Node {
	return openNodeWith(copyDB(n.DB), n.Staking.VerifEvidences(), true)
}

// Close releases the goroutines NewBlockChain started.
func (n *Node) Close() {
	n.BC.Stop()
	n.Mux.Stop()
}

func (n *Node) Head() *types.Block { return n.BC.CurrentBlock() }

func (n *Node) State() *state.StateDB {
	st, err := n.BC.State()
	if err != nil {
		panic(fmt.Sprintf("head state unavailable: %v", err))
	}
	return st
}
