package chainx

import (
	"fmt"
	"strings"

	"verif/mc"
)

var MenuCore = []string{
	"c1:", "s1:", "c1:xfer", "c1:clear", "c1:vupdate(s1)", "c1:vdeposit(s1)", "c1:vwithdraw(s1)", "c1:voff(s1)",
	"c1:dadd(s1)", "c1:dsub(s1)", "c1:dsuball(s1)", "c1:vcreate(n1)", "c1:vcreatelow(n1)", "c1:!dsign(s1)",
}

// MenuCode: the code (and code-size) paths of the state database: a contract whose code is read by
// another contract self-destructs and its address is funded again.
var MenuCode = []string{"c1:size", "c1:die", "c1:fund", "c1:size+fund"}

var MenuMore = []string{
	"c1:revert", "c1:store+create", "c1:clear+xfer", "c1:lowgas+badstk", "c1:vwithdrawall(s1)", "c1:vwithdrawmuch(s1)", "c1:von(s1)",
	"c1:vsettle(s1)", "c1:dsubmuch(s1)", "c1:dsettle(s1)", "c1:dadd2(s1)", "c1:voff(h1)", "c1:vdeposit(h1)",
	"c1:dadd(s1)+vwithdraw(s1)", "s1:!dsign(c1)", "c1:vcreate(z1)", "c1:vwithdrawmost(s1)",
}

// MenuBuilderPaths: blocks whose transactions take the builder through the branches of worker.commitTransactions that
// the other menus never reach, because there every transaction the pool lets through is also applied (a staking or
// contract failure is an included transaction with status 0, not an ApplyTransaction error):
//   - xferalmostall+xfer: the second transfer of P is pending in the pool, passes nonce check and gas purchase and
//     fails with vm.ErrInsufficientBalance after the nonce increment: ApplyTransaction returns an error that has left
//     changes behind (the builder must roll back and go on with the next transaction);
//   - ...+store: a third transaction of the same sender behind the failed one (nonce too high: Pop);
//   - ...+dadd2(s1): a transaction of ANOTHER sender in the same block (price heap over two accounts; the order of
//     the two accounts is map order inside types.NewTransactionsByPriceAndNonce);
//   - lowgas+badstk / badstk: refused by the pool / applied with status 0.
//
// Used by C06 (the real miner worker is compared with the mirror builder on every block).
var MenuBuilderPaths = []string{
	"c1:", "c1:xfer", "c1:xferalmostall+xfer", "c1:xferalmostall+xfer+store", "c1:xferalmostall+xfer+dadd2(s1)",
	"c1:xfer+dadd2(s1)+vdeposit(s1)", "c1:lowgas+badstk", "c1:badstk",
}

// Prefixes are scripted warm-up histories: exploration starts from the states
// they reach as well as from genesis (most staking behaviour needs an accepted
// delegation, a pending withdrawal or an expelled validator to exist first).
var Prefixes = map[string][]string{
	"genesis":     {},
	"pending-dlg": {"c1:vupdate(s1)+vupdate(h1)", "c1:dadd(s1)+dadd2(s1)"},
	"delegated":   {"c1:vupdate(s1)+vupdate(h1)", "c1:dadd(s1)+dadd2(s1)", "c1:"},
	"withdrawing": {"c1:vupdate(s1)+vupdate(h1)", "c1:dadd(s1)+dadd2(s1)", "c1:", "c1:dsub(s1)+vwithdraw(s1)", "s1:"},
	"matured":     {"c1:vupdate(s1)+vupdate(h1)", "c1:dadd(s1)+dadd2(s1)", "c1:", "c1:dsub(s1)+vwithdraw(s1)", "s1:", "c1:", "c1:", "c1:"},
	"expelled":    {"c1:vupdate(s1)+vupdate(h1)", "c1:dadd(s1)+dadd2(s1)", "c1:", "c1:!dsign(s1)"},
	"newval":      {"c1:vcreate(n1)", "c1:", "c1:von(n1)"},
	// s1 keeps 3.2 units of its own (MinSelfStakes 3, MinStakes 5) and is online only thanks to D1's delegation:
	// withdrawing that delegation forces it offline
	"thin":      {"c1:vupdate(s1)", "c1:dadd(s1)", "c1:", "c1:vwithdrawthin(s1)", "c1:"},
	"tinyhouse": {"c1:vcreate(z1)", "c1:", "c1:", "c1:"}, // z1 exists with Token 0.5 unit, Stake 0 (not part of PrefixOrder; used by C05)
}

var PrefixOrder = []string{"genesis", "pending-dlg", "delegated", "withdrawing", "matured", "expelled", "newval", "thin"}

// Explore runs the bounded block-history exploration with the given oracles:
// every sequence of <= depth blocks over the menu, from genesis and from every
// scripted prefix state, for each parameter configuration.
func Explore(r *mc.Run, hooks Hooks, cfgs []ParamCfg, menu []string, depthGenesis, depthPrefix int) {
	for _, cfg := range cfgs {
		SetParams(cfg)
		for _, pn := range PrefixOrder {
			pn := pn
			depth := depthPrefix
			if pn == "genesis" {
				depth = depthGenesis
			}
			name := fmt.Sprintf("chain[%s|freq=%d,maxRewardsPeriod=%d]", pn, cfg.StakingTrieFrequency, cfg.MaxRewardsPeriod)
			if cfg.InactivityWait < 1000 {
				name = fmt.Sprintf("chain[%s|freq=%d,maxRewardsPeriod=%d,inactivityWait=%d,extraChamber=%d]", pn, cfg.StakingTrieFrequency, cfg.MaxRewardsPeriod, cfg.InactivityWait, cfg.ExtraChamber)
			}
			if cfg.PoolTenths != 0 {
				name = fmt.Sprintf("chain[%s|freq=%d,maxRewardsPeriod=%d,rewardsPool=%d/10]", pn, cfg.StakingTrieFrequency, cfg.MaxRewardsPeriod, cfg.PoolTenths)
			}
			f := func() mc.Forker {
				return &Hist{F: Fix(), R: r, Menu: menu, Prefix: Prefixes[pn], Hooks: hooks}
			}
			r.DFSFork(f, mc.SeqOpts{Name: name, Config: fmt.Sprintf("%+v", cfg), Depth: depth, ShardDepth: 2})
			if r.Expired() {
				return
			}
		}
	}
}

// ReplayHist re-executes a violation found by Explore.
func ReplayHist(r *mc.Run, v *mc.Violation, hooks Hooks) {
	var cfg ParamCfg
	fmt.Sscanf(v.Config, "{StakingTrieFrequency:%d MaxRewardsPeriod:%d WithdrawDelay:%d WithdrawRetention:%d InactivityWait:%d PenaltyInactive:%d PoolTenths:%d ExtraChamber:%d}",
		&cfg.StakingTrieFrequency, &cfg.MaxRewardsPeriod, &cfg.WithdrawDelay, &cfg.WithdrawRetention, &cfg.InactivityWait, &cfg.PenaltyInactive, &cfg.PoolTenths, &cfg.ExtraChamber)
	SetParams(cfg)
	pn := v.System[strings.Index(v.System, "[")+1 : strings.Index(v.System, "|")]
	h := &Hist{F: Fix(), R: r, Prefix: Prefixes[pn], Hooks: hooks}
	h.Reset()
	defer h.Close()
	for _, op := range v.Ops {
		if !h.eligible(op[:strings.Index(op, ":")]) {
			fmt.Println(op, "=> proposer is not an online chamber validator of the stake look-back state: outside the driver (not explored)")
			return
		}
		ob := h.Apply(op)
		fmt.Println(op, "=>", ob)
		for _, x := range h.Check() {
			fmt.Println("   ", x.Sig)
			x.System, x.Config, x.Ops = v.System, v.Config, v.Ops
			r.Report(x)
		}
	}
}
