package chainx

import (
	"fmt"
	"math/big"

	"github.com/youchainhq/go-youchain/common"
	"github.com/youchainhq/go-youchain/core"
	"github.com/youchainhq/go-youchain/core/types"
	"github.com/youchainhq/go-youchain/local"
)

// Built is the result of the block-building path.
type Built struct {
	Block    *types.Block
	Receipts []*types.Receipt
	Included []*types.Transaction
	Skipped  []string // txs refused by ApplyTransaction (error text), as the worker skips them
	// StateErr: the error the block's StateDB memorised while the block was executed (StateDB.Error(): database read
	// errors and - the one that matters - a failed update of the staking trie).  Nothing on the build or import path
	// looks at it: the block is sealed and stored all the same.
	StateErr error
}

// Build assembles the next block on node n exactly the way
// miner.worker.commitNewWork / commitTransactions / commit / postSeal do:
// ProcessYouVersionState, engine.Prepare, StateAt(parent roots with the staking
// root of the new period), IntermediateRoot, per tx Prepare + Snapshot +
// ApplyTransaction (+ RevertToSnapshot on error), EndBlock(isSeal=true),
// FinalizeAndAssemble, WriteBlockWithState.  The worker itself is not used: it
// is welded to timers, the tx pool and sortition.
func (n *Node) Build(coinbase common.Address, txs []*types.Transaction) (*Built, error) {
	return n.BuildWith(coinbase, txs, nil)
}

// BuildWith is Build with an optional edit of the header right after ProcessYouVersionState (before engine.Prepare
// and before anything is executed).  Used by C12 to model a block of an honest proposer whose client has a different
// version table (it neither proposes nor approves an upgrade it does not know); never used to forge anything else.
func (n *Node) BuildWith(coinbase common.Address, txs []*types.Transaction, editVersionState func(*types.Header)) (*Built, error) {
	chain := n.BC
	parent := chain.CurrentBlock()
	num := new(big.Int).Add(parent.Number(), common.Big1())
	header := &types.Header{
		ParentHash: parent.Hash(),
		Number:     num,
		Time:       parent.Time() + 1,
		Coinbase:   coinbase,
		GasLimit:   core.CalcGasLimit(parent),
		GasRewards: big.NewInt(0),
		Subsidy:    big.NewInt(0),
		Extra:      []byte{},
	}
	if err := core.ProcessYouVersionState(parent.Header(), header); err != nil {
		return nil, fmt.Errorf("ProcessYouVersionState: %v", err)
	}
	if editVersionState != nil {
		editVersionState(header)
	}
	if err := n.Engine.Prepare(chain, header); err != nil {
		return nil, err
	}
	// makeCurrent
	yp, err := chain.VersionForRound(num.Uint64())
	if err != nil {
		return nil, err
	}
	stakingRoot := core.StakingRootForNewBlock(yp.StakingTrieFrequency, parent.Header())
	st, err := chain.StateAt(parent.Root(), parent.ValRoot(), stakingRoot)
	if err != nil {
		return nil, err
	}
	signer := types.MakeSigner(num)
	st.IntermediateRoot(true)

	// commitTransactions
	gp := new(core.GasPool).AddGas(header.GasLimit)
	vmCfg, err := core.PrepareVMConfig(chain, num.Uint64(), *chain.GetVMConfig())
	if err != nil {
		return nil, err
	}
	proc := chain.Processor().(*core.StateProcessor)
	out := &Built{}
	tcount := 0
	for _, tx := range txs {
		st.Prepare(tx.Hash(), common.Hash{}, tcount)
		snap := st.Snapshot()
		receipt, _, err := proc.ApplyTransaction(tx, signer, st, chain, header, &coinbase, &header.GasUsed, header.GasRewards, gp, vmCfg, local.FakeRecorder())
		if err != nil {
			st.RevertToSnapshot(snap)
			out.Skipped = append(out.Skipped, err.Error())
			continue
		}
		out.Included = append(out.Included, tx)
		out.Receipts = append(out.Receipts, receipt)
		tcount++
	}
	res, _, _ := proc.EndBlock(chain, header, out.Included, st, true, local.FakeRecorder())
	for _, r := range res {
		if r != nil {
			// (the worker appends the whole slice once per non-nil element; with the single
			// staking hook that is the same thing)
			out.Receipts = append(out.Receipts, r)
		}
	}
	// commit
	block, err := n.Engine.FinalizeAndAssemble(chain, header, st, out.Included, out.Receipts)
	if err != nil {
		return nil, err
	}
	// postSeal
	hash := block.Hash()
	for i, r := range out.Receipts {
		r.BlockHash = hash
		r.BlockNumber = block.Number()
		r.TransactionIndex = uint(i)
		for _, l := range r.Logs {
			l.BlockHash = hash
		}
	}
	if err := chain.WriteBlockWithState(block, st, out.Receipts); err != nil {
		return nil, fmt.Errorf("WriteBlockWithState: %v", err)
	}
	out.Block = block
	out.StateErr = st.Error()
	return out, nil
}

// Import offers blocks to the import path (InsertChain) of node n.
func (n *Node) Import(blocks ...*types.Block) error {
	return n.BC.InsertChain(types.Blocks(blocks))
}
