package chainx

import (
	"bytes"
	"fmt"
	"strings"
	"sync"

	"github.com/youchainhq/go-youchain/common"
	"github.com/youchainhq/go-youchain/consensus"
	"github.com/youchainhq/go-youchain/core"
	"github.com/youchainhq/go-youchain/core/state"
	"github.com/youchainhq/go-youchain/core/types"
	"github.com/youchainhq/go-youchain/miner"
	"github.com/youchainhq/go-youchain/staking"

	"verif/mc"
)

// The mirror builder (builder.go) calls the same functions in the same order as
// miner.worker.commitNewWork, but it is not the worker: a change inside
// miner/worker.go is invisible to it.  This file binds the harness to the REAL
// worker: BuildWithWorker lets worker.commitNewWork (makeCurrent,
// commitTransactions, processor.EndBlock(isSeal=true), commit) assemble the
// block from a real core.TxPool on the node's chain, through the add-only hook
// miner.VerifBuildBlock (/repo/miner/export_verif_worker.go).  Hooks.Worker
// applies two oracles at every block of every explored history:
//
//	(i)  the worker's block is accepted unchanged by InsertChain on an
//	     independent copy of the pre-block node and becomes its head;
//	(ii) conformance of the mirror to the implementation: the worker's block
//	     and the mirror's block for the same pre-state, coinbase, evidences and
//	     transactions agree on every header field except Time (the worker reads
//	     the wall clock), and on the transactions.
type WorkerBuilt struct {
	Block    *types.Block
	Receipts []*types.Receipt
	State    *state.StateDB
	Offered  []*types.Transaction // accepted by the pool
	Refused  []*types.Transaction // refused by the pool (never pending: the worker can not see them)
	RefusedE []string
}

// cbEngine is the node's engine with a validator identity: the worker takes the
// coinbase from engine.GetValMainAddress (solo reports the zero address).
type cbEngine struct {
	consensus.Engine
	cb common.Address
}

func (e *cbEngine) GetValMainAddress() common.Address { return e.cb }

// BuildWithWorker creates a real transaction pool on the node's chain, adds txs
// as local transactions, lets the real miner worker assemble the next block
// with the given validator identity, and stops the pool.  seal=false: nothing is
// written (the caller decides what to do with the block); seal=true: the worker
// also runs mine (engine.Seal + postSeal: WriteBlockWithState + chain events).
// Equivocation evidence reaches the worker the way it reaches the mirror:
// through the evidence queue of the node's staking module.
func (n *Node) BuildWithWorker(coinbase common.Address, txs []*types.Transaction, seal bool) (*WorkerBuilt, error) {
	cfg := core.DefaultTxPoolConfig
	cfg.Journal = ""
	pool := core.NewTxPool(cfg, n.BC)
	defer pool.Stop()
	out := &WorkerBuilt{}
	if len(txs) > 0 {
		for i, err := range pool.AddLocals(txs) {
			if err != nil {
				out.Refused = append(out.Refused, txs[i])
				out.RefusedE = append(out.RefusedE, err.Error())
			} else {
				out.Offered = append(out.Offered, txs[i])
			}
		}
	}
	eng := &cbEngine{Engine: n.BC.Engine(), cb: coinbase}
	var err error
	if seal {
		out.Block, out.Receipts, out.State, err = miner.VerifBuildAndSealBlock(n.BC, eng, n.Mux, pool)
	} else {
		out.Block, out.Receipts, out.State, err = miner.VerifBuildBlock(n.BC, eng, n.Mux, pool)
	}
	if err != nil {
		return nil, err
	}
	return out, nil
}

// ---- oracles -------------------------------------------------------------------

// HeaderDiff lists the header fields (every field except Time) on which the
// worker's header w and the mirror's header m differ, inputs first, then
// execution results, then the state commitments.  sameOrder=false leaves the
// order-dependent commitments out.
func HeaderDiff(w, m *types.Header, sameOrder bool) []string {
	var d []string
	add := func(differs bool, name string) {
		if differs {
			d = append(d, name)
		}
	}
	add(w.ParentHash != m.ParentHash, "parent hash")
	add(w.Number == nil || m.Number == nil || w.Number.Cmp(m.Number) != 0, "number")
	add(w.Coinbase != m.Coinbase, "coinbase")
	add(w.GasLimit != m.GasLimit, "gas limit")
	add(w.CurrVersion != m.CurrVersion, "version state (CurrVersion)")
	add(w.NextVersion != m.NextVersion, "version state (NextVersion)")
	add(w.NextApprovals != m.NextApprovals, "version state (NextApprovals)")
	add(w.NextVoteBefore != m.NextVoteBefore, "version state (NextVoteBefore)")
	add(w.NextSwitchOn != m.NextSwitchOn, "version state (NextSwitchOn)")
	add(!bytes.Equal(w.SlashData, m.SlashData), "slash data")
	if sameOrder {
		add(w.TxHash != m.TxHash, "transactions root")
		add(w.GasUsed != m.GasUsed, "gas used")
		add(w.GasRewards == nil || m.GasRewards == nil || w.GasRewards.Cmp(m.GasRewards) != 0, "gas rewards")
		add(w.Subsidy == nil || m.Subsidy == nil || w.Subsidy.Cmp(m.Subsidy) != 0, "subsidy")
		add(w.ReceiptHash != m.ReceiptHash, "receipts root")
		add(w.Bloom != m.Bloom, "bloom")
		add(w.StakingRoot != m.StakingRoot, "staking root")
		add(w.ValRoot != m.ValRoot, "validator root")
		add(w.Root != m.Root, "state root")
	}
	add(w.MixDigest != m.MixDigest, "mix digest")
	add(!bytes.Equal(w.Extra, m.Extra), "extra")
	add(!bytes.Equal(w.Consensus, m.Consensus), "consensus")
	add(!bytes.Equal(w.ChtRoot, m.ChtRoot), "cht root")
	add(!bytes.Equal(w.BltRoot, m.BltRoot), "blt root")
	add(!bytes.Equal(w.Validator, m.Validator), "validator field")
	add(!bytes.Equal(w.Signature, m.Signature), "signature field")
	add(!bytes.Equal(w.Certificate, m.Certificate), "certificate field")
	return d
}

func hdrLine(h *types.Header) string {
	return fmt.Sprintf("#%v parent=%s cb=%s root=%s val=%s stk=%s txs=%s rcpt=%s gasLimit=%d gasUsed=%d gasRewards=%v subsidy=%v slash=%x time=%d %s",
		h.Number, short(h.ParentHash), h.Coinbase.Hex()[:10], short(h.Root), short(h.ValRoot), short(h.StakingRoot), short(h.TxHash), short(h.ReceiptHash),
		h.GasLimit, h.GasUsed, h.GasRewards, h.Subsidy, h.SlashData, h.Time, h.VersionStateString())
}

func short(h common.Hash) string { return h.Hex()[2:10] }

func txSeq(txs []*types.Transaction) (seq []common.Hash, set map[common.Hash]bool) {
	set = map[common.Hash]bool{}
	for _, tx := range txs {
		seq = append(seq, tx.Hash())
		set[tx.Hash()] = true
	}
	return
}

func sameSeq(a, b []common.Hash) bool {
	if len(a) != len(b) {
		return false
	}
	for i := range a {
		if a[i] != b[i] {
			return false
		}
	}
	return true
}

func sameSet(a, b map[common.Hash]bool) bool {
	if len(a) != len(b) {
		return false
	}
	for k := range a {
		if !b[k] {
			return false
		}
	}
	return true
}

var emptyTrieRoot = common.HexToHash("56e81f171bcc55a6ff8345e692c0f86e5b48e01b996cadc001622fb5e363b421")

// prefixMemo: the scripted prefix is rebuilt by every Reset (once per shard); the worker oracles are deterministic
// in (parameter table, parent, block op), so a prefix block is judged once per process.
var prefixMemo sync.Map

func cfgKey() string {
	v := V5()
	return fmt.Sprint(v.StakingTrieFrequency, v.MaxRewardsPeriod, v.WithdrawDelay, v.WithdrawRecordRetention, v.InactivityPenaltyWaitRounds, v.PenaltyFractionForInactive)
}

// workerOracles builds the block the op stands for with the REAL miner worker on a copy of the pre-block node and
// applies oracles (i) and (ii).  pre is the node before the block (without the evidences injected for this block).
func (h *Hist) workerOracles(op string, cb common.Address, txs []*types.Transaction, evs []staking.Evidence, built *Built, pre *Node) []mc.Violation {
	if h.inPre {
		key := cfgKey() + "|" + pre.Head().Hash().Hex() + "|" + op
		if v, ok := prefixMemo.Load(key); ok {
			return v.([]mc.Violation)
		}
		out := h.workerOraclesRun(op, cb, txs, evs, built, pre)
		for i := range out {
			out[i].Detail = fmt.Sprintf("in block %q of the scripted prefix (#%d), before the explored ops\n%s", op, built.Block.NumberU64(), out[i].Detail)
		}
		prefixMemo.Store(key, out)
		return out
	}
	return h.workerOraclesRun(op, cb, txs, evs, built, pre)
}

func (h *Hist) workerOraclesRun(op string, cb common.Address, txs []*types.Transaction, evs []staking.Evidence, built *Built, pre *Node) (out []mc.Violation) {
	r := h.R
	fail := func(sig, detail string) {
		out = append(out, mc.Violation{Sig: sig, Detail: detail})
	}
	forkWithEvs := func() *Node {
		n := pre.Fork()
		for _, e := range evs {
			n.Staking.VerifAddEvidence(e)
		}
		return n
	}
	// --- the real worker builds the block (nothing is written)
	wn := forkWithEvs()
	var wb *WorkerBuilt
	var werr error
	msg, where := mc.CatchStack(func() { wb, werr = wn.BuildWithWorker(cb, txs, false) })
	wn.Close()
	switch {
	case strings.HasPrefix(msg, "logging.Crit"):
		fail("real miner worker reached logging.Crit: "+normErr(strings.TrimPrefix(msg, "logging.Crit: ")), msg)
		return
	case msg != "":
		fail(fmt.Sprintf("real miner worker panics at %s: %s", where, normErr(msg)), msg)
		return
	case werr != nil:
		fail("real miner worker built no block where the mirror builder built one: "+normErr(werr.Error()), werr.Error())
		return
	}
	r.Count("worker_blocks_built", 1)
	wh, mh := wb.Block.Header(), built.Block.Header()
	if len(wb.Block.Transactions()) > 0 {
		r.Count("worker_blocks_with_transactions", 1)
	}
	if len(wh.SlashData) > 0 {
		r.Count("worker_blocks_with_slash_data", 1)
	}
	if ph := pre.Head().Header(); wh.Number.Uint64()%V5().StakingTrieFrequency == 0 && ph.StakingRoot != emptyTrieRoot && ph.StakingRoot != (common.Hash{}) {
		r.Count("worker_blocks_opening_a_staking_period_after_staking_records", 1)
	}
	if len(wb.Refused) > 0 {
		r.Count("worker_txs_refused_by_the_pool", int64(len(wb.Refused)))
	}

	// --- (i) an independent importer accepts the worker's block unchanged
	imp := pre.Fork()
	var ierr error
	im, iw := mc.CatchStack(func() { ierr = imp.Import(wb.Block) })
	if im == "" && ierr == nil && imp.Head().Hash() != wb.Block.Hash() {
		ierr = fmt.Errorf("imported block did not become head")
	}
	imp.Close()
	r.Count("worker_blocks_offered_to_an_importer", 1)
	switch {
	case im != "":
		fail(fmt.Sprintf("import path panics on a block built by the real miner worker at %s: %s", iw, normErr(im)), im+"\nworker: "+hdrLine(wh))
	case ierr != nil:
		fail("block built by the real miner worker rejected by the importer: "+normErr(ierr.Error()), ierr.Error()+"\nworker: "+hdrLine(wh)+"\nmirror: "+hdrLine(mh))
	default:
		r.Count("worker_blocks_accepted_by_importer", 1)
	}

	// --- (ii) conformance of the mirror to the worker
	wseq, wset := txSeq(wb.Block.Transactions())
	mseq, mset := txSeq(built.Included)
	ref, refIncluded := mh, built.Included
	how := "same transaction order"
	if !sameSeq(wseq, mseq) {
		// Transactions of different senders with equal price come out of types.TransactionsByPriceAndNonce in map order, and the
		// pool may refuse a transaction the mirror executes.  The reference is then the mirror run again on the worker's input:
		// the transactions of the worker's block in the worker's order, then the other transactions the pool accepted.
		if sameSet(wset, mset) {
			r.Count("worker_tx_order_differs_from_mirror(mirror_rebuilt_in_worker_order)", 1)
			how = "mirror rebuilt in the worker's transaction order"
		} else {
			r.Count("worker_tx_set_differs_from_mirror(mirror_rebuilt_on_pool_accepted_txs)", 1)
			how = "mirror rebuilt on the transactions the pool accepted, in the worker's order"
		}
		in := append([]*types.Transaction{}, wb.Block.Transactions()...)
		for _, tx := range wb.Offered {
			if !wset[tx.Hash()] {
				in = append(in, tx)
			}
		}
		rn := forkWithEvs()
		var rb *Built
		var rerr error
		rm, rw := mc.CatchStack(func() { rb, rerr = rn.Build(cb, in) })
		rn.Close()
		if rm != "" || rerr != nil {
			fail("mirror builder fails on the real miner worker's transaction order", fmt.Sprintf("%s %s %v", rm, rw, rerr))
			return
		}
		ref, refIncluded = rb.Block.Header(), rb.Included
		mseq, mset = txSeq(refIncluded)
	} else {
		r.Count("worker_tx_order_same_as_mirror", 1)
	}
	r.Count("worker_mirror_conformance_comparisons", 1)
	detail := func() string {
		return fmt.Sprintf("%s\nworker: %s\nmirror: %s\nworker txs %d, mirror txs %d, refused by the pool %v", how, hdrLine(wh), hdrLine(ref), len(wseq), len(mseq), wb.RefusedE)
	}
	if !sameSet(wset, mset) {
		fail("real miner worker and mirror builder disagree: transaction set", detail())
		return
	}
	same := sameSeq(wseq, mseq)
	if d := HeaderDiff(wh, ref, same); len(d) > 0 {
		fail("real miner worker and mirror builder disagree: "+d[0], "differing fields: "+strings.Join(d, ", ")+"\n"+detail())
		return
	}
	// the receipts the worker hands to the sealer are the ones its header commits to
	if got := types.DeriveSha(types.Receipts(wb.Receipts)); got != wh.ReceiptHash {
		fail("real miner worker's task receipts do not hash to its header's receipts root", detail())
		return
	}
	r.Count("worker_mirror_conformance_agreed", 1)
	return
}
