package chainx

import (
	"encoding/binary"
	"math/big"

	"github.com/youchainhq/go-youchain/common"
	"github.com/youchainhq/go-youchain/staking"
)

// VotePayload is what a ucon vote signs: blockHash || round || roundIndex (no vote kind).
func VotePayload(hash common.Hash, round uint64, index uint32) []byte {
	buf := make([]byte, 4)
	binary.BigEndian.PutUint32(buf, index)
	return append(hash.Bytes(), append(new(big.Int).SetUint64(round).Bytes(), buf...)...)
}

func (v *ValFix) SignVote(hash common.Hash, round uint64, index uint32) []byte {
	sig := v.BlsSK.Sign(VotePayload(hash, round, index)).Compress()
	return append([]byte{}, sig[:]...)
}

// SignerIdx is the index of a validator in the look-back validator set of `round`.
func SignerIdx(n *Node, v *ValFix, round uint64) (uint32, bool) {
	return SignerIdxFor(n, v, round, false)
}

// SignerIdxFor: cert=true resolves the index in the certificate look-back set (what certificate votes refer to).
func SignerIdxFor(n *Node, v *ValFix, round uint64, cert bool) (uint32, bool) {
	rd, err := n.BC.LookBackVldReaderForRound(round, cert)
	if err != nil {
		return 0, false
	}
	i, ok := rd.GetValidators().GetIndex(v.Main)
	return uint32(i), ok
}

var hashA, hashB = common.HexToHash("0xaaaa01"), common.HexToHash("0xbbbb02")

// MkEvidence: "dsign(v)" = a real equivocation of v in the round of the current
// head (two precommits for different hashes in round index 1): the evidence the
// honest detector emits (voter.go:607).
func (f *Fixture) MkEvidence(n *Node, e string) []staking.Evidence {
	name, arg := e, ""
	for i := 0; i < len(e); i++ {
		if e[i] == '(' {
			name, arg = e[:i], e[i+1:len(e)-1]
			break
		}
	}
	v := f.Val(arg)
	round := n.Head().NumberU64()
	idx, ok := SignerIdx(n, v, round)
	if !ok {
		return nil
	}
	switch name {
	case "dsign":
		ev := staking.EvidenceDoubleSignV5{Round: round, RoundIndex: 1, SignerIdx: idx, VoteType: staking.Precommit,
			Signs: []*staking.SignInfo{{Hash: hashA, Sign: v.SignVote(hashA, round, 1)}, {Hash: hashB, Sign: v.SignVote(hashB, round, 1)}}}
		return []staking.Evidence{staking.NewEvidence(ev)}
	}
	panic("harness: unknown evidence " + e)
}
