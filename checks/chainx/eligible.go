package chainx

// Eligible reports whether the fixture validator cb may propose the next block of n: an online chamber
// validator of the stake look-back state (what the sortition of the real engine draws proposers from).
func Eligible(n *Node, f *Fixture, cb string) bool {
	h := &Hist{F: f, Node: n}
	return h.eligible(cb)
}
