// Package c16: failed EVM calls leave no trace; value and gas are accounted
// exactly.  Every program of a bounded multi-contract grammar (contracts
// K0..K2; actions SSTORE/LOG/CALL/CALLCODE/DELEGATECALL/STATICCALL/CREATE/
// CREATE2; terminators STOP/RETURN/REVERT/INVALID/out-of-gas/SELFDESTRUCT) is
// compiled to byte code and run by the real EVM through core/vm/runtime on ONE
// persistent StateDB as transaction 1 and again as transaction 2 (Finalise in
// between); a reference interpreter of the mini-language that knows only
// frame semantics predicts the final state.
package c16

import (
	"fmt"
	"strings"

	"github.com/youchainhq/go-youchain/common"
)

// ---- the mini-language ------------------------------------------------------

type Term int

const (
	TStop Term = iota
	TReturn
	TRevert
	TInvalid
	TOOG
	TSDSelf
	TSDOther
	// terminators of init code only
	TReturnCode // RETURN one zero byte: deploys runtime code "STOP"
	TReturnBig  // RETURN MaxCodeSize+1 bytes: oversize
	TReturnDep  // RETURN depositN zero bytes: a runtime code whose deposit costs 200*depositN gas
	numTerm
)

var termName = []string{"STOP", "RETURN", "REVERT", "INVALID", "OOG", "SELFDESTRUCT(self)", "SELFDESTRUCT(other)", "RETURN(code)", "RETURN(oversize)", "RETURN(300-byte code)"}

// depositN: size of the runtime code returned by TReturnDep.  Its deposit
// costs 200*300 = 60000 gas: more than what a frame entered with the gDep
// allotment (90000) has left after paying CREATE (32000) and the init code's
// storage write and log, far less than what is left of an unlimited allotment.
const (
	depositN      = 300
	createDataGas = 200 // params.CreateDataGas: the protocol constant, restated (the reference must not read it from the code under test)
	maxCodeSize   = 24576
)

var depositCode = make([]byte, depositN)

type Kind int

const (
	ASet  Kind = iota // SSTORE(slot, tag+txno)
	AClr              // SSTORE(0, 0)
	ALog              // LOG1(topic = tag+txno)
	ACall             // CALL
	ACallCode
	ADelegate
	AStatic
	ACreate
	ACreate2
)

var kindName = []string{"SSTORE", "SSTORE", "LOG1", "CALL", "CALLCODE", "DELEGATECALL", "STATICCALL", "CREATE", "CREATE2"}

// call targets
const (
	tgK1 = 1
	tgK2 = 2
	tgX  = 3 // externally owned account with funds
	tgN  = 4 // address that does not exist
)

// gas classes of a call
const (
	gAll  = 0 // everything (63/64)
	gZero = 1 // 0 => the stipend-sized allotment of this chain's callGas
	gLim  = 2 // a mid-sized fixed allotment (enough for one cheap write, not two)
	gDep  = 8 // a creation-sized allotment: pays CREATE and an init code with a storage write and a log, but not the deposit of depositN bytes afterwards
)

var gasClassValue = []uint64{0xffffffffffffffff, 0, 22000, 700, 5200, 12000, 34000, 60000, 90000}
var gasClassName = []string{"all", "0", "22000", "700", "5200", "12000", "34000", "60000", "90000"}

// txGasDep: the limited gas class of a creation TRANSACTION whose init code
// ends in TReturnDep: never enough for the deposit (60000) on top of the
// RETURN itself.
const txGasDep = 60000

// init codes
const (
	iOK = iota
	iRevert
	iOversize
	iInvalid
	iDeposit // SSTORE, LOG1, then RETURN(depositN bytes): fails AT CODE DEPOSIT when less than 200*depositN gas is left, succeeds otherwise
)

var initName = []string{"ok", "reverting", "oversize", "invalid", "storing+logging, 300-byte code"}

type Action struct {
	K      Kind `json:"k"`
	Slot   int  `json:"slot,omitempty"`
	Target int  `json:"target,omitempty"`
	Value  int  `json:"value,omitempty"`
	Gas    int  `json:"gas,omitempty"`
	Init   int  `json:"init,omitempty"`
}

func (a Action) String() string {
	switch a.K {
	case ASet:
		return fmt.Sprintf("SSTORE(%d,tag)", a.Slot)
	case AClr:
		return "SSTORE(0,0)"
	case ALog:
		return "LOG1"
	case ACall, ACallCode:
		return fmt.Sprintf("%s(%s,value=%d,gas=%s)", kindName[a.K], tgName(a.Target), a.Value, gasClassName[a.Gas])
	case ADelegate, AStatic:
		return fmt.Sprintf("%s(%s,gas=%s)", kindName[a.K], tgName(a.Target), gasClassName[a.Gas])
	case ACreate, ACreate2:
		return fmt.Sprintf("%s(init=%s,value=%d)", kindName[a.K], initName[a.Init], a.Value)
	}
	return "?"
}

func tgName(t int) string { return []string{"?", "K1", "K2", "X", "N"}[t] }

type Body struct {
	Acts []Action `json:"acts"`
	Term Term     `json:"term"`
}

func (b Body) String() string {
	var s []string
	for _, a := range b.Acts {
		s = append(s, a.String())
	}
	s = append(s, termName[b.Term])
	return strings.Join(s, "; ")
}

// Program: the bodies of K0..K2 and how the transaction enters.
type Program struct {
	Bodies [3]Body   `json:"bodies"`
	Create bool      `json:"create_entry"`     // true: the transaction is runtime.Create with K0's body as init code
	TxGas  [2]uint64 `json:"tx_gas,omitempty"` // gas limit of transaction 1 / 2 (0 = the huge default allotment)
}

func (p Program) String() string {
	e := "call K0"
	if p.Create {
		e = "create(init=K0 body)"
	}
	if p.TxGas != [2]uint64{} {
		g := func(v uint64) string {
			if v == 0 {
				return "unlimited"
			}
			return fmt.Sprint(v)
		}
		e += fmt.Sprintf(" [tx gas %s/%s]", g(p.TxGas[0]), g(p.TxGas[1]))
	}
	return fmt.Sprintf("%s | K0{%s} K1{%s} K2{%s}", e, p.Bodies[0], p.Bodies[1], p.Bodies[2])
}

// ---- fixture addresses -------------------------------------------------------

var (
	addrO  = common.HexToAddress("0x0a00000000000000000000000000000000000001") // origin
	addrCB = common.HexToAddress("0xcb00000000000000000000000000000000000001")
	addrK  = [3]common.Address{
		common.HexToAddress("0xc000000000000000000000000000000000000000"),
		common.HexToAddress("0xc100000000000000000000000000000000000001"),
		common.HexToAddress("0xc200000000000000000000000000000000000002"),
	}
	addrX = common.HexToAddress("0xe000000000000000000000000000000000000001")
	addrN = common.HexToAddress("0xe000000000000000000000000000000000000002")
)

func targetAddr(t int) common.Address {
	switch t {
	case tgK1:
		return addrK[1]
	case tgK2:
		return addrK[2]
	case tgX:
		return addrX
	case tgN:
		return addrN
	}
	panic("target")
}

// ---- compiler ---------------------------------------------------------------

// Code is compiled byte code plus the layout the reference needs to relate
// observed program counters to actions.
type Code struct {
	Bytes  []byte
	Body   Body
	ActEnd []int // ActEnd[i] = pc just after action i (incl. its POP)
	OpPC   []int // pc of the action's main opcode (SSTORE/LOG1/CALL.../CREATE...)
	TermPC int   // pc of the terminator's final opcode
	Tags   []byte
	Inits  []*Code // init code of create actions (nil otherwise)
}

type asm struct{ b []byte }

func (a *asm) op(o ...byte) { a.b = append(a.b, o...) }
func (a *asm) push1(v byte) { a.b = append(a.b, 0x60, v) }
func (a *asm) pushN(bs []byte) {
	a.b = append(a.b, byte(0x5f+len(bs)))
	a.b = append(a.b, bs...)
}
func (a *asm) pushU(v uint64) {
	var bs []byte
	for i := 7; i >= 0; i-- {
		c := byte(v >> (8 * uint(i)))
		if len(bs) > 0 || c != 0 {
			bs = append(bs, c)
		}
	}
	if len(bs) == 0 {
		bs = []byte{0}
	}
	a.pushN(bs)
}

// pushTag pushes tag + GASPRICE (the harness runs transaction k with gas
// price k, so what transaction 2 writes differs from what transaction 1 wrote).
func (a *asm) pushTag(tag byte) {
	a.op(0x3a) // GASPRICE
	a.push1(tag)
	a.op(0x01) // ADD
}

// tagOf: spaced by 4 so that tag+1 and tag+2 never collide.
func tagOf(codeIdx, pos int) byte { return byte(0x10*(codeIdx+1) + 4*pos) }

func compileTerm(a *asm, t Term) {
	switch t {
	case TStop:
		a.op(0x00)
	case TReturn:
		a.push1(0)
		a.push1(0)
		a.op(0xf3)
	case TRevert:
		a.push1(0)
		a.push1(0)
		a.op(0xfd)
	case TInvalid:
		a.op(0xfe)
	case TOOG:
		// MSTORE at offset 2^40: the memory expansion can never be paid
		a.push1(0)
		a.pushN([]byte{1, 0, 0, 0, 0, 0})
		a.op(0x52)
	case TSDSelf:
		a.op(0x30, 0xff) // ADDRESS SELFDESTRUCT
	case TSDOther:
		a.pushN(addrX[:])
		a.op(0xff)
	case TReturnCode:
		a.push1(1)
		a.push1(0)
		a.op(0xf3)
	case TReturnBig:
		a.pushN([]byte{0x60, 0x01}) // 24577
		a.push1(0)
		a.op(0xf3)
	case TReturnDep:
		// from offset 32: word 0 of the memory may hold an init code written by an earlier CREATE action
		a.pushN([]byte{byte(depositN >> 8), byte(depositN & 0xff)})
		a.push1(32)
		a.op(0xf3)
	}
}

// initBody is the mini-language body of an init code (so that the reference
// interprets init frames like any other frame).
func initBody(kind int) Body {
	b := Body{Acts: []Action{{K: ASet, Slot: 0}}}
	switch kind {
	case iOK:
		b.Term = TReturnCode
	case iRevert:
		b.Term = TRevert
	case iOversize:
		b.Term = TReturnBig
	case iInvalid:
		b.Term = TInvalid
	case iDeposit:
		b.Acts = append(b.Acts, Action{K: ALog})
		b.Term = TReturnDep
	}
	return b
}

// compile turns a body into byte code.  codeIdx selects the tag range
// (0..2 = K0..K2, 8+ = init codes).
func compile(b Body, codeIdx int) *Code {
	return compileTags(b, func(pos int) byte { return tagOf(codeIdx, pos) })
}

func compileTags(b Body, tagAt func(pos int) byte) *Code {
	c := &Code{Body: b}
	a := &asm{}
	for pos, act := range b.Acts {
		tag := tagAt(pos)
		c.Tags = append(c.Tags, tag)
		var initc *Code
		switch act.K {
		case ASet:
			a.pushTag(tag)
			a.push1(byte(act.Slot))
			c.OpPC = append(c.OpPC, len(a.b))
			a.op(0x55)
		case AClr:
			a.push1(0)
			a.push1(0)
			c.OpPC = append(c.OpPC, len(a.b))
			a.op(0x55)
		case ALog:
			a.pushTag(tag)
			a.push1(0)
			a.push1(0)
			c.OpPC = append(c.OpPC, len(a.b))
			a.op(0xa1)
		case ACall, ACallCode, ADelegate, AStatic:
			a.push1(0) // retSize
			a.push1(0) // retOffset
			a.push1(0) // inSize
			a.push1(0) // inOffset
			if act.K == ACall || act.K == ACallCode {
				a.push1(byte(act.Value))
			}
			t := targetAddr(act.Target)
			a.pushN(t[:])
			a.pushU(gasClassValue[act.Gas])
			c.OpPC = append(c.OpPC, len(a.b))
			a.op([]byte{0xf1, 0xf2, 0xf4, 0xfa}[act.K-ACall])
			a.op(0x50) // POP
		case ACreate, ACreate2:
			// init codes get their own tag ranges: 0x80 + the creator's tag
			// for their first action, 0x40 + the creator's tag for the second
			ctag := tag
			initc = compileTags(initBody(act.Init), func(pos int) byte { return []byte{0x80, 0x40}[pos] | ctag })
			init := initc.Bytes
			if len(init) > 32 {
				panic("init code too long")
			}
			a.pushN(init)
			a.push1(0)
			a.op(0x52) // MSTORE: init right-aligned in word 0
			if act.K == ACreate2 {
				a.push1(tag) // salt
			}
			a.push1(byte(len(init)))
			a.push1(byte(32 - len(init)))
			a.push1(byte(act.Value))
			c.OpPC = append(c.OpPC, len(a.b))
			if act.K == ACreate {
				a.op(0xf0)
			} else {
				a.op(0xf5)
			}
			a.op(0x50) // POP
		}
		c.Inits = append(c.Inits, initc)
		c.ActEnd = append(c.ActEnd, len(a.b))
	}
	compileTerm(a, b.Term)
	c.TermPC = len(a.b) - 1
	c.Bytes = a.b
	return c
}

// stopCode is the runtime code deployed by init "ok".
var stopCode = []byte{0x00}
