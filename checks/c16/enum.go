package c16

// bounds of the program grammar for one tier
type bounds struct {
	MaxPerBody  int      `json:"max_actions_per_body"`
	MaxTotal    int      `json:"max_actions_total"`
	CreateTotal int      `json:"max_actions_total_for_create_entry"`
	GasClasses  []int    `json:"-"`
	GasNames    []string `json:"gas_classes"`
	FullCreates bool     `json:"full_create_product"`
	ExtraLeaf   bool     `json:"extended_leaf_alphabet"`
	AllGasKinds bool     `json:"gas_classes_on_every_call_kind"`
	Terms       []Term   `json:"-"`
	Terms0      []Term   `json:"-"`
	TermNames   []string `json:"terminators"`
	Term0Names  []string `json:"terminators_of_entry_body"`
	// creation transactions only: further terminators of the entry body (= the
	// init code of the transaction) and the gas limits of a creation
	// transaction ending in RETURN(300-byte code)
	Terms0Create     []Term   `json:"-"`
	Term0CreateNames []string `json:"further_terminators_of_a_creation_transaction"`
	CreateTxGas      []uint64 `json:"gas_limits_of_a_depositing_creation_transaction_0_is_unlimited"`
	// boundary probe: programs of at most this many actions whose first
	// depositing creation frame (of transaction 1, of transaction 2) is driven
	// to the gas limit at which the deposit is paid exactly, then every limit
	// within +-ProbeWindow of it
	ProbeTotal  int `json:"boundary_probe_max_actions_total"`
	ProbeWindow int `json:"boundary_probe_window"`
}

func quickBounds() bounds {
	return bounds{MaxPerBody: 2, MaxTotal: 3, CreateTotal: 2, GasClasses: []int{gAll, gLim, gDep},
		Terms:        []Term{TStop, TRevert, TInvalid, TOOG, TSDSelf, TSDOther},
		Terms0:       []Term{TStop, TRevert},
		Terms0Create: []Term{TReturnDep, TReturnBig}, CreateTxGas: []uint64{0, txGasDep},
		ProbeTotal: 2, ProbeWindow: 8}
}

func thoroughBounds() bounds {
	return bounds{MaxPerBody: 2, MaxTotal: 4, CreateTotal: 3, GasClasses: []int{gAll, gLim, gDep, gZero}, ExtraLeaf: true,
		Terms:        []Term{TStop, TRevert, TInvalid, TOOG, TSDSelf, TSDOther},
		Terms0:       []Term{TStop, TReturn, TRevert},
		Terms0Create: []Term{TReturnDep, TReturnBig}, CreateTxGas: []uint64{0, txGasDep},
		ProbeTotal: 3, ProbeWindow: 40}
}

func (b *bounds) fill() {
	for _, g := range b.GasClasses {
		b.GasNames = append(b.GasNames, gasClassName[g])
	}
	for _, t := range b.Terms {
		b.TermNames = append(b.TermNames, termName[t])
	}
	for _, t := range b.Terms0 {
		b.Term0Names = append(b.Term0Names, termName[t])
	}
	for _, t := range b.Terms0Create {
		b.Term0CreateNames = append(b.Term0CreateNames, termName[t])
	}
}

// leafActions: what every body may do without entering another contract.
func (b *bounds) leafActions() []Action {
	if b.FullCreates {
		as := []Action{
			{K: ASet, Slot: 0}, {K: ASet, Slot: 1}, {K: AClr}, {K: ALog},
			{K: ACall, Target: tgX, Value: 1}, {K: ACall, Target: tgN, Value: 0}, {K: ACall, Target: tgN, Value: 1},
		}
		for _, k := range []Kind{ACreate, ACreate2} {
			for init := iOK; init <= iDeposit; init++ {
				for v := 0; v <= 1; v++ {
					as = append(as, Action{K: k, Init: init, Value: v})
				}
			}
		}
		return as
	}
	if b.ExtraLeaf {
		return []Action{
			{K: ASet, Slot: 0}, {K: ASet, Slot: 1}, {K: AClr}, {K: ALog},
			{K: ACall, Target: tgX, Value: 1}, {K: ACall, Target: tgN, Value: 0}, {K: ACall, Target: tgN, Value: 1},
			{K: ACreate, Init: iOK, Value: 1}, {K: ACreate, Init: iRevert, Value: 1}, {K: ACreate, Init: iOversize, Value: 0}, {K: ACreate, Init: iInvalid, Value: 0},
			{K: ACreate2, Init: iOK, Value: 0}, {K: ACreate2, Init: iRevert, Value: 1}, {K: ACreate2, Init: iInvalid, Value: 0},
			{K: ACreate, Init: iDeposit, Value: 1}, {K: ACreate, Init: iDeposit, Value: 0}, {K: ACreate2, Init: iDeposit, Value: 1},
		}
	}
	return []Action{
		{K: ASet, Slot: 0}, {K: ASet, Slot: 1}, {K: AClr}, {K: ALog},
		{K: ACall, Target: tgX, Value: 1}, {K: ACall, Target: tgN, Value: 1},
		{K: ACreate, Init: iOK, Value: 1}, {K: ACreate, Init: iRevert, Value: 1}, {K: ACreate, Init: iOversize, Value: 0},
		{K: ACreate2, Init: iOK, Value: 0}, {K: ACreate2, Init: iInvalid, Value: 0},
		{K: ACreate, Init: iDeposit, Value: 1}, {K: ACreate2, Init: iDeposit, Value: 1},
	}
}

// callsTo: every way of entering contract target.  Limited gas classes beyond
// the first apply to every call kind only when AllGasKinds is set; otherwise
// to CALL(value 1) and DELEGATECALL (one that moves value and creates a new
// context, one that runs in the caller's context).
func (b *bounds) callsTo(target int) []Action {
	var as []Action
	for gi, g := range b.GasClasses {
		if gi == 0 && !b.AllGasKinds {
			// quick tier: CALLCODE only with value (its value-less form differs from DELEGATECALL only in msg.sender)
			as = append(as,
				Action{K: ACall, Target: target, Value: 0, Gas: g}, Action{K: ACall, Target: target, Value: 1, Gas: g},
				Action{K: ACallCode, Target: target, Value: 1, Gas: g},
				Action{K: ADelegate, Target: target, Gas: g}, Action{K: AStatic, Target: target, Gas: g})
		} else if b.AllGasKinds {
			as = append(as,
				Action{K: ACall, Target: target, Value: 0, Gas: g}, Action{K: ACall, Target: target, Value: 1, Gas: g},
				Action{K: ACallCode, Target: target, Value: 0, Gas: g}, Action{K: ACallCode, Target: target, Value: 1, Gas: g},
				Action{K: ADelegate, Target: target, Gas: g}, Action{K: AStatic, Target: target, Gas: g})
		} else {
			as = append(as, Action{K: ACall, Target: target, Value: 1, Gas: g}, Action{K: ADelegate, Target: target, Gas: g})
		}
	}
	return as
}

func (b *bounds) actions(level int) []Action {
	as := b.leafActions()
	for t := level + 1; t <= 2; t++ {
		as = append(as, b.callsTo(t)...)
	}
	return as
}

// bodiesBySize[n] = all bodies of the level with exactly n actions.
func (b *bounds) bodiesBySize(level int) [][]Body {
	acts := b.actions(level)
	terms := b.Terms
	if level == 0 {
		terms = b.Terms0
	}
	out := make([][]Body, b.MaxPerBody+1)
	var seqs [][]Action
	seqs = append(seqs, nil)
	for n := 0; n <= b.MaxPerBody; n++ {
		for _, s := range seqs {
			for _, t := range terms {
				out[n] = append(out[n], Body{Acts: s, Term: t})
			}
		}
		if n == b.MaxPerBody {
			break
		}
		var next [][]Action
		for _, s := range seqs {
			for _, a := range acts {
				ns := append(append(make([]Action, 0, len(s)+1), s...), a)
				next = append(next, ns)
			}
		}
		seqs = next
	}
	return out
}

func reaches(b Body, target int) bool {
	for _, a := range b.Acts {
		if a.K >= ACall && a.K <= AStatic && a.Target == target {
			return true
		}
	}
	return false
}

var trivialBody = Body{Term: TStop}

func minInt(a, b int) int {
	if a < b {
		return a
	}
	return b
}

// forEachCompletion calls fn for every program whose K0 body is b0:
// unreachable contracts keep the trivial body (so that no program is visited
// twice), the total number of actions is bounded.
func (b *bounds) forEachCompletion(b0 Body, l1, l2 [][]Body, fn func(p *Program, total int)) {
	rem := b.MaxTotal - len(b0.Acts)
	r1 := reaches(b0, tgK1)
	r2d := reaches(b0, tgK2)
	var p Program
	p.Bodies[0] = b0
	each2 := func(rem2 int, reach2 bool, used int) {
		if !reach2 {
			p.Bodies[2] = trivialBody
			fn(&p, used)
			return
		}
		for n := 0; n <= minInt(b.MaxPerBody, rem2); n++ {
			for _, b2 := range l2[n] {
				p.Bodies[2] = b2
				fn(&p, used+n)
			}
		}
	}
	if !r1 {
		p.Bodies[1] = trivialBody
		each2(rem, r2d, len(b0.Acts))
		return
	}
	for n := 0; n <= minInt(b.MaxPerBody, rem); n++ {
		for _, b1 := range l1[n] {
			p.Bodies[1] = b1
			each2(rem-n, r2d || reaches(b1, tgK2), len(b0.Acts)+n)
		}
	}
}
