package c16

import (
	"encoding/json"
	"fmt"
	"math/big"
	"os"
	"sort"
	"strconv"
	"strings"
	"sync"
	"sync/atomic"
	"time"

	"github.com/youchainhq/go-youchain/common"
	"github.com/youchainhq/go-youchain/core/state"
	"github.com/youchainhq/go-youchain/core/vm"
	"github.com/youchainhq/go-youchain/core/vm/runtime"
	"github.com/youchainhq/go-youchain/crypto"
	"github.com/youchainhq/go-youchain/logging"
	"github.com/youchainhq/go-youchain/params"
	"github.com/youchainhq/go-youchain/rlp"
	"github.com/youchainhq/go-youchain/youdb"

	"verif/mc"
)

const (
	txGas    = uint64(1) << 50 // nothing in the grammar loops: a huge allotment only keeps accidental out-of-gas rare
	blockNum = 100
)

var (
	setupOnce sync.Once
	slotHash  = [2]common.Hash{{}, common.BigToHash(big.NewInt(1))}
	txHashes  = [2]common.Hash{common.BigToHash(big.NewInt(0x7001)), common.BigToHash(big.NewInt(0x7002))}
	blockHash = common.BigToHash(big.NewInt(0xb10c))
)

func setup() {
	setupOnce.Do(func() {
		params.InitNetworkId(params.NetworkIdForTestCase)
		logging.Root().SetHandler(logging.DiscardHandler())
		logging.VerifCritHook = func(msg string, ctx []interface{}) { panic("logging.Crit: " + msg) }
	})
}

// harness: per-worker real objects.
type harness struct {
	db       state.Database
	roots    [3]common.Hash
	tr       *tracer
	evmCfg   *vm.Config
	srootFor map[[2]uint64]common.Hash
	chashFor map[string]common.Hash
	khashFor map[common.Address]common.Hash
	count    func(string)
	b        *bounds
}

func newHarness(count func(string)) *harness {
	h := &harness{db: state.NewDatabase(youdb.NewMemDatabase()), tr: &tracer{}, srootFor: map[[2]uint64]common.Hash{}, chashFor: map[string]common.Hash{}, khashFor: map[common.Address]common.Hash{}, count: count}
	st, err := state.New(common.Hash{}, common.Hash{}, common.Hash{}, h.db)
	if err != nil {
		panic(err)
	}
	// the committed base holds placeholder code (an account without balance,
	// nonce and code would be dropped at commit); the program's code is
	// installed per case
	ph := &Code{Bytes: []byte{0x00}}
	w := baseWorld([3]*Code{ph, ph, ph})
	materialise(st, w)
	r0, r1, r2, err := st.Commit(true)
	if err != nil {
		panic(err)
	}
	h.roots = [3]common.Hash{r0, r1, r2}
	yp := params.Versions[params.YouCurrentVersion]
	h.evmCfg = &vm.Config{
		RuntimeConfig: vm.RuntimeConfig{CurrYouParams: &yp, JumpTable: vm.GetJumpTable(yp.EVMVersion)},
		LocalConfig:   vm.LocalConfig{Debug: true, Tracer: h.tr},
	}
	return h
}

// materialise writes a reference world into a StateDB with plain setters.
func materialise(st *state.StateDB, w *world) {
	var as []common.Address
	for a, x := range w.acc {
		if x.exists {
			as = append(as, a)
		}
	}
	sort.Slice(as, func(i, j int) bool { return string(as[i][:]) < string(as[j][:]) })
	for _, a := range as {
		x := w.acc[a]
		st.SetBalance(a, big.NewInt(x.bal))
		st.SetNonce(a, x.nonce)
		if len(x.code) > 0 {
			st.SetCode(a, x.code)
		}
		for s, v := range x.slots {
			if v != 0 {
				st.SetState(a, slotHash[s], common.BigToHash(new(big.Int).SetUint64(v)))
			}
		}
	}
}

func worldKey(w *world) string {
	var as []string
	for a, x := range w.acc {
		if x.exists {
			as = append(as, fmtAcct(string(a[:]), true, fmt.Sprint(x.bal), x.nonce, x.code, x.slots[0], x.slots[1]))
		}
	}
	sort.Strings(as)
	return strings.Join(as, "|")
}

// storageRootOf returns the storage root of an account holding exactly the
// two observed slots (computed once per content through the real StateDB).
func (h *harness) storageRootOf(slots [2]uint64) common.Hash {
	if r, ok := h.srootFor[slots]; ok {
		return r
	}
	st, err := state.New(common.Hash{}, common.Hash{}, common.Hash{}, h.db)
	if err != nil {
		panic(err)
	}
	w := &world{acc: map[common.Address]*racct{addrX: {exists: true, bal: 1, slots: slots}}}
	materialise(st, w)
	st.IntermediateRoot(true)
	leaves, err := st.VerifC16AccountLeaves()
	if err != nil || len(leaves) != 1 {
		panic(fmt.Sprint("harness: storage root probe: ", err, len(leaves)))
	}
	var acc state.Account
	for _, blob := range leaves {
		if err := rlp.DecodeBytes(blob, &acc); err != nil {
			panic(err)
		}
	}
	h.srootFor[slots] = acc.Root
	return acc.Root
}

func (h *harness) codeHashOf(code []byte) common.Hash {
	k := string(code)
	if r, ok := h.chashFor[k]; ok {
		return r
	}
	if len(h.chashFor) > 4096 {
		h.chashFor = map[string]common.Hash{}
	}
	r := crypto.Keccak256Hash(code)
	h.chashFor[k] = r
	return r
}

func (h *harness) keyOf(a common.Address) common.Hash {
	if r, ok := h.khashFor[a]; ok {
		return r
	}
	if len(h.khashFor) > 65536 {
		h.khashFor = map[common.Address]common.Hash{}
	}
	r := crypto.Keccak256Hash(a[:])
	h.khashFor[a] = r
	return r
}

// wholeState compares EVERY leaf of the real account trie with the reference
// world: no account outside the world, none missing, and for each account the
// complete record (nonce, balance, storage root = root of exactly the
// observed slots, code hash, no delegation data).
func (h *harness) wholeState(st *state.StateDB, w *world) (out []finding) {
	leaves, err := st.VerifC16AccountLeaves()
	if err != nil {
		return []finding{{"harness: cannot iterate the account trie", err.Error()}}
	}
	n := 0
	for a, x := range w.acc {
		if !x.exists {
			continue
		}
		n++
		blob, ok := leaves[h.keyOf(a)]
		if !ok {
			out = append(out, finding{"whole-state: account of the reference world is missing from the state trie", fmt.Sprintf("%x", a)})
			continue
		}
		var acc state.Account
		if err := rlp.DecodeBytes(blob, &acc); err != nil {
			out = append(out, finding{"whole-state: undecodable account record", err.Error()})
			continue
		}
		var bad []string
		if acc.Nonce != x.nonce {
			bad = append(bad, "nonce")
		}
		if acc.Balance == nil || acc.Balance.Cmp(big.NewInt(x.bal)) != 0 {
			bad = append(bad, "balance")
		}
		if acc.Root != h.storageRootOf(x.slots) {
			bad = append(bad, "storage-root")
		}
		if common.BytesToHash(acc.CodeHash) != h.codeHashOf(x.code) {
			bad = append(bad, "code-hash")
		}
		if (acc.DelegationBalance != nil && acc.DelegationBalance.Sign() != 0) || len(acc.DelegationsHash) != 0 {
			bad = append(bad, "delegation-data")
		}
		if len(bad) > 0 {
			out = append(out, finding{"whole-state: account record differs from the reference world: " + strings.Join(bad, "+"),
				fmt.Sprintf("%x: real nonce=%d bal=%v root=%x code=%x | reference nonce=%d bal=%d slots=%v", a, acc.Nonce, acc.Balance, acc.Root[:4], acc.CodeHash[:4], x.nonce, x.bal, x.slots)})
		}
	}
	if len(leaves) != n {
		out = append(out, finding{"whole-state: the state trie holds an account outside the reference world", fmt.Sprintf("%d leaves, %d accounts in the reference world", len(leaves), n)})
	}
	return out
}

type finding struct {
	sig    string
	detail string
}

// observeReal reads the universe through the API and returns the rendering
// and the sum of all balances.
func observeReal(st *state.StateDB, r *ref) ([]string, *big.Int) {
	names := r.names()
	out := make([]string, 0, len(names))
	sum := new(big.Int)
	for i, a := range r.universe {
		if !st.Exist(a) {
			out = append(out, names[i]+"{absent}")
			continue
		}
		bal := st.GetBalance(a)
		sum.Add(sum, bal)
		out = append(out, fmtAcct(names[i], true, bal.String(), st.GetNonce(a), st.GetCode(a), st.GetState(a, slotHash[0]).Big().Uint64(), st.GetState(a, slotHash[1]).Big().Uint64()))
	}
	return out, sum
}

func fieldClasses(want, got []string) string {
	set := map[string]bool{}
	for i := range want {
		if i < len(got) && want[i] == got[i] {
			continue
		}
		g := ""
		if i < len(got) {
			g = got[i]
		}
		wa, ga := strings.HasSuffix(want[i], "{absent}"), strings.HasSuffix(g, "{absent}")
		if wa != ga {
			set["existence"] = true
			continue
		}
		wf, gf := strings.Fields(want[i]), strings.Fields(g)
		for j := range wf {
			if j >= len(gf) || wf[j] != gf[j] {
				n := wf[j]
				if k := strings.Index(n, "{"); k >= 0 {
					n = n[k+1:]
				}
				if k := strings.Index(n, "="); k >= 0 {
					n = n[:k]
				}
				switch n {
				case "bal":
					set["balance"] = true
				case "s0", "s1":
					set["storage"] = true
				default:
					set[n] = true
				}
			}
		}
	}
	var out []string
	for k := range set {
		out = append(out, k)
	}
	sort.Strings(out)
	return strings.Join(out, "+")
}

func diffLines(want, got []string) string {
	var b strings.Builder
	for i := range want {
		g := "?"
		if i < len(got) {
			g = got[i]
		}
		if want[i] != g {
			fmt.Fprintf(&b, "\n  reference %s | real %s", want[i], g)
		}
	}
	return b.String()
}

// blame names the failed frame(s) of the transaction for a signature.
func causes(failed []failedFrame) string {
	var s []string
	for _, f := range failed {
		s = append(s, f.via+":"+f.cause)
	}
	return "failed frames: " + strings.Join(s, ", ")
}

func blame(failed []failedFrame) string {
	switch len(failed) {
	case 0:
		return "no frame failed"
	case 1:
		return fmt.Sprintf("one failed frame, entered by %s", failed[0].via)
	}
	return "several failed frames"
}

// walk applies the program-independent oracles to the observed frame tree.
func walk(f *tframe, static bool, txno int, out *[]finding, count func(string)) {
	if static {
		count("static_frames")
		if len(f.writes) > 0 {
			*out = append(*out, finding{fmt.Sprintf("STATICCALL frame executed %v", f.writes[0]), fmt.Sprintf("tx%d depth %d self %x", txno, f.depth, f.self[:2])})
		}
	}
	if f.gasNoise != "" {
		*out = append(*out, finding{"gas increased inside a frame without a call", fmt.Sprintf("tx%d depth %d: %s", txno, f.depth, f.gasNoise)})
	}
	for _, c := range f.calls {
		if c.gasBefore < c.cost {
			*out = append(*out, finding{fmt.Sprintf("%v executed with less gas than its cost", c.op), fmt.Sprintf("tx%d depth %d gas %d cost %d", txno, f.depth, c.gasBefore, c.cost)})
			continue
		}
		avail := c.gasBefore - c.cost
		var retained, supplied uint64
		exact := false
		switch c.op {
		case vm.CREATE:
			retained, supplied, exact = 0, avail, true
		case vm.CREATE2:
			retained, supplied, exact = avail/64, avail-avail/64, true
		default:
			retained = avail
			supplied = c.cost // upper bound: the forwarded gas is part of the cost
			if c.value {
				supplied += 2300
			}
		}
		if c.child != nil {
			if c.child.first.gas > supplied {
				*out = append(*out, finding{fmt.Sprintf("gas supplied to the callee exceeds what the caller paid at depth %d (%v)", f.depth, c.op),
					fmt.Sprintf("tx%d: callee starts with %d, caller had %d cost %d", txno, c.child.first.gas, c.gasBefore, c.cost)})
			}
			if !exact {
				supplied = c.child.first.gas
			}
			count("calls_with_callee_frame")
		}
		if c.haveAfter {
			count("gas_return_checks")
			if c.gasAfter < retained {
				*out = append(*out, finding{fmt.Sprintf("caller lost retained gas across a call at depth %d (%v)", f.depth, c.op), fmt.Sprintf("tx%d: retained %d after %d", txno, retained, c.gasAfter)})
			} else if ret := c.gasAfter - retained; ret > supplied {
				*out = append(*out, finding{fmt.Sprintf("gas returned exceeds supplied at depth %d (%v)", f.depth, c.op),
					fmt.Sprintf("tx%d: supplied %d returned %d (gas before %d, cost %d, after %d)", txno, supplied, ret, c.gasBefore, c.cost, c.gasAfter)})
			} else if ret == supplied {
				count("gas_returned_in_full")
			} else if ret == 0 {
				count("gas_returned_none")
			} else {
				count("gas_returned_partly")
			}
		}
		if c.child != nil {
			walk(c.child, static || c.op == vm.STATICCALL, txno, out, count)
		}
	}
}

func hasSelfdestruct(f *tframe) bool {
	if f == nil {
		return false
	}
	for _, w := range f.writes {
		if w == vm.SELFDESTRUCT {
			return true
		}
	}
	for _, c := range f.calls {
		if hasSelfdestruct(c.child) {
			return true
		}
	}
	return false
}

// runProgram runs p as transaction 1 and 2 on one real StateDB and judges it.
func (h *harness) runProgram(p *Program) (outcome string, out []finding, finalWorld string) {
	var codes [3]*Code
	for i := range codes {
		codes[i] = compile(p.Bodies[i], i)
	}
	st, err := state.New(h.roots[0], h.roots[1], h.roots[2], h.db)
	if err != nil {
		panic(err)
	}
	if !p.Create {
		st.SetCode(addrK[0], codes[0].Bytes)
	}
	st.SetCode(addrK[1], codes[1].Bytes)
	st.SetCode(addrK[2], codes[2].Bytes)
	st.Finalise(true)

	r := &ref{w: baseWorld(codes), inU: map[common.Address]bool{}, reg: map[string]*Code{}, count: h.count}
	if p.Create {
		r.w.get(addrK[0]).code = stopCode // the placeholder code of the committed base
	}
	for _, a := range []common.Address{addrO, addrK[0], addrK[1], addrK[2], addrX, addrN, addrCB} {
		r.addU(a)
	}
	for _, c := range codes {
		r.reg[string(c.Bytes)] = c
	}
	r.reg[string(stopCode)] = compile(trivialBody, 0)
	logIndex := uint(0)
	var outcomes []string
	// addresses that join the universe later did not exist before (nothing in
	// the grammar funds an address before creating it), so the sum over the
	// initial universe is the sum before transaction 1
	_, before := observeReal(st, r)

	for k := 1; k <= 2; k++ {
		txn := fmt.Sprintf("tx%d", k)
		r.txno = uint64(k)
		st.Prepare(txHashes[k-1], blockHash, k-1)
		h.tr.reset()
		cfg := runtime.Config{Origin: addrO, Coinbase: addrCB, BlockNumber: big.NewInt(blockNum), Time: big.NewInt(1600000000),
			GasLimit: txGas, GasPrice: big.NewInt(int64(k)), Value: big.NewInt(1), State: st, EVMConfig: h.evmCfg}
		var (
			left   uint64
			cerr   error
			cr     common.Address
			hadErr bool
		)
		msg, where := mc.CatchStack(func() {
			if p.Create {
				_, cr, left, cerr = runtime.Create(codes[0].Bytes, &cfg)
			} else {
				_, left, cerr = runtime.Call(addrK[0], nil, &cfg)
			}
			hadErr = cerr != nil
			st.Finalise(true)
		})
		if msg != "" {
			out = append(out, finding{fmt.Sprintf("panic in %s at %s: %s", txn, where, normMsg(msg)), msg})
			return "panic", out, ""
		}
		if left > txGas {
			out = append(out, finding{"gas returned exceeds supplied at depth 0 (transaction)", fmt.Sprintf("%s: supplied %d left %d", txn, txGas, left)})
		}
		root, terr := buildTree(h.tr.events)
		if terr != "" {
			out = append(out, finding{"harness: trace is not a frame tree: " + terr, txn})
			return "harness", out, ""
		}
		if root != nil {
			if root.first.gas > txGas {
				out = append(out, finding{"gas supplied to the callee exceeds what the caller paid at depth 0 (transaction)", txn})
			}
			walk(root, false, k, &out, h.count)
		}
		// the reference follows
		ok, created := r.runTx(p, codes, root)
		for _, n := range r.notes {
			out = append(out, finding{n.sig, txn + ": " + n.detail})
		}
		r.notes = r.notes[:0]
		if ok == hadErr {
			out = append(out, finding{"transaction-level error does not match the outcome of the entry frame", fmt.Sprintf("%s: err=%v, reference frame ok=%v", txn, cerr, ok)})
		}
		if p.Create && ok && cr != created {
			out = append(out, finding{"created contract address differs from CreateAddress(origin, nonce)", fmt.Sprintf("%s: %x vs %x", txn, cr, created)})
		}
		failed := append([]failedFrame{}, r.failed...)
		if len(failed) > 0 {
			h.count("tx_with_failed_frames")
			if k == 2 {
				h.count("tx2_with_failed_frames")
				if len(failed) > 1 {
					h.count("tx2_with_several_failed_frames")
				}
			}
		} else {
			h.count("tx_without_failed_frame")
		}
		// logs
		var rl []string
		for _, l := range st.GetLogs(txHashes[k-1]) {
			t := uint64(0)
			if len(l.Topics) > 0 {
				t = l.Topics[0].Big().Uint64()
			}
			rl = append(rl, fmt.Sprintf("%x:%x@%d/tx%d", l.Address[:2], t, l.Index, l.TxIndex))
		}
		var wl []string
		for _, l := range r.w.logs {
			wl = append(wl, fmt.Sprintf("%x:%x@%d/tx%d", l.addr[:2], l.topic, logIndex, k-1))
			logIndex++
		}
		if strings.Join(rl, ",") != strings.Join(wl, ",") {
			out = append(out, finding{fmt.Sprintf("logs differ from the frame-semantics reference (%s; %s)", txn, blame(failed)),
				fmt.Sprintf("reference [%s] real [%s]", strings.Join(wl, ","), strings.Join(rl, ","))})
		}
		if len(wl) > 0 {
			h.count("tx_with_surviving_logs")
		}
		burnt := r.w.endOfTx()
		// state over the universe
		want := r.render()
		got, after := observeReal(st, r)
		if fc := fieldClasses(want, got); fc != "" {
			// one finding per field class: the same failure keeps its
			// signature whichever other fields it drags along
			for _, c := range strings.Split(fc, "+") {
				out = append(out, finding{fmt.Sprintf("%s differs from the frame-semantics reference (%s; %s)", c, txn, blame(failed)), causes(failed) + diffLines(want, got)})
			}
		}
		// conservation, independent of the reference: without an executed
		// SELFDESTRUCT the sum of all balances is unchanged; it never grows
		sd := hasSelfdestruct(root)
		switch {
		case after.Cmp(before) > 0:
			out = append(out, finding{"sum of balances grew during execution", fmt.Sprintf("%s: %v -> %v", txn, before, after)})
		case !sd && after.Cmp(before) != 0:
			out = append(out, finding{"sum of balances changed without any SELFDESTRUCT", fmt.Sprintf("%s: %v -> %v", txn, before, after)})
		case sd && new(big.Int).Sub(before, after).Cmp(big.NewInt(burnt)) != 0:
			out = append(out, finding{"sum of balances changed by something else than the self-destructed accounts' burnt value",
				fmt.Sprintf("%s: %v -> %v, reference burn %d", txn, before, after, burnt)})
		}
		if burnt > 0 {
			h.count("tx_burning_value")
		}
		oc := "ok"
		if !ok {
			oc = "entry-failed"
		}
		outcomes = append(outcomes, fmt.Sprintf("%s/%d failed frames", oc, len(failed)))
		before = after
		if len(out) > 0 {
			// everything after the first discrepancy runs on a state the
			// reference no longer shares: stop, so that only primary
			// failures get signatures
			return strings.Join(outcomes, " ; ") + " ; stopped", out, ""
		}
	}
	// whole-state check: every leaf of the real account trie against the
	// reference world (catches anything outside the observed universe/slots)
	var valRoot, stkRoot common.Hash
	if msg, where := mc.CatchStack(func() { _, valRoot, stkRoot = st.IntermediateRoot(true) }); msg != "" {
		out = append(out, finding{fmt.Sprintf("panic computing the state root at %s: %s", where, normMsg(msg)), msg})
		return "panic", out, ""
	}
	out = append(out, h.wholeState(st, r.w)...)
	if valRoot != h.roots[1] || stkRoot != h.roots[2] {
		out = append(out, finding{"EVM execution changed the validator or staking trie", ""})
	}
	return strings.Join(outcomes, " ; "), out, worldKey(r.w)
}

func normMsg(m string) string {
	var b strings.Builder
	for _, c := range m {
		if c >= '0' && c <= '9' {
			continue
		}
		b.WriteRune(c)
	}
	s := b.String()
	if len(s) > 80 {
		s = s[:80]
	}
	return s
}

// Run is the check entry point.
func Run(r *mc.Run) {
	setup()
	r.Level = "exploration"
	b := quickBounds()
	if r.Quick() {
		r.SetBudget(160e9)
	} else {
		b = thoroughBounds()
		r.SetBudget(30 * 60e9)
	}
	// VERIF_BUDGET_S=<seconds> shortens the internal deadline (the run then
	// ends with exhaustive:false, never with a failure)
	if s, err := strconv.Atoi(os.Getenv("VERIF_BUDGET_S")); err == nil && s > 0 {
		r.SetBudget(time.Duration(s) * time.Second)
	}
	b.fill()
	r.Rule = "every program of the grammar is enumerated: bodies of K0..K2 = <= max_actions_per_body actions + terminator, total number of actions <= max_actions_total; " +
		"leaf actions SSTORE(slot0|slot1, tag+txno) / SSTORE(0,0) / LOG1 / CALL(value) to an externally owned account or to an address that does not exist / CREATE and CREATE2 with init code {ok, reverting, oversize, invalid} (each init code first writes storage); " +
		"entering actions CALL(value 0|1), CALLCODE, DELEGATECALL, STATICCALL to a higher-numbered contract, with gas classes {all, fixed mid-size allotment[, 0]}; " +
		"terminators STOP/RETURN/REVERT/INVALID/out-of-gas/SELFDESTRUCT(self)/SELFDESTRUCT(other); contracts that are not reachable keep the trivial body so no program is visited twice; programs up to max_actions_total_for_create_entry actions are also entered as a creation transaction (K0's body as init code). " +
		"Each program is compiled to byte code and run by the real EVM (core/vm/runtime Call/Create, a vm.Tracer attached) as transaction 1 and again as transaction 2 after Finalise on the same StateDB reopened from a committed base. distinct = distinct (outcome of both transactions, final reference world) pairs"
	r.SetExtra("bounds", b)
	r.Assume("frames may always fail for lack of gas: where a frame runs out of gas is taken from the real execution (tracer), every other frame outcome is predicted by the reference and compared")
	r.Assume("gas refunds (SSTORE clear, SELFDESTRUCT) are applied by the state transition, not by the EVM, and are outside this check (C17 covers the refund)")

	l0, l1, l2 := b.bodiesBySize(0), b.bodiesBySize(1), b.bodiesBySize(2)
	var outer []Body
	for n := 0; n <= minInt(b.MaxPerBody, b.MaxTotal); n++ {
		outer = append(outer, l0[n]...)
	}
	r.SetExtra("entry_bodies", len(outer))
	hs := make([]*harness, r.Workers)
	var programs int64
	r.ForEach(len(outer), func(w, i int) {
		if hs[w] == nil {
			hs[w] = newHarness(func(n string) { r.Count(n, 1) })
		}
		h := hs[w]
		n := 0
		b.forEachCompletion(outer[i], l1, l2, func(p *Program, total int) {
			if n&255 == 0 && r.Expired() {
				return
			}
			for _, create := range []bool{false, true} {
				if create && total > b.CreateTotal {
					continue
				}
				q := *p
				q.Create = create
				n++
				oc, fs, wk := h.runProgram(&q)
				if r.Distinct(oc+"|"+wk) && n%50 == 1 {
					r.Sample(q.String() + " => " + oc)
				}
				for _, f := range fs {
					pc := q
					r.Report(mc.Violation{Sig: f.sig, Detail: q.String() + "\n" + f.detail, Input: &pc})
				}
			}
		})
		atomic.AddInt64(&programs, int64(n))
		atomic.AddInt64(&r.Evaluations, int64(n)-1)
	})
	r.SetExtra("programs", atomic.LoadInt64(&programs))
	r.SetExtra("transactions_executed", 2*atomic.LoadInt64(&programs))
}

// Replay re-executes a replay file without the explorer.
func Replay(r *mc.Run, v *mc.Violation) {
	setup()
	bs, _ := json.Marshal(v.Input)
	var p Program
	if err := json.Unmarshal(bs, &p); err != nil {
		fmt.Println("bad input:", err)
		return
	}
	h := newHarness(func(string) {})
	oc, fs, _ := h.runProgram(&p)
	fmt.Println(p.String(), "=>", oc)
	for _, f := range fs {
		fmt.Println("violation:", f.sig, "\n ", f.detail)
		r.Report(mc.Violation{Sig: f.sig, Detail: f.detail, Input: v.Input})
	}
}
