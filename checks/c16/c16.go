package c16

import (
	"encoding/json"
	"fmt"
	"math/big"
	"os"
	"sort"
	"strconv"
	"strings"
	"sync"
	"sync/atomic"
	"time"

	"github.com/youchainhq/go-youchain/common"
	"github.com/youchainhq/go-youchain/core/state"
	"github.com/youchainhq/go-youchain/core/vm"
	"github.com/youchainhq/go-youchain/core/vm/runtime"
	"github.com/youchainhq/go-youchain/crypto"
	"github.com/youchainhq/go-youchain/logging"
	"github.com/youchainhq/go-youchain/params"
	"github.com/youchainhq/go-youchain/rlp"
	"github.com/youchainhq/go-youchain/youdb"

	"verif/mc"
)

const (
	txGas    = uint64(1) << 50 // nothing in the grammar loops: a huge allotment only keeps accidental out-of-gas rare
	blockNum = 100
)

var (
	setupOnce sync.Once
	slotHash  = [2]common.Hash{{}, common.BigToHash(big.NewInt(1))}
	txHashes  = [2]common.Hash{common.BigToHash(big.NewInt(0x7001)), common.BigToHash(big.NewInt(0x7002))}
	blockHash = common.BigToHash(big.NewInt(0xb10c))
)

func setup() {
	setupOnce.Do(func() {
		params.InitNetworkId(params.NetworkIdForTestCase)
		logging.Root().SetHandler(logging.DiscardHandler())
		logging.VerifCritHook = func(msg string, ctx []interface{}) { panic("logging.Crit: " + msg) }
	})
}

// harness: per-worker real objects.
type harness struct {
	db       state.Database
	roots    [3]common.Hash
	tr       *tracer
	evmCfg   *vm.Config
	srootFor map[[2]uint64]common.Hash
	chashFor map[string]common.Hash
	khashFor map[common.Address]common.Hash
	count    func(string)
	b        *bounds
	deps     [2][]depObs // depositing creation frames of the last runProgram, per transaction
}

// depObs: a creation frame whose init code ended in a RETURN of n > 0 bytes
// (n within the code size limit): the gas it had left then and the price of
// the deposit.  key = the frame's position in the frame tree (pcs of the call
// ops leading to it), independent of gas.
type depObs struct {
	key        string
	left, need uint64
}

func returnedSize(f *tframe) uint64 {
	if f.last.op == vm.RETURN && f.last.ntop >= 2 && f.last.top[1].IsUint64() {
		return f.last.top[1].Uint64()
	}
	return 0
}

func collectDeposits(f *tframe, creation bool, key string, out *[]depObs) {
	if f == nil {
		return
	}
	if creation && f.outcome() == oSuccess && f.last.gas >= f.last.cost {
		if n := returnedSize(f); n > 0 && n <= maxCodeSize {
			*out = append(*out, depObs{key, f.last.gas - f.last.cost, n * createDataGas})
		}
	}
	for _, c := range f.calls {
		collectDeposits(c.child, c.op == vm.CREATE || c.op == vm.CREATE2, fmt.Sprintf("%s/%d", key, c.pc), out)
	}
}

// handBack: the gas a finished frame owes its caller, from the observed frame
// alone.  A frame that ended in an exceptional halt has consumed everything;
// a frame that ended normally or in REVERT hands back what it had left after
// its last op; a creation frame additionally pays 200 gas per byte of returned
// code and has consumed everything if it cannot, or if the code is oversize.
func handBack(f *tframe, creation bool) (want uint64, class string, ok bool) {
	oc := f.outcome()
	if oc != oSuccess && oc != oRevert {
		return 0, "an exceptional halt", true
	}
	if f.last.gas < f.last.cost {
		return 0, "", false
	}
	left := f.last.gas - f.last.cost
	if oc == oRevert {
		return left, "REVERT", true
	}
	if !creation {
		return left, "success", true
	}
	n := returnedSize(f)
	switch {
	case n > maxCodeSize:
		return 0, "a creation returning oversize code", true
	case left < n*createDataGas:
		return 0, "a creation that could not pay its code deposit", true
	}
	return left - n*createDataGas, "a completed creation", true
}

func newHarness(count func(string)) *harness {
	h := &harness{db: state.NewDatabase(youdb.NewMemDatabase()), tr: &tracer{}, srootFor: map[[2]uint64]common.Hash{}, chashFor: map[string]common.Hash{}, khashFor: map[common.Address]common.Hash{}, count: count}
	st, err := state.New(common.Hash{}, common.Hash{}, common.Hash{}, h.db)
	if err != nil {
		panic(err)
	}
	// the committed base holds placeholder code (an account without balance,
	// nonce and code would be dropped at commit); the program's code is
	// installed per case
	ph := &Code{Bytes: []byte{0x00}}
	w := baseWorld([3]*Code{ph, ph, ph})
	materialise(st, w)
	r0, r1, r2, err := st.Commit(true)
	if err != nil {
		panic(err)
	}
	h.roots = [3]common.Hash{r0, r1, r2}
	yp := params.Versions[params.YouCurrentVersion]
	h.evmCfg = &vm.Config{
		RuntimeConfig: vm.RuntimeConfig{CurrYouParams: &yp, JumpTable: vm.GetJumpTable(yp.EVMVersion)},
		LocalConfig:   vm.LocalConfig{Debug: true, Tracer: h.tr},
	}
	return h
}

// materialise writes a reference world into a StateDB with plain setters.
func materialise(st *state.StateDB, w *world) {
	var as []common.Address
	for a, x := range w.acc {
		if x.exists {
			as = append(as, a)
		}
	}
	sort.Slice(as, func(i, j int) bool { return string(as[i][:]) < string(as[j][:]) })
	for _, a := range as {
		x := w.acc[a]
		st.SetBalance(a, big.NewInt(x.bal))
		st.SetNonce(a, x.nonce)
		if len(x.code) > 0 {
			st.SetCode(a, x.code)
		}
		for s, v := range x.slots {
			if v != 0 {
				st.SetState(a, slotHash[s], common.BigToHash(new(big.Int).SetUint64(v)))
			}
		}
	}
}

func worldKey(w *world) string {
	var as []string
	for a, x := range w.acc {
		if x.exists {
			as = append(as, fmtAcct(string(a[:]), true, fmt.Sprint(x.bal), x.nonce, x.code, x.slots[0], x.slots[1]))
		}
	}
	sort.Strings(as)
	return strings.Join(as, "|")
}

// storageRootOf returns the storage root of an account holding exactly the
// two observed slots (computed once per content through the real StateDB).
func (h *harness) storageRootOf(slots [2]uint64) common.Hash {
	if r, ok := h.srootFor[slots]; ok {
		return r
	}
	st, err := state.New(common.Hash{}, common.Hash{}, common.Hash{}, h.db)
	if err != nil {
		panic(err)
	}
	w := &world{acc: map[common.Address]*racct{addrX: {exists: true, bal: 1, slots: slots}}}
	materialise(st, w)
	st.IntermediateRoot(true)
	leaves, err := st.VerifC16AccountLeaves()
	if err != nil || len(leaves) != 1 {
		panic(fmt.Sprint("harness: storage root probe: ", err, len(leaves)))
	}
	var acc state.Account
	for _, blob := range leaves {
		if err := rlp.DecodeBytes(blob, &acc); err != nil {
			panic(err)
		}
	}
	h.srootFor[slots] = acc.Root
	return acc.Root
}

func (h *harness) codeHashOf(code []byte) common.Hash {
	k := string(code)
	if r, ok := h.chashFor[k]; ok {
		return r
	}
	if len(h.chashFor) > 4096 {
		h.chashFor = map[string]common.Hash{}
	}
	r := crypto.Keccak256Hash(code)
	h.chashFor[k] = r
	return r
}

func (h *harness) keyOf(a common.Address) common.Hash {
	if r, ok := h.khashFor[a]; ok {
		return r
	}
	if len(h.khashFor) > 65536 {
		h.khashFor = map[common.Address]common.Hash{}
	}
	r := crypto.Keccak256Hash(a[:])
	h.khashFor[a] = r
	return r
}

// wholeState compares EVERY leaf of the real account trie with the reference
// world: no account outside the world, none missing, and for each account the
// complete record (nonce, balance, storage root = root of exactly the
// observed slots, code hash, no delegation data).
func (h *harness) wholeState(st *state.StateDB, w *world) (out []finding) {
	leaves, err := st.VerifC16AccountLeaves()
	if err != nil {
		return []finding{{"harness: cannot iterate the account trie", err.Error()}}
	}
	n := 0
	for a, x := range w.acc {
		if !x.exists {
			continue
		}
		n++
		blob, ok := leaves[h.keyOf(a)]
		if !ok {
			out = append(out, finding{"whole-state: account of the reference world is missing from the state trie", fmt.Sprintf("%x", a)})
			continue
		}
		var acc state.Account
		if err := rlp.DecodeBytes(blob, &acc); err != nil {
			out = append(out, finding{"whole-state: undecodable account record", err.Error()})
			continue
		}
		var bad []string
		if acc.Nonce != x.nonce {
			bad = append(bad, "nonce")
		}
		if acc.Balance == nil || acc.Balance.Cmp(big.NewInt(x.bal)) != 0 {
			bad = append(bad, "balance")
		}
		if acc.Root != h.storageRootOf(x.slots) {
			bad = append(bad, "storage-root")
		}
		if common.BytesToHash(acc.CodeHash) != h.codeHashOf(x.code) {
			bad = append(bad, "code-hash")
		}
		if (acc.DelegationBalance != nil && acc.DelegationBalance.Sign() != 0) || len(acc.DelegationsHash) != 0 {
			bad = append(bad, "delegation-data")
		}
		if len(bad) > 0 {
			out = append(out, finding{"whole-state: account record differs from the reference world: " + strings.Join(bad, "+"),
				fmt.Sprintf("%x: real nonce=%d bal=%v root=%x code=%x | reference nonce=%d bal=%d slots=%v", a, acc.Nonce, acc.Balance, acc.Root[:4], acc.CodeHash[:4], x.nonce, x.bal, x.slots)})
		}
	}
	if len(leaves) != n {
		out = append(out, finding{"whole-state: the state trie holds an account outside the reference world", fmt.Sprintf("%d leaves, %d accounts in the reference world", len(leaves), n)})
	}
	return out
}

type finding struct {
	sig    string
	detail string
}

// observeReal reads the universe through the API and returns the rendering
// and the sum of all balances.
func observeReal(st *state.StateDB, r *ref) ([]string, *big.Int) {
	names := r.names()
	out := make([]string, 0, len(names))
	sum := new(big.Int)
	for i, a := range r.universe {
		if !st.Exist(a) {
			out = append(out, names[i]+"{absent}")
			continue
		}
		bal := st.GetBalance(a)
		sum.Add(sum, bal)
		out = append(out, fmtAcct(names[i], true, bal.String(), st.GetNonce(a), st.GetCode(a), st.GetState(a, slotHash[0]).Big().Uint64(), st.GetState(a, slotHash[1]).Big().Uint64()))
	}
	return out, sum
}

func fieldClasses(want, got []string) string {
	set := map[string]bool{}
	for i := range want {
		if i < len(got) && want[i] == got[i] {
			continue
		}
		g := ""
		if i < len(got) {
			g = got[i]
		}
		wa, ga := strings.HasSuffix(want[i], "{absent}"), strings.HasSuffix(g, "{absent}")
		if wa != ga {
			set["existence"] = true
			continue
		}
		wf, gf := strings.Fields(want[i]), strings.Fields(g)
		for j := range wf {
			if j >= len(gf) || wf[j] != gf[j] {
				n := wf[j]
				if k := strings.Index(n, "{"); k >= 0 {
					n = n[k+1:]
				}
				if k := strings.Index(n, "="); k >= 0 {
					n = n[:k]
				}
				switch n {
				case "bal":
					set["balance"] = true
				case "s0", "s1":
					set["storage"] = true
				default:
					set[n] = true
				}
			}
		}
	}
	var out []string
	for k := range set {
		out = append(out, k)
	}
	sort.Strings(out)
	return strings.Join(out, "+")
}

func diffLines(want, got []string) string {
	var b strings.Builder
	for i := range want {
		g := "?"
		if i < len(got) {
			g = got[i]
		}
		if want[i] != g {
			fmt.Fprintf(&b, "\n  reference %s | real %s", want[i], g)
		}
	}
	return b.String()
}

// blame names the failed frame(s) of the transaction for a signature.
func causes(failed []failedFrame) string {
	var s []string
	for _, f := range failed {
		s = append(s, f.via+":"+f.cause)
	}
	return "failed frames: " + strings.Join(s, ", ")
}

func blame(failed []failedFrame) string {
	switch len(failed) {
	case 0:
		return "no frame failed"
	case 1:
		return fmt.Sprintf("one failed frame, entered by %s", failed[0].via)
	}
	return "several failed frames"
}

// walk applies the program-independent oracles to the observed frame tree.
func walk(f *tframe, static bool, txno int, out *[]finding, count func(string)) {
	if static {
		count("static_frames")
		if len(f.writes) > 0 {
			*out = append(*out, finding{fmt.Sprintf("STATICCALL frame executed %v", f.writes[0]), fmt.Sprintf("tx%d depth %d self %x", txno, f.depth, f.self[:2])})
		}
	}
	if f.gasNoise != "" {
		*out = append(*out, finding{"gas increased inside a frame without a call", fmt.Sprintf("tx%d depth %d: %s", txno, f.depth, f.gasNoise)})
	}
	for _, c := range f.calls {
		if c.gasBefore < c.cost {
			*out = append(*out, finding{fmt.Sprintf("%v executed with less gas than its cost", c.op), fmt.Sprintf("tx%d depth %d gas %d cost %d", txno, f.depth, c.gasBefore, c.cost)})
			continue
		}
		avail := c.gasBefore - c.cost
		var retained, supplied uint64
		exact := false
		switch c.op {
		case vm.CREATE:
			retained, supplied, exact = 0, avail, true
		case vm.CREATE2:
			retained, supplied, exact = avail/64, avail-avail/64, true
		default:
			retained = avail
			supplied = c.cost // upper bound: the forwarded gas is part of the cost
			if c.value {
				supplied += 2300
			}
		}
		if c.child != nil {
			if c.child.first.gas > supplied {
				*out = append(*out, finding{fmt.Sprintf("gas supplied to the callee exceeds what the caller paid at depth %d (%v)", f.depth, c.op),
					fmt.Sprintf("tx%d: callee starts with %d, caller had %d cost %d", txno, c.child.first.gas, c.gasBefore, c.cost)})
			}
			if !exact {
				supplied = c.child.first.gas
			}
			count("calls_with_callee_frame")
		}
		if c.haveAfter && c.child != nil && c.gasAfter >= retained {
			if want, class, ok := handBack(c.child, c.op == vm.CREATE || c.op == vm.CREATE2); ok {
				count("gas_hand_back_checks")
				if want == 0 {
					count("gas_hand_back_checks_frame_consumed_everything")
				}
				if got := c.gasAfter - retained; got != want {
					*out = append(*out, finding{fmt.Sprintf("gas handed back by a frame that ended in %s differs from what the frame had left (%v)", class, c.op),
						fmt.Sprintf("tx%d depth %d: handed back %d, the frame owed %d (callee's last op %v with gas %d cost %d; caller gas before %d, cost %d, after %d)",
							txno, f.depth, got, want, c.child.last.op, c.child.last.gas, c.child.last.cost, c.gasBefore, c.cost, c.gasAfter)})
				}
			}
		}
		if c.haveAfter {
			count("gas_return_checks")
			if c.gasAfter < retained {
				*out = append(*out, finding{fmt.Sprintf("caller lost retained gas across a call at depth %d (%v)", f.depth, c.op), fmt.Sprintf("tx%d: retained %d after %d", txno, retained, c.gasAfter)})
			} else if ret := c.gasAfter - retained; ret > supplied {
				*out = append(*out, finding{fmt.Sprintf("gas returned exceeds supplied at depth %d (%v)", f.depth, c.op),
					fmt.Sprintf("tx%d: supplied %d returned %d (gas before %d, cost %d, after %d)", txno, supplied, ret, c.gasBefore, c.cost, c.gasAfter)})
			} else if ret == supplied {
				count("gas_returned_in_full")
			} else if ret == 0 {
				count("gas_returned_none")
			} else {
				count("gas_returned_partly")
			}
		}
		if c.child != nil {
			walk(c.child, static || c.op == vm.STATICCALL, txno, out, count)
		}
	}
}

func hasSelfdestruct(f *tframe) bool {
	if f == nil {
		return false
	}
	for _, w := range f.writes {
		if w == vm.SELFDESTRUCT {
			return true
		}
	}
	for _, c := range f.calls {
		if hasSelfdestruct(c.child) {
			return true
		}
	}
	return false
}

// runProgram runs p as transaction 1 and 2 on one real StateDB and judges it.
func (h *harness) runProgram(p *Program) (outcome string, out []finding, finalWorld string) {
	var codes [3]*Code
	for i := range codes {
		codes[i] = compile(p.Bodies[i], i)
	}
	h.deps[0], h.deps[1] = h.deps[0][:0], h.deps[1][:0]
	st, err := state.New(h.roots[0], h.roots[1], h.roots[2], h.db)
	if err != nil {
		panic(err)
	}
	if !p.Create {
		st.SetCode(addrK[0], codes[0].Bytes)
	}
	st.SetCode(addrK[1], codes[1].Bytes)
	st.SetCode(addrK[2], codes[2].Bytes)
	st.Finalise(true)

	r := &ref{w: baseWorld(codes), inU: map[common.Address]bool{}, reg: map[string]*Code{}, count: h.count}
	if p.Create {
		r.w.get(addrK[0]).code = stopCode // the placeholder code of the committed base
	}
	for _, a := range []common.Address{addrO, addrK[0], addrK[1], addrK[2], addrX, addrN, addrCB} {
		r.addU(a)
	}
	for _, c := range codes {
		r.reg[string(c.Bytes)] = c
	}
	r.reg[string(stopCode)] = compile(trivialBody, 0)
	logIndex := uint(0)
	var outcomes []string
	// addresses that join the universe later did not exist before (nothing in
	// the grammar funds an address before creating it), so the sum over the
	// initial universe is the sum before transaction 1
	_, before := observeReal(st, r)

	for k := 1; k <= 2; k++ {
		txn := fmt.Sprintf("tx%d", k)
		r.txno = uint64(k)
		st.Prepare(txHashes[k-1], blockHash, k-1)
		h.tr.reset()
		h.deps[k-1] = h.deps[k-1][:0]
		txGas := txGas
		if p.TxGas[k-1] != 0 {
			txGas = p.TxGas[k-1]
			h.count("tx_with_limited_gas")
		}
		cfg := runtime.Config{Origin: addrO, Coinbase: addrCB, BlockNumber: big.NewInt(blockNum), Time: big.NewInt(1600000000),
			GasLimit: txGas, GasPrice: big.NewInt(int64(k)), Value: big.NewInt(1), State: st, EVMConfig: h.evmCfg}
		var (
			left   uint64
			cerr   error
			cr     common.Address
			hadErr bool
		)
		msg, where := mc.CatchStack(func() {
			if p.Create {
				_, cr, left, cerr = runtime.Create(codes[0].Bytes, &cfg)
			} else {
				_, left, cerr = runtime.Call(addrK[0], nil, &cfg)
			}
			hadErr = cerr != nil
			st.Finalise(true)
		})
		if msg != "" {
			out = append(out, finding{fmt.Sprintf("panic in %s at %s: %s", txn, where, normMsg(msg)), msg})
			return "panic", out, ""
		}
		if left > txGas {
			out = append(out, finding{"gas returned exceeds supplied at depth 0 (transaction)", fmt.Sprintf("%s: supplied %d left %d", txn, txGas, left)})
		}
		root, terr := buildTree(h.tr.events)
		if terr != "" {
			out = append(out, finding{"harness: trace is not a frame tree: " + terr, txn})
			return "harness", out, ""
		}
		if root != nil {
			if root.first.gas > txGas {
				out = append(out, finding{"gas supplied to the callee exceeds what the caller paid at depth 0 (transaction)", txn})
			}
			walk(root, false, k, &out, h.count)
			if want, class, ok := handBack(root, p.Create); ok {
				h.count("gas_hand_back_checks")
				if want == 0 {
					h.count("gas_hand_back_checks_frame_consumed_everything")
				}
				if left != want {
					out = append(out, finding{fmt.Sprintf("gas handed back by a frame that ended in %s differs from what the frame had left (transaction)", class),
						fmt.Sprintf("%s: left over %d, the entry frame owed %d (last op %v with gas %d cost %d)", txn, left, want, root.last.op, root.last.gas, root.last.cost)})
				}
			}
			collectDeposits(root, p.Create, "", &h.deps[k-1])
		}
		// the reference follows
		ok, created := r.runTx(p, codes, root)
		for _, n := range r.notes {
			out = append(out, finding{n.sig, txn + ": " + n.detail})
		}
		r.notes = r.notes[:0]
		if ok == hadErr {
			out = append(out, finding{"transaction-level error does not match the outcome of the entry frame", fmt.Sprintf("%s: err=%v, reference frame ok=%v", txn, cerr, ok)})
		}
		if p.Create && ok && cr != created {
			out = append(out, finding{"created contract address differs from CreateAddress(origin, nonce)", fmt.Sprintf("%s: %x vs %x", txn, cr, created)})
		}
		failed := append([]failedFrame{}, r.failed...)
		if len(failed) > 0 {
			h.count("tx_with_failed_frames")
			if k == 2 {
				h.count("tx2_with_failed_frames")
				if len(failed) > 1 {
					h.count("tx2_with_several_failed_frames")
				}
			}
		} else {
			h.count("tx_without_failed_frame")
		}
		// logs
		var rl []string
		for _, l := range st.GetLogs(txHashes[k-1]) {
			t := uint64(0)
			if len(l.Topics) > 0 {
				t = l.Topics[0].Big().Uint64()
			}
			rl = append(rl, fmt.Sprintf("%x:%x@%d/tx%d", l.Address[:2], t, l.Index, l.TxIndex))
		}
		var wl []string
		for _, l := range r.w.logs {
			wl = append(wl, fmt.Sprintf("%x:%x@%d/tx%d", l.addr[:2], l.topic, logIndex, k-1))
			logIndex++
		}
		if strings.Join(rl, ",") != strings.Join(wl, ",") {
			out = append(out, finding{fmt.Sprintf("logs differ from the frame-semantics reference (%s; %s)", txn, blame(failed)),
				fmt.Sprintf("reference [%s] real [%s]", strings.Join(wl, ","), strings.Join(rl, ","))})
		}
		if len(wl) > 0 {
			h.count("tx_with_surviving_logs")
		}
		burnt := r.w.endOfTx()
		// state over the universe
		want := r.render()
		got, after := observeReal(st, r)
		if fc := fieldClasses(want, got); fc != "" {
			// one finding per field class: the same failure keeps its
			// signature whichever other fields it drags along
			for _, c := range strings.Split(fc, "+") {
				out = append(out, finding{fmt.Sprintf("%s differs from the frame-semantics reference (%s; %s)", c, txn, blame(failed)), causes(failed) + diffLines(want, got)})
			}
		}
		// conservation, independent of the reference: without an executed
		// SELFDESTRUCT the sum of all balances is unchanged; it never grows
		sd := hasSelfdestruct(root)
		switch {
		case after.Cmp(before) > 0:
			out = append(out, finding{"sum of balances grew during execution", fmt.Sprintf("%s: %v -> %v", txn, before, after)})
		case !sd && after.Cmp(before) != 0:
			out = append(out, finding{"sum of balances changed without any SELFDESTRUCT", fmt.Sprintf("%s: %v -> %v", txn, before, after)})
		case sd && new(big.Int).Sub(before, after).Cmp(big.NewInt(burnt)) != 0:
			out = append(out, finding{"sum of balances changed by something else than the self-destructed accounts' burnt value",
				fmt.Sprintf("%s: %v -> %v, reference burn %d", txn, before, after, burnt)})
		}
		if burnt > 0 {
			h.count("tx_burning_value")
		}
		oc := "ok"
		if !ok {
			oc = "entry-failed"
		}
		outcomes = append(outcomes, fmt.Sprintf("%s/%d failed frames", oc, len(failed)))
		before = after
		if len(out) > 0 {
			// everything after the first discrepancy runs on a state the
			// reference no longer shares: stop, so that only primary
			// failures get signatures
			return strings.Join(outcomes, " ; ") + " ; stopped", out, ""
		}
	}
	// whole-state check: every leaf of the real account trie against the
	// reference world (catches anything outside the observed universe/slots)
	var valRoot, stkRoot common.Hash
	if msg, where := mc.CatchStack(func() { _, valRoot, stkRoot = st.IntermediateRoot(true) }); msg != "" {
		out = append(out, finding{fmt.Sprintf("panic computing the state root at %s: %s", where, normMsg(msg)), msg})
		return "panic", out, ""
	}
	out = append(out, h.wholeState(st, r.w)...)
	if valRoot != h.roots[1] || stkRoot != h.roots[2] {
		out = append(out, finding{"EVM execution changed the validator or staking trie", ""})
	}
	return strings.Join(outcomes, " ; "), out, worldKey(r.w)
}

func normMsg(m string) string {
	var b strings.Builder
	for _, c := range m {
		if c >= '0' && c <= '9' {
			continue
		}
		b.WriteRune(c)
	}
	s := b.String()
	if len(s) > 80 {
		s = s[:80]
	}
	return s
}

// Run is the check entry point.
func Run(r *mc.Run) {
	setup()
	r.Level = "exploration"
	b := quickBounds()
	if r.Quick() {
		r.SetBudget(160e9)
	} else {
		b = thoroughBounds()
		r.SetBudget(30 * 60e9)
	}
	// VERIF_BUDGET_S=<seconds> shortens the internal deadline (the run then
	// ends with exhaustive:false, never with a failure)
	if s, err := strconv.Atoi(os.Getenv("VERIF_BUDGET_S")); err == nil && s > 0 {
		r.SetBudget(time.Duration(s) * time.Second)
	}
	b.fill()
	r.Rule = "every program of the grammar is enumerated: bodies of K0..K2 = <= max_actions_per_body actions + terminator, total number of actions <= max_actions_total; " +
		"leaf actions SSTORE(slot0|slot1, tag+txno) / SSTORE(0,0) / LOG1 / CALL(value) to an externally owned account or to an address that does not exist / CREATE and CREATE2 with init code {ok, reverting, oversize, invalid, storing+logging then returning a 300-byte runtime code (fails AT CODE DEPOSIT when less than 60000 gas is left)} (each init code first writes storage); " +
		"entering actions CALL(value 0|1), CALLCODE, DELEGATECALL, STATICCALL to a higher-numbered contract, with gas classes {all, fixed mid-size allotment 22000, creation-sized allotment 90000 = pays CREATE and the init code but not the 300-byte deposit (enumerated on calls beneath which a CREATE/CREATE2 action exists)[, 0]}; " +
		"terminators STOP/RETURN/REVERT/INVALID/out-of-gas/SELFDESTRUCT(self)/SELFDESTRUCT(other); contracts that are not reachable keep the trivial body so no program is visited twice; programs up to max_actions_total_for_create_entry actions are also entered as a creation transaction (K0's body as init code; with the further terminators RETURN(300-byte code) under an unlimited and a 60000 gas limit (deposit not payable) and RETURN(oversize)). " +
		"Boundary probe: for every program of <= boundary_probe_max_actions_total actions whose entry body does not end in REVERT and that has a creation frame depositing the 300-byte code (programs of <= 1 action: any code, and transaction 2 as well), the gas limit of transaction 1 is driven to the least limit at which the first such frame still pays its deposit (= it has exactly the deposit left), and every limit from boundary_probe_window/4 below to boundary_probe_window above it is run; all probing runs are judged like any program. " +
		"Each program is compiled to byte code and run by the real EVM (core/vm/runtime Call/Create, a vm.Tracer attached) as transaction 1 and again as transaction 2 after Finalise on the same StateDB reopened from a committed base. Besides the reference comparison, every frame's gas hand-back is checked against the observed frame: exceptional halt, unpayable deposit and oversize code hand back nothing, REVERT and success hand back exactly what was left (minus 200 per byte of deposited code). distinct = distinct (outcome of both transactions, final reference world) pairs"
	r.SetExtra("bounds", b)
	r.Assume("frames may always fail for lack of gas: where a frame runs out of gas is taken from the real execution (tracer), every other frame outcome is predicted by the reference and compared")
	r.Assume("gas refunds (SSTORE clear, SELFDESTRUCT) are applied by the state transition, not by the EVM, and are outside this check (C17 covers the refund)")

	l0, l1, l2 := b.bodiesBySize(0), b.bodiesBySize(1), b.bodiesBySize(2)
	var outer []Body
	for n := 0; n <= minInt(b.MaxPerBody, b.MaxTotal); n++ {
		outer = append(outer, l0[n]...)
	}
	// heaviest entry bodies first (those entering other contracts have the most
	// completions), so that the workers finish together
	weight := func(b Body) int {
		n := 0
		for _, a := range b.Acts {
			if a.K >= ACall && a.K <= AStatic && a.Target <= tgK2 {
				n++
			}
		}
		return n
	}
	sort.SliceStable(outer, func(i, j int) bool { return weight(outer[i]) > weight(outer[j]) })
	r.SetExtra("entry_bodies", len(outer))
	hs := make([]*harness, r.Workers)
	var programs int64
	// counterexamples found earlier (findings/C16) that the quick grammar bound
	// does not reach are run first, in every tier
	pinned := 0
	for _, v := range r.Pinned() {
		var p Program
		if bs, err := json.Marshal(v.Input); err != nil || json.Unmarshal(bs, &p) != nil {
			continue
		}
		pinned++
		_, fs, _ := newHarness(func(n string) { r.Count(n, 1) }).runProgram(&p)
		for _, f := range fs {
			pc := p
			r.Report(mc.Violation{Sig: f.sig, Detail: p.String() + "\n" + f.detail, Input: &pc})
		}
	}
	r.SetExtra("pinned_counterexamples_rerun", pinned)
	r.ForEach(len(outer), func(w, i int) {
		if hs[w] == nil {
			hs[w] = newHarness(func(n string) { r.Count(n, 1) })
		}
		h := hs[w]
		n, visits, expired := 0, 0, false
		b.forEachCompletion(outer[i], l1, l2, func(p *Program, total int) {
			visits++
			if expired || (visits&127 == 1 && r.Expired()) {
				expired = true
				return
			}
			if !depClassUseful(p) {
				return
			}
			run := func(q *Program) {
				n++
				var oc, wk string
				var fs []finding
				if m, where := mc.CatchStack(func() { oc, fs, wk = h.runProgram(q) }); m != "" {
					// e.g. a balance that aliases a pooled integer of the interpreter is rewritten (even torn) by later
					// execution: reading the state then fails
					pc := *q
					r.Report(mc.Violation{Sig: "panic while executing a program or reading the state it left: " + normMsg(m) + " at " + where, Detail: q.String() + "\n" + m, Input: &pc})
					hs[w] = nil // the harness instance may be half-way through: rebuild
					h = newHarness(func(n string) { r.Count(n, 1) })
					hs[w] = h
					return
				}
				if r.Distinct(oc+"|"+wk) && n%50 == 1 {
					r.Sample(q.String() + " => " + oc)
				}
				for _, f := range fs {
					pc := *q
					r.Report(mc.Violation{Sig: f.sig, Detail: q.String() + "\n" + f.detail, Input: &pc})
				}
			}
			for _, create := range []bool{false, true} {
				if create && total > b.CreateTotal {
					continue
				}
				q := *p
				q.Create = create
				run(&q)
				h.probe(&q, total, &b, run)
				if !create || q.Bodies[0].Term != TStop {
					continue
				}
				// creation transactions only: the init code of the transaction
				// returns runtime code (300 bytes: deposit paid or not, by the
				// transaction's gas limit) or oversize code
				for _, t := range b.Terms0Create {
					limits := []uint64{0}
					if t == TReturnDep {
						limits = b.CreateTxGas
					}
					for _, g := range limits {
						q2 := q
						q2.Bodies[0].Term = t
						q2.TxGas = [2]uint64{g, g}
						run(&q2)
						if g == 0 {
							h.probe(&q2, total, &b, run)
						}
					}
				}
			}
		})
		atomic.AddInt64(&programs, int64(n))
		atomic.AddInt64(&r.Evaluations, int64(n)-1)
	})
	r.SetExtra("programs", atomic.LoadInt64(&programs))
	r.SetExtra("transactions_executed", 2*atomic.LoadInt64(&programs))
}

// depClassUseful: the creation-sized gas class (gDep) is enumerated only on
// calls beneath which a CREATE/CREATE2 action exists (everywhere else it
// behaves like one of the other two classes).
func depClassUseful(p *Program) bool {
	var creates [3]bool
	for j := 2; j >= 0; j-- {
		for _, a := range p.Bodies[j].Acts {
			switch {
			case a.K == ACreate || a.K == ACreate2:
				creates[j] = true
			case a.K >= ACall && a.K <= AStatic && a.Target <= tgK2 && creates[a.Target]:
				creates[j] = true
			}
		}
	}
	for _, b := range p.Bodies {
		for _, a := range b.Acts {
			if a.K >= ACall && a.K <= AStatic && a.Target <= tgK2 && a.Gas == gDep && !creates[a.Target] {
				return false
			}
		}
	}
	return true
}

// probe drives the first depositing creation frame of transaction 1, then of
// transaction 2, of a program that was just run with unlimited gas to its
// boundary: the least gas limit of that transaction at which the frame still
// pays its code deposit.  One unit of gas less for the transaction gives a
// frame at most one unit less, so stepping the limit down by the frame's
// surplus never overshoots and ends where the frame has EXACTLY the deposit
// left (bisection is the fallback).  Then every limit from ProbeWindow/4 below
// to ProbeWindow above the boundary is run: one unit short of the deposit,
// deposit paid and the creator out of gas right after.  Every probing run is
// judged like any other program.  Targets: the 300-byte deposits of
// transaction 1; in programs of at most one action also the one-byte deposits
// and the deposits of transaction 2.
func (h *harness) probe(q *Program, total int, b *bounds, run func(*Program)) {
	if total > b.ProbeTotal || q.Bodies[0].Term == TRevert {
		return
	}
	var targets [2]string
	var have [2]bool
	for t := 0; t < 2; t++ {
		if t == 1 && total > 1 {
			continue // transaction 2 is probed in programs of at most one action
		}
		if len(h.deps[t]) > 0 && (h.deps[t][0].need > createDataGas || total <= 1) {
			targets[t], have[t] = h.deps[t][0].key, true
		}
	}
	for t := 0; t < 2; t++ {
		if !have[t] {
			continue
		}
		h.count("probe_targets")
		var exact, short bool
		// eval: run with the limit g on transaction t+1; surplus of the target frame (-1: frame absent or deposit not paid)
		eval := func(g uint64) int64 {
			pq := *q
			pq.TxGas = [2]uint64{}
			pq.TxGas[t] = g
			run(&pq)
			h.count("probe_runs")
			for _, d := range h.deps[t] {
				if d.key == targets[t] {
					exact = exact || d.left == d.need
					short = short || d.left+1 == d.need
					if d.left >= d.need {
						return int64(d.left - d.need)
					}
					return -1
				}
			}
			return -1
		}
		hi := uint64(1) << 19
		sur := eval(hi)
		if sur < 0 {
			h.count("probe_target_not_paid_with_512k_gas")
			continue
		}
		lo := uint64(0) // a limit that does not pay
		for i := 0; i < 10 && sur > 0 && uint64(sur) < hi; i++ {
			g := hi - uint64(sur)
			if s2 := eval(g); s2 >= 0 {
				hi, sur = g, s2
			} else {
				lo = g
				h.count("probe_step_overshot")
				break
			}
		}
		if sur > 0 {
			h.count("probe_fell_back_to_bisection")
			for hi-lo > 1 {
				mid := lo + (hi-lo)/2
				if eval(mid) >= 0 {
					hi = mid
				} else {
					lo = mid
				}
			}
		}
		for d := -(b.ProbeWindow / 4); d <= b.ProbeWindow; d++ {
			if g := int64(hi) + int64(d); g > 0 && d != 0 {
				eval(uint64(g))
			}
		}
		if exact {
			h.count("probe_boundary_deposit_paid_with_exactly_the_gas_left")
		}
		if short {
			h.count("probe_boundary_deposit_one_gas_short")
		}
	}
}

// Replay re-executes a replay file without the explorer.
func Replay(r *mc.Run, v *mc.Violation) {
	setup()
	bs, _ := json.Marshal(v.Input)
	var p Program
	if err := json.Unmarshal(bs, &p); err != nil {
		fmt.Println("bad input:", err)
		return
	}
	h := newHarness(func(string) {})
	oc, fs, _ := h.runProgram(&p)
	fmt.Println(p.String(), "=>", oc)
	for _, f := range fs {
		fmt.Println("violation:", f.sig, "\n ", f.detail)
		r.Report(mc.Violation{Sig: f.sig, Detail: f.detail, Input: v.Input})
	}
}
