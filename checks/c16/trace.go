package c16

import (
	"fmt"
	"math/big"
	"time"

	"github.com/youchainhq/go-youchain/common"
	"github.com/youchainhq/go-youchain/core/vm"
)

// event is one interpreter step as the real EVM reports it to a vm.Tracer.
type event struct {
	depth int
	pc    uint64
	op    vm.OpCode
	gas   uint64 // gas of the frame before the op
	cost  uint64
	err   string
	fault bool // reported through CaptureFault (the op had been logged already)
	top   [3]*big.Int
	ntop  int
	self  common.Address // contract.Address(): the account the frame runs as
}

// tracer records the steps; it never touches the state.
type tracer struct {
	events []event
}

func (t *tracer) reset() { t.events = t.events[:0] }

func (t *tracer) CaptureStart(from common.Address, to common.Address, call bool, input []byte, gas uint64, value *big.Int) error {
	return nil
}

func (t *tracer) capture(pc uint64, op vm.OpCode, gas, cost uint64, stack *vm.Stack, contract *vm.Contract, depth int, err error, fault bool) {
	e := event{depth: depth, pc: pc, op: op, gas: gas, cost: cost, fault: fault, self: contract.Address()}
	if err != nil {
		e.err = err.Error()
	}
	d := stack.Data()
	for i := 0; i < 3 && i < len(d); i++ {
		e.top[i] = new(big.Int).Set(d[len(d)-1-i])
		e.ntop++
	}
	t.events = append(t.events, e)
}

func (t *tracer) CaptureState(env *vm.EVM, pc uint64, op vm.OpCode, gas, cost uint64, memory *vm.Memory, stack *vm.Stack, contract *vm.Contract, depth int, err error) error {
	t.capture(pc, op, gas, cost, stack, contract, depth, err, false)
	return nil
}

func (t *tracer) CaptureFault(env *vm.EVM, pc uint64, op vm.OpCode, gas, cost uint64, memory *vm.Memory, stack *vm.Stack, contract *vm.Contract, depth int, err error) error {
	t.capture(pc, op, gas, cost, stack, contract, depth, err, true)
	return nil
}

func (t *tracer) CaptureEnd(output []byte, gasUsed uint64, tm time.Duration, err error) error {
	return nil
}

// ---- frame tree ---------------------------------------------------------------

type tcall struct {
	op        vm.OpCode
	pc        uint64
	gasBefore uint64
	cost      uint64
	value     bool // value-bearing (CALL/CALLCODE/CREATE/CREATE2 with non-zero value)
	child     *tframe
	haveAfter bool
	gasAfter  uint64
	result    *big.Int
}

type tframe struct {
	depth    int
	self     common.Address
	first    event
	last     event
	nops     int
	err      string // error that ended the frame ("" = none)
	calls    []*tcall
	writes   []vm.OpCode // state-modifying ops that executed without error, in order
	gasNoise string      // gas went up inside the frame without a call (should never happen)
}

func isCallLike(op vm.OpCode) bool {
	switch op {
	case vm.CALL, vm.CALLCODE, vm.DELEGATECALL, vm.STATICCALL, vm.CREATE, vm.CREATE2:
		return true
	}
	return false
}

func isWrite(e *event) bool {
	switch e.op {
	case vm.SSTORE, vm.LOG0, vm.LOG1, vm.LOG2, vm.LOG3, vm.LOG4, vm.CREATE, vm.CREATE2, vm.SELFDESTRUCT:
		return true
	case vm.CALL:
		return e.ntop >= 3 && e.top[2].Sign() != 0
	}
	return false
}

// outcome classes of a frame
const (
	oSuccess = "success"
	oRevert  = "revert"
	oGas     = "out-of-gas"
	oWriteP  = "write-protection"
	oInvalid = "invalid-opcode"
	oOther   = "other-error"
)

func (f *tframe) outcome() string {
	if f.err != "" {
		switch {
		case f.err == "evm: execution reverted" && f.last.op == vm.REVERT:
			return oRevert
		case f.err == "out of gas" || f.err == "gas uint64 overflow" || f.err == "contract creation code storage out of gas":
			return oGas
		case f.err == "evm: write protection":
			return oWriteP
		case len(f.err) >= 14 && f.err[:14] == "invalid opcode":
			return oInvalid
		}
		return oOther
	}
	switch f.last.op {
	case vm.REVERT:
		return oRevert
	case vm.STOP, vm.RETURN, vm.SELFDESTRUCT:
		return oSuccess
	}
	return oOther
}

// buildTree turns the flat step list of one transaction into the frame tree.
// It returns the root frame (nil if no step was executed) and a description
// of any structural surprise (harness-level: the trace is not a tree).
func buildTree(evs []event) (*tframe, string) {
	var stack []*tframe
	var root *tframe
	pendingOf := func(f *tframe) *tcall {
		if n := len(f.calls); n > 0 && !f.calls[n-1].haveAfter {
			return f.calls[n-1]
		}
		return nil
	}
	for i := range evs {
		e := &evs[i]
		// close frames deeper than the event
		for len(stack) > 0 && stack[len(stack)-1].depth > e.depth {
			stack = stack[:len(stack)-1]
		}
		var cur *tframe
		if len(stack) > 0 {
			cur = stack[len(stack)-1]
		}
		if cur == nil || e.depth > cur.depth {
			// a new frame opens
			nf := &tframe{depth: e.depth, self: e.self, first: *e}
			if cur == nil {
				if root != nil {
					return root, "second root frame in one transaction"
				}
				if e.depth != 1 {
					return nil, fmt.Sprintf("first step at depth %d", e.depth)
				}
				root = nf
			} else {
				if e.depth != cur.depth+1 {
					return root, fmt.Sprintf("depth jumps from %d to %d", cur.depth, e.depth)
				}
				pc := pendingOf(cur)
				if pc == nil || pc.child != nil {
					return root, fmt.Sprintf("frame at depth %d opens without a pending call in its parent (parent last op %v)", e.depth, cur.last.op)
				}
				pc.child = nf
			}
			stack = append(stack, nf)
			cur = nf
		} else {
			// same frame continues: a pending call (if any) has returned
			if pc := pendingOf(cur); pc != nil {
				pc.haveAfter = true
				pc.gasAfter = e.gas
				if e.ntop > 0 {
					pc.result = e.top[0]
				}
			} else if cur.nops > 0 && e.gas > cur.last.gas && cur.gasNoise == "" {
				cur.gasNoise = fmt.Sprintf("%v at pc %d: gas %d -> %d", cur.last.op, cur.last.pc, cur.last.gas, e.gas)
			}
		}
		if e.fault {
			// the op was logged already; the fault only adds the error
			cur.err = e.err
			cur.last.err = e.err
			// a faulting op did not execute: take it back from the writes/calls
			if n := len(cur.writes); n > 0 && isWrite(&cur.last) {
				cur.writes = cur.writes[:n-1]
			}
			continue
		}
		cur.nops++
		cur.last = *e
		if e.err != "" {
			cur.err = e.err
			continue
		}
		if isWrite(e) {
			cur.writes = append(cur.writes, e.op)
		}
		if isCallLike(e.op) {
			c := &tcall{op: e.op, pc: e.pc, gasBefore: e.gas, cost: e.cost}
			switch e.op {
			case vm.CALL, vm.CALLCODE:
				c.value = e.ntop >= 3 && e.top[2].Sign() != 0
			case vm.CREATE, vm.CREATE2:
				c.value = e.ntop >= 1 && e.top[0].Sign() != 0
			}
			cur.calls = append(cur.calls, c)
		}
	}
	return root, ""
}
