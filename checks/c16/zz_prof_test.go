package c16

import (
	"testing"
)

func BenchmarkProg(b *testing.B) {
	setup()
	h := newHarness(func(string) {})
	bd := quickBounds()
	l0, l1, l2 := bd.bodiesBySize(0), bd.bodiesBySize(1), bd.bodiesBySize(2)
	var ps []Program
	for _, o := range l0[2][:400] {
		bd.forEachCompletion(o, l1, l2, func(p *Program, total int) {
			if len(ps) < 3000 {
				ps = append(ps, *p)
			}
		})
	}
	b.ResetTimer()
	for i := 0; i < b.N; i++ {
		q := ps[i%len(ps)]
		h.runProgram(&q)
	}
}
