package c16

import (
	"fmt"
	"hash/fnv"
	"math/big"
	"strings"

	"github.com/youchainhq/go-youchain/common"
	"github.com/youchainhq/go-youchain/core/vm"
	"github.com/youchainhq/go-youchain/crypto"
)

// ---- reference world ----------------------------------------------------------

type racct struct {
	exists   bool
	bal      int64
	nonce    uint64
	code     []byte // immutable once set
	slots    [2]uint64
	suicided bool
}

type rlog struct {
	addr  common.Address
	topic uint64
}

type world struct {
	acc   map[common.Address]*racct
	logs  []rlog
	burnt int64 // value destroyed so far in this transaction by SELFDESTRUCT to self
}

func (w *world) copy() *world {
	n := &world{acc: make(map[common.Address]*racct, len(w.acc)), logs: append([]rlog{}, w.logs...), burnt: w.burnt}
	for a, x := range w.acc {
		c := *x
		n.acc[a] = &c
	}
	return n
}

func (w *world) get(a common.Address) *racct {
	x, ok := w.acc[a]
	if !ok {
		x = &racct{}
		w.acc[a] = x
	}
	return x
}

func (w *world) exists(a common.Address) bool { x, ok := w.acc[a]; return ok && x.exists }

// createAccount = StateDB.CreateAccount: a fresh object that keeps the balance.
func (w *world) createAccount(a common.Address) {
	old := w.get(a)
	bal := int64(0)
	if old.exists {
		bal = old.bal
	}
	w.acc[a] = &racct{exists: true, bal: bal}
}

func (w *world) transfer(from, to common.Address, v int64) {
	if v == 0 {
		return
	}
	w.get(from).bal -= v
	t := w.get(to)
	t.exists = true
	t.bal += v
}

func (x *racct) empty() bool { return x.nonce == 0 && x.bal == 0 && len(x.code) == 0 }

// endOfTx = Finalise(true): self-destructed accounts and empty accounts go.
func (w *world) endOfTx() (burnt int64) {
	burnt = w.burnt
	w.burnt = 0
	for a, x := range w.acc {
		if !x.exists {
			continue
		}
		if x.suicided || x.empty() {
			burnt += x.bal
			w.acc[a] = &racct{}
		}
	}
	w.logs = nil
	return
}

func baseWorld(codes [3]*Code) *world {
	w := &world{acc: map[common.Address]*racct{}}
	w.acc[addrO] = &racct{exists: true, bal: 1000000}
	w.acc[addrX] = &racct{exists: true, bal: 3}
	bals := []int64{5, 5, 0}
	for i := range addrK {
		// slot 0 starts with the value the contract's FIRST action writes in transaction 2 (tag+2): transaction 1
		// leaves tag+1 behind (finalised, not yet in the trie), transaction 2 writes the on-disk value back - the
		// one history in which "current", "finalised by an earlier transaction" and "on disk" are three different things
		w.acc[addrK[i]] = &racct{exists: true, bal: bals[i], code: codes[i].Bytes, slots: [2]uint64{uint64(tagOf(i, 0)) + 2, 0}}
	}
	return w
}

// ---- reference interpreter ------------------------------------------------------

type note struct {
	sig    string
	detail string
}

type failedFrame struct {
	via   string
	cause string
}

type ref struct {
	w        *world
	universe []common.Address
	inU      map[common.Address]bool
	reg      map[string]*Code
	txno     uint64
	notes    []note
	failed   []failedFrame
	count    func(string)
}

func (r *ref) addU(a common.Address) {
	if !r.inU[a] {
		r.inU[a] = true
		r.universe = append(r.universe, a)
	}
}

func (r *ref) note(sig, detail string) { r.notes = append(r.notes, note{sig, detail}) }

type fctx struct {
	self   common.Address
	static bool
	via    string
	depth  int
}

func (r *ref) tagVal(tag byte) uint64 { return uint64(tag) + r.txno }

func isWriteAct(a Action) bool {
	switch a.K {
	case ASet, AClr, ALog, ACreate, ACreate2:
		return true
	case ACall:
		return a.Value != 0
	}
	return false
}

// died judges a frame that the real EVM ended with an error (or REVERT) at the
// current point; `expected` is the only non-gas cause the program allows here
// ("" = none).  It always means: the frame failed.
func (r *ref) died(ctx fctx, tf *tframe, expected, where string) bool {
	out := tf.outcome()
	switch {
	case out == oGas:
		r.count("frame_failed_out_of_gas")
		if len(tf.writes) > 0 || len(tf.calls) > 0 {
			r.count("frame_failed_out_of_gas_after_effects_or_calls")
		}
	case out == expected:
		r.count("frame_failed_" + out)
	default:
		r.note(fmt.Sprintf("frame entered by %s ended by %s where the program only allows %s", ctx.via, out, orS(expected, "success or out-of-gas")),
			fmt.Sprintf("%s, depth %d, self %x: real frame ended at pc %d op %v err %q", where, ctx.depth, ctx.self[:2], tf.last.pc, tf.last.op, tf.err))
	}
	r.failed = append(r.failed, failedFrame{ctx.via, out})
	return false
}

func orS(a, b string) string {
	if a != "" {
		return a
	}
	return b
}

// runFrame interprets code c as the frame ctx in lock-step with the frame tf
// the real EVM executed.  The caller has taken its snapshot and moved the
// value.  Returns whether the frame succeeded.
func (r *ref) runFrame(ctx fctx, c *Code, tf *tframe) bool {
	if tf == nil {
		r.note("account with code executed no step", fmt.Sprintf("via %s self %x code %x", ctx.via, ctx.self[:2], c.Bytes))
		return true
	}
	if tf.self != ctx.self {
		r.note("frame runs as the wrong account (entered by "+ctx.via+")", fmt.Sprintf("real %x reference %x", tf.self, ctx.self))
	}
	w := r.w
	callIdx := 0
	for i, act := range c.Body.Acts {
		if tf.err != "" && int(tf.last.pc) < c.ActEnd[i] {
			exp := ""
			if ctx.static && isWriteAct(act) && int(tf.last.pc) == c.OpPC[i] {
				exp = oWriteP
			}
			return r.died(ctx, tf, exp, fmt.Sprintf("action %d %s", i, act))
		}
		if tf.err == "" && tf.last.op != vm.REVERT && int(tf.last.pc) < c.ActEnd[i] {
			r.note("frame stopped in the middle of its code without an error", fmt.Sprintf("via %s at pc %d op %v", ctx.via, tf.last.pc, tf.last.op))
			return true
		}
		if ctx.static && isWriteAct(act) {
			// the op ran although the context is static (also reported from the trace)
			r.note(fmt.Sprintf("STATICCALL frame executed %s", kindName[act.K]), fmt.Sprintf("via %s self %x action %d %s", ctx.via, ctx.self[:2], i, act))
		}
		me := w.get(ctx.self)
		switch act.K {
		case ASet:
			me.slots[act.Slot] = r.tagVal(c.Tags[i])
		case AClr:
			me.slots[0] = 0
		case ALog:
			w.logs = append(w.logs, rlog{ctx.self, r.tagVal(c.Tags[i])})
		default:
			if callIdx >= len(tf.calls) {
				r.note("harness: call action without an observed call op", fmt.Sprintf("via %s action %d %s", ctx.via, i, act))
				return true
			}
			tc := tf.calls[callIdx]
			callIdx++
			if int(tc.pc) != c.OpPC[i] {
				r.note("harness: observed call op at unexpected pc", fmt.Sprintf("pc %d want %d", tc.pc, c.OpPC[i]))
			}
			r.callLike(ctx, c, i, act, tc)
		}
	}
	// terminator
	last := 0
	if n := len(c.ActEnd); n > 0 {
		last = c.ActEnd[n-1]
	}
	where := "terminator " + termName[c.Body.Term]
	if int(tf.last.pc) < last {
		r.note("harness: frame ended before its terminator without being noticed", where)
		return true
	}
	me := w.get(ctx.self)
	switch c.Body.Term {
	case TStop, TReturn, TReturnCode, TReturnBig, TReturnDep:
		if tf.outcome() != oSuccess {
			return r.died(ctx, tf, "", where)
		}
		return true
	case TRevert:
		if tf.outcome() == oSuccess {
			r.note("frame ending in REVERT reported success", fmt.Sprintf("via %s", ctx.via))
			return true
		}
		return r.died(ctx, tf, oRevert, where)
	case TInvalid:
		if tf.outcome() == oSuccess {
			r.note("frame ending in INVALID reported success", fmt.Sprintf("via %s", ctx.via))
			return true
		}
		return r.died(ctx, tf, oInvalid, where)
	case TOOG:
		if tf.outcome() == oSuccess {
			r.note("frame ending out of gas reported success", fmt.Sprintf("via %s", ctx.via))
			return true
		}
		return r.died(ctx, tf, oGas, where)
	case TSDSelf, TSDOther:
		if tf.outcome() != oSuccess {
			exp := ""
			if ctx.static {
				exp = oWriteP
			}
			return r.died(ctx, tf, exp, where)
		}
		if ctx.static {
			r.note("STATICCALL frame executed SELFDESTRUCT", fmt.Sprintf("via %s self %x", ctx.via, ctx.self[:2]))
		}
		ben := ctx.self
		if c.Body.Term == TSDOther {
			ben = addrX
		}
		if ben == ctx.self {
			w.burnt += me.bal
		} else {
			b := w.get(ben)
			b.exists = true
			b.bal += me.bal
		}
		me.bal = 0
		me.suicided = true
		r.count("selfdestruct_executed")
		return true
	}
	return true
}

// callLike simulates one CALL/CALLCODE/DELEGATECALL/STATICCALL/CREATE/CREATE2
// whose op the real EVM executed (record tc).
func (r *ref) callLike(ctx fctx, c *Code, i int, act Action, tc *tcall) {
	w := r.w
	v := int64(act.Value)
	flag := func(ok bool, what string) {
		if !tc.haveAfter || tc.result == nil {
			return
		}
		got := tc.result.Sign() != 0
		if got != ok {
			r.note(fmt.Sprintf("caller of %s saw result %v but the callee frame %s", kindName[act.K], got, map[bool]string{true: "succeeded", false: "failed"}[ok]), what)
		}
	}
	noFrame := func(why string) {
		if tc.child != nil {
			r.note(fmt.Sprintf("%s executed a frame although %s", kindName[act.K], why), act.String())
		}
	}
	via := kindName[act.K]
	switch act.K {
	case ACall, ACallCode, ADelegate, AStatic:
		target := targetAddr(act.Target)
		if (act.K == ACall || act.K == ACallCode) && w.get(ctx.self).bal < v {
			noFrame("the caller cannot afford the value")
			flag(false, "insufficient balance")
			r.count("call_refused_insufficient_balance")
			r.failed = append(r.failed, failedFrame{via, "insufficient-balance"})
			return
		}
		snap := w.copy()
		child := fctx{self: target, static: ctx.static, via: via, depth: ctx.depth + 1}
		switch act.K {
		case ACall:
			if !w.exists(target) {
				w.createAccount(target)
			}
			w.transfer(ctx.self, target, v)
		case ACallCode, ADelegate:
			child.self = ctx.self
		case AStatic:
			child.static = true
		}
		code := w.get(target).code
		if !w.exists(target) {
			code = nil
		}
		ok := true
		if len(code) == 0 {
			noFrame("the callee has no code")
			r.count("call_to_account_without_code")
		} else {
			cc, known := r.reg[string(code)]
			if !known {
				r.note("harness: callee code not in the registry", fmt.Sprintf("%x", code))
				return
			}
			ok = r.runFrame(child, cc, tc.child)
		}
		if !ok {
			*w = *snap
		}
		flag(ok, act.String())
	case ACreate, ACreate2:
		me := w.get(ctx.self)
		if me.bal < v {
			noFrame("the creator cannot afford the endowment")
			flag(false, "insufficient balance")
			r.count("create_refused_insufficient_balance")
			r.failed = append(r.failed, failedFrame{via, "insufficient-balance"})
			return
		}
		n := me.nonce
		me.nonce = n + 1
		ic := c.Inits[i]
		var addr common.Address
		if act.K == ACreate {
			addr = crypto.CreateAddress(ctx.self, n)
		} else {
			addr = crypto.CreateAddress2(ctx.self, common.BigToHash(big.NewInt(int64(c.Tags[i]))), ic.Bytes)
		}
		r.addU(addr)
		if x := w.get(addr); x.exists && (x.nonce != 0 || len(x.code) != 0) {
			noFrame("the address is taken")
			flag(false, "address collision")
			r.count("create_address_collision")
			r.failed = append(r.failed, failedFrame{via, "address-collision"})
			return
		}
		snap := w.copy()
		w.createAccount(addr)
		w.get(addr).nonce = 1
		w.transfer(ctx.self, addr, v)
		ok := r.runFrame(fctx{self: addr, static: false, via: via, depth: ctx.depth + 1}, ic, tc.child)
		if ok {
			ok = r.deposit(via, addr, ic, tc.child)
		}
		if !ok {
			*w = *snap
		}
		if tc.haveAfter && tc.result != nil {
			want := new(big.Int)
			if ok {
				want.SetBytes(addr[:])
			}
			if tc.result.Cmp(want) != 0 {
				r.note(fmt.Sprintf("%s pushed an unexpected result (callee %s)", kindName[act.K], map[bool]string{true: "succeeded", false: "failed"}[ok]),
					fmt.Sprintf("%s: got %x want %x", act, tc.result, want))
			}
		}
	}
}

// deposit is the last step of a creation whose init code (ic, observed as the
// frame tf) ended successfully: the returned runtime code is stored if it is
// not oversize and if the gas the frame has left pays createDataGas per byte.
// The gas left is read from the observed frame (gas before its last op minus
// that op's cost); the size of the code is the program's.  A creation that
// fails here has failed like any other frame: the caller discards everything.
func (r *ref) deposit(via string, addr common.Address, ic *Code, tf *tframe) bool {
	var code []byte
	switch ic.Body.Term {
	case TReturnCode:
		code = stopCode
	case TReturnDep:
		code = depositCode
	case TReturnBig:
		r.count("create_failed_oversize")
		r.failed = append(r.failed, failedFrame{via, "max-code-size"})
		return false
	}
	if len(code) == 0 {
		r.count("create_without_code")
		return true
	}
	if tf == nil || tf.last.gas < tf.last.cost {
		r.note("harness: creation frame without a usable last step", via)
		return true
	}
	left, need := tf.last.gas-tf.last.cost, uint64(len(code))*createDataGas
	if left < need {
		r.count("create_failed_code_store_out_of_gas")
		if len(code) > 1 {
			r.count("create_failed_code_store_out_of_gas_after_storage_write_and_log")
		}
		if left+1 == need {
			r.count("create_failed_code_store_one_gas_short")
		}
		r.failed = append(r.failed, failedFrame{via, "code-store-out-of-gas"})
		return false
	}
	r.count("create_code_deposited")
	if left == need {
		r.count("create_code_deposited_with_exactly_the_gas_left")
	}
	r.w.get(addr).code = code
	return true
}

// runTx interprets one transaction (entry = call of K0 or creation with K0's
// body as init code, value 1) against the observed root frame.
func (r *ref) runTx(p *Program, codes [3]*Code, root *tframe) (ok bool, created common.Address) {
	w := r.w
	r.failed = r.failed[:0]
	const v = 1
	if p.Create {
		o := w.get(addrO)
		n := o.nonce
		o.nonce = n + 1
		addr := crypto.CreateAddress(addrO, n)
		r.addU(addr)
		created = addr
		snap := w.copy()
		w.createAccount(addr)
		w.get(addr).nonce = 1
		w.transfer(addrO, addr, v)
		ok = r.runFrame(fctx{self: addr, via: "tx(create)", depth: 1}, codes[0], root)
		if ok {
			ok = r.deposit("tx(create)", addr, codes[0], root)
		}
		if !ok {
			*w = *snap
		}
		return
	}
	snap := w.copy()
	if !w.exists(addrK[0]) {
		w.createAccount(addrK[0])
	}
	w.transfer(addrO, addrK[0], v)
	code := w.get(addrK[0]).code
	ok = true
	if len(code) == 0 {
		if root != nil {
			r.note("transaction to an account without code executed a frame", "")
		}
	} else {
		ok = r.runFrame(fctx{self: addrK[0], via: "tx(call)", depth: 1}, r.reg[string(code)], root)
	}
	if !ok {
		*w = *snap
	}
	return
}

// ---- rendering -------------------------------------------------------------------

func fmtAcct(name string, ex bool, bal string, nonce uint64, code []byte, s0, s1 uint64) string {
	if !ex {
		return name + "{absent}"
	}
	if len(code) > 40 {
		// long code: length, head and an exact digest (the whole-state check compares the keccak code hash as well)
		d := fnv.New64a()
		d.Write(code)
		return fmt.Sprintf("%s{bal=%s nonce=%d code=%dbytes:%x..:%x s0=%x s1=%x}", name, bal, nonce, len(code), code[:4], d.Sum64(), s0, s1)
	}
	return fmt.Sprintf("%s{bal=%s nonce=%d code=%x s0=%x s1=%x}", name, bal, nonce, code, s0, s1)
}

func (r *ref) names() []string {
	var out []string
	nc := 0
	for _, a := range r.universe {
		switch a {
		case addrO:
			out = append(out, "O")
		case addrX:
			out = append(out, "X")
		case addrN:
			out = append(out, "N")
		case addrK[0]:
			out = append(out, "K0")
		case addrK[1]:
			out = append(out, "K1")
		case addrK[2]:
			out = append(out, "K2")
		case addrCB:
			out = append(out, "CB")
		default:
			nc++
			out = append(out, fmt.Sprintf("created%d", nc))
		}
	}
	return out
}

func (r *ref) render() []string {
	names := r.names()
	var out []string
	for i, a := range r.universe {
		x := r.w.get(a)
		out = append(out, fmtAcct(names[i], x.exists, fmt.Sprint(x.bal), x.nonce, x.code, x.slots[0], x.slots[1]))
	}
	return out
}

func (r *ref) renderLogs() string {
	var s []string
	for _, l := range r.w.logs {
		s = append(s, fmt.Sprintf("%x:%x", l.addr[:2], l.topic))
	}
	return strings.Join(s, ",")
}

func (r *ref) sumBalances() int64 {
	var s int64
	for _, a := range r.universe {
		if x := r.w.get(a); x.exists {
			s += x.bal
		}
	}
	return s
}
