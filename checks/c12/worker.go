package c12

// Part 2: builder ⊆ verifier for the REAL block builder.
//
// Part 1 offers the header of the pure function core.ProcessYouVersionState to
// the verifier.  The function that actually builds blocks is
// miner.worker.commitNewWork: it chooses the parent header it hands to
// ProcessYouVersionState, and a slip at that call site (wrong parent, a parent
// copy edited in place, a stale header) is invisible to part 1.  Here the real
// worker (through the hook miner.VerifBuildAndSealBlock, on the chainx node:
// real core.BlockChain + staking module + real core.TxPool) builds and seals
// blocks on an UPGRADE-CAPABLE chain: genesis at version 5, and a scaled-down
// params.Versions in which 5 approves an upgrade to 6 and 6 to 7 (both known
// locally), with the (rounds, threshold, min/max wait) of the parameter set.
//
// Explored: BFS (mc.BFS, states de-duplicated on the head's version tuple) over
// ALL block histories of length <= R = 2*(rounds+maxwait)+3 in which every
// block is built either by
//
//	W  the real miner worker (an up-to-date client: proposes / approves), or
//	N  an honest proposer whose client does not know the proposed version
//	   (it neither proposes nor approves; it carries, clears and switches as
//	   the rules demand) - a block built by the mirror builder whose version
//	   fields are set by the harness' own model.
//
// The all-W history is the chain of one honest builder through proposal,
// window, wait and switch, twice (5->6->7); mixing in N blocks reaches every
// approval count at every round of the window, i.e. both outcomes of the
// window close and every later round of the cycle.  For every W block:
//
//	(a) core.VerifyYouVersionState(true parent, worker header) accepts;
//	(b) the worker header's version fields equal what
//	    core.ProcessYouVersionState derives from the true parent, and what the
//	    harness' own model of the honest builder derives;
//	(c) an independent follower node accepts the block through
//	    BlockChain.InsertChain and makes it its head, and the worker's own node
//	    has stored it as its head.

import (
	"fmt"
	"math/big"
	"strings"
	"time"

	"github.com/youchainhq/go-youchain/core"
	"github.com/youchainhq/go-youchain/core/types"
	"github.com/youchainhq/go-youchain/params"

	"verif/checks/chainx"
	"verif/mc"
)

const chainBase = uint64(params.YouV5) - 1 // harness version v (1,2,3) is chain version chainBase+v (5,6,7)

func wcName(p PSet) string { return "worker-chain[" + p.String() + "]" }

func wcCfg() chainx.ParamCfg {
	c := chainx.DefaultCfg
	c.MaxRewardsPeriod = 1000
	return c
}

// installChain: the chainx table (scaled-down V5) with the upgrade parameters of
// p, plus locally known successors 6 and 7.  Written only between explorations.
func (p PSet) installChain() (restore func()) {
	chainx.SetParams(wcCfg())
	old := params.Versions
	vm := params.VersionsMap{}
	for k, v := range old {
		vm[k] = v
	}
	base := old[params.YouV5]
	for v, pr := range p.protos() {
		yp := base.DeepCopy()
		yp.Version = params.YouVersion(chainBase + v)
		yp.ApprovedUpgradeVersion = 0
		if pr.Approved != 0 {
			yp.ApprovedUpgradeVersion = params.YouVersion(chainBase + pr.Approved)
		}
		// every version pays a different block subsidy: which version's parameters a block is EXECUTED under is
		// then visible in its state root (builder, importers and followers must agree on it round by round,
		// in particular at the round, protocolRoundBack after the switch, from which the new parameters apply)
		yp.SubsidyCoeff = base.SubsidyCoeff + uint8(v)
		yp.UpgradeWaitRounds = pr.OwnWait
		yp.UpgradeVoteRounds = pr.Rounds
		yp.UpgradeThreshold = pr.Thr
		yp.MinUpgradeWaitRounds = pr.MinW
		yp.MaxUpgradeWaitRounds = pr.MaxW
		vm[yp.Version] = yp
	}
	params.Versions = vm
	return func() { params.Versions = old }
}

func tupleOf(h *types.Header) hdr {
	return hdr{Round: h.Number.Uint64(), CV: uint64(h.CurrVersion), NV: uint64(h.NextVersion), NA: h.NextApprovals, VB: h.NextVoteBefore, SO: h.NextSwitchOn}
}

// honest is the harness' own model of an honest builder (never reads
// params.Versions): upToDate = it knows the successor versions (proposes and
// approves); otherwise it only carries, clears and switches.
func honest(pr map[uint64]proto, prev hdr, upToDate bool) hdr {
	pp := pr[prev.CV-chainBase]
	c := hdr{Round: prev.Round + 1, CV: prev.CV}
	switch {
	case prev.NV == 0:
		if upToDate && pp.Approved != 0 {
			wait := pp.MinW
			if w := pr[pp.Approved].OwnWait; w > wait {
				wait = w
			}
			c.NV, c.NA, c.VB = chainBase+pp.Approved, 1, c.Round+pp.Rounds
			c.SO = c.VB + wait
		}
	default:
		c.NV, c.NA, c.VB, c.SO = prev.NV, prev.NA, prev.VB, prev.SO
		if upToDate && c.Round < prev.VB {
			c.NA++
		}
	}
	if c.NV != 0 && c.Round == c.VB && c.NA < pp.Thr {
		c.NV, c.NA, c.VB, c.SO = 0, 0, 0, 0
	}
	if c.NV != 0 && c.Round == c.SO {
		c.CV = c.NV
		c.NV, c.NA, c.VB, c.SO = 0, 0, 0, 0
	}
	return c
}

func kindOf(prev, b hdr) string {
	switch {
	case b.CV != prev.CV:
		return "switch"
	case prev.NV == 0 && b.NV != 0:
		return "new proposal"
	case prev.NV != 0 && b.NV == 0:
		return "clear"
	case prev.NV != 0 && b.NA > prev.NA:
		return "approve"
	case prev.NV != 0:
		return "carry"
	}
	return "idle"
}

// WSys is the block-history system of part 2.
type WSys struct {
	p        PSet
	pr       map[uint64]proto
	r        *mc.Run
	count    bool
	node     *chainx.Node // the building node (the worker stores its own blocks here)
	follower *chainx.Node // an independent node that imports every block
	tail     uint64       // extra rounds beyond R (the straight all-worker path past switch + protocolRoundBack)
	dead     bool
	viols    []mc.Violation
	pend     []string
}

func newWSys(r *mc.Run, p PSet, count bool) *WSys {
	return &WSys{p: p, pr: p.protos(), r: r, count: count}
}

func (s *WSys) closeNodes() {
	if s.node != nil {
		s.node.Close()
		s.follower.Close()
		s.node, s.follower = nil, nil
	}
}

func (s *WSys) Reset() {
	s.closeNodes()
	s.node, s.follower = chainx.NewNode(chainx.Fix()), chainx.NewNode(chainx.Fix())
	s.dead, s.viols, s.pend = false, nil, s.pend[:0]
}

func (s *WSys) head() hdr { return tupleOf(s.node.Head().Header()) }

func (s *WSys) Enabled() []string {
	if s.dead || s.node.Head().NumberU64() >= s.p.R()+s.tail {
		return nil
	}
	return []string{"W", "N"}
}

func (s *WSys) Key() string {
	if s.dead {
		return "dead"
	}
	h := s.head()
	return fmt.Sprintf("%s|%d|%s", s.p, h.Round, h)
}

func (s *WSys) viol(sig, detail string) {
	s.viols = append(s.viols, mc.Violation{Sig: sig, Detail: detail})
}

func (s *WSys) cnt(name string) {
	if s.count {
		s.pend = append(s.pend, name)
	}
}

func (s *WSys) Check() []mc.Violation {
	for _, n := range s.pend {
		s.r.Count(n, 1)
	}
	s.pend = s.pend[:0]
	return append([]mc.Violation{}, s.viols...)
}

func (s *WSys) Apply(op string) string {
	s.viols = s.viols[:0]
	s.pend = s.pend[:0]
	cb := chainx.Fix().Val("c1").Main
	parent := s.node.Head().Header() // a copy: the true parent as it is stored
	prev := tupleOf(parent)
	var block *types.Block
	switch op {
	case "N":
		want := honest(s.pr, prev, false)
		var b *chainx.Built
		var err error
		msg, _ := mc.CatchStack(func() {
			b, err = s.node.BuildWith(cb, nil, func(h *types.Header) {
				h.CurrVersion, h.NextVersion = params.YouVersion(want.CV), params.YouVersion(want.NV)
				h.NextApprovals, h.NextVoteBefore, h.NextSwitchOn = want.NA, want.VB, want.SO
			})
		})
		if msg != "" || err != nil {
			s.r.HarnessError(fmt.Sprintf("c12 part 2: environment block fails after %s: %s %v", prev, msg, err))
			s.dead = true
			return "harness-error"
		}
		if oc := verify(parent, b.Block.Header()); oc != "accept" {
			// the model of the outdated honest proposer must stay inside what the verifier admits
			s.r.HarnessError(fmt.Sprintf("c12 part 2: environment header {%s} after {%s} not admitted by the verifier: %s", want, prev, oc))
			s.dead = true
			return "harness-error"
		}
		block = b.Block
		s.cnt("worker_chain_env_blocks_" + kindOf(prev, want))
	case "W":
		var wb *chainx.WorkerBuilt
		var err error
		msg, where := mc.CatchStack(func() { wb, err = s.node.BuildWithWorker(cb, nil, true) })
		switch {
		case strings.HasPrefix(msg, "logging.Crit"):
			s.viol("real miner worker reached logging.Crit on an upgrade-capable chain: "+stripNums(strings.TrimPrefix(msg, "logging.Crit: ")),
				fmt.Sprintf("params %s; parent %d{%s}: %s", s.p, prev.Round, prev, msg))
		case msg != "":
			s.viol(fmt.Sprintf("real miner worker panics on an upgrade-capable chain at %s", where), fmt.Sprintf("params %s; parent %d{%s}: %s", s.p, prev.Round, prev, msg))
		case err != nil:
			s.viol("real miner worker built no block on an upgrade-capable chain", fmt.Sprintf("params %s; parent %d{%s}: %v", s.p, prev.Round, prev, err))
		}
		if len(s.viols) > 0 {
			s.dead = true
			return "no-block"
		}
		block = wb.Block
		wh := block.Header()
		got := tupleOf(wh)
		// what the pure builder function derives from the TRUE parent
		exp := &types.Header{Number: new(big.Int).SetUint64(prev.Round + 1)}
		var perr error
		if m := mc.Catch(func() { perr = core.ProcessYouVersionState(parent, exp) }); m != "" || perr != nil {
			s.viol("builder failed on a state reached by honest builders: "+stripNums(fmt.Sprint(m, perr)), fmt.Sprintf("params %s; parent %d{%s}", s.p, prev.Round, prev))
			s.dead = true
			return "builder-failed"
		}
		want := tupleOf(exp)
		kind := kindOf(prev, want)
		detail := func(extra string) string {
			return fmt.Sprintf("params %s; true parent %d{%s}; real miner worker built %d{%s}; ProcessYouVersionState(true parent) = {%s}; model of the honest builder = {%s}; %s",
				s.p, prev.Round, prev, got.Round, got, want, honest(s.pr, prev, true), extra)
		}
		s.cnt("worker_chain_blocks_built_by_the_real_worker")
		if wh.ParentHash != parent.Hash() || got.Round != prev.Round+1 {
			s.viol("real miner worker built on something else than the head", detail(""))
		}
		// (a) the verifier accepts the worker's header after its true parent
		if oc := verify(parent, wh); oc != "accept" {
			s.viol("real miner worker's header not accepted by the verifier ("+kind+"): "+stripNums(oc), detail("verifier: "+oc))
		} else {
			s.cnt("worker_header_accepted_by_verifier_" + kind)
		}
		// (b) ... and carries exactly the version state derived from the true parent
		if got != want {
			s.viol("real miner worker's version state differs from ProcessYouVersionState on the true parent ("+kind+"): "+tupleDiff(got, want), detail(""))
		} else {
			s.cnt("worker_header_equals_pure_builder")
		}
		if m := honest(s.pr, prev, true); got == want && got != m {
			s.viol("real miner worker's version state differs from the harness model of the honest builder ("+kind+"): "+tupleDiff(got, m), detail(""))
		}
		if s.node.Head().Hash() != block.Hash() {
			s.viol("real miner worker did not store its own sealed block as head", detail(""))
			s.dead = true
			return "not-stored"
		}
	default:
		panic("harness: bad op " + op)
	}
	// (c) an independent node imports the block
	var ierr error
	im, iw := mc.CatchStack(func() { ierr = s.follower.Import(block) })
	if im == "" && ierr == nil && s.follower.Head().Hash() != block.Hash() {
		ierr = fmt.Errorf("imported block did not become head")
	}
	switch {
	case op == "N" && (im != "" || ierr != nil):
		s.r.HarnessError(fmt.Sprintf("c12 part 2: follower refuses an environment block after {%s}: %s %v", prev, im, ierr))
		s.dead = true
	case im != "":
		s.viol(fmt.Sprintf("import path panics on a block built by the real miner worker at %s", iw), fmt.Sprintf("params %s; parent %d{%s}: %s", s.p, prev.Round, prev, im))
		s.dead = true
	case ierr != nil:
		s.viol("block built by the real miner worker rejected by the importer: "+stripHex(ierr.Error()),
			fmt.Sprintf("params %s; parent %d{%s}; block %d{%s}: %v", s.p, prev.Round, prev, block.NumberU64(), tupleOf(block.Header()), ierr))
		s.dead = true
	case op == "W":
		s.cnt("worker_chain_blocks_accepted_by_the_follower")
	}
	if len(s.viols) > 0 {
		// the builder's own chain now carries a header the rules do not admit: nothing below it is meaningful
		s.dead = true
	}
	return fmt.Sprintf("%s{%s}", op, tupleOf(block.Header()))
}

func tupleDiff(a, b hdr) string {
	var d []string
	add := func(x, y uint64, n string) {
		if x != y {
			d = append(d, n)
		}
	}
	add(a.CV, b.CV, "CurrVersion")
	add(a.NV, b.NV, "NextVersion")
	add(a.NA, b.NA, "NextApprovals")
	add(a.VB, b.VB, "NextVoteBefore")
	add(a.SO, b.SO, "NextSwitchOn")
	return strings.Join(d, ",")
}

// stripHex removes hashes and numbers from an import error (stable signature).
func stripHex(e string) string {
	var out []string
	for _, f := range strings.Fields(e) {
		if strings.ContainsAny(f, "0123456789") {
			continue
		}
		out = append(out, f)
	}
	s := strings.Join(out, " ")
	if len(s) > 100 {
		s = s[:100]
	}
	return s
}

func workerSets(r *mc.Run) []PSet {
	sets := quickSets()
	if !r.Quick() {
		sets = thoroughSets()
	}
	var out []PSet
	seen := map[string]bool{}
	for _, p := range sets {
		if p.Known != "both" {
			continue // the worker under test is the up-to-date client; outdated peers are the N blocks
		}
		p.Dom = "-" // candidate domains do not exist in part 2
		if !seen[p.String()] {
			seen[p.String()] = true
			out = append(out, p)
		}
	}
	return out
}

// runWorkerChains is part 2.  It runs first (cheap) under its own time cap.
func runWorkerChains(r *mc.Run) {
	sets := workerSets(r)
	limit := 60 * time.Second
	if !r.Quick() {
		limit = 8 * time.Minute
	}
	start := time.Now()
	var names []string
	done := 0
	for _, p := range sets {
		if r.Expired() || time.Since(start) > limit {
			break
		}
		p := p
		restore := p.installChain()
		name := wcName(p)
		n := r.BFS(func() mc.System { return newWSys(r, p, true) }, mc.SeqOpts{Name: name, Config: p.String(), Depth: int(p.R())})
		r.ConfirmSeq(name, func() mc.System { return newWSys(r, p, false) })
		// the straight path on which the real worker builds EVERY block, 12 rounds beyond R: past the round,
		// protocolRoundBack (8) after the switch, from which the new version's parameters apply to execution
		// (each version pays another subsidy: builder, its own node and the follower must agree on every block)
		tailSys := newWSys(r, p, true)
		tailSys.tail = 12
		var ops []string
		for i := uint64(0); i < p.R()+12; i++ {
			ops = append(ops, "W")
		}
		_, tv, _ := mc.ReplaySeq(tailSys, ops)
		for _, x := range tv {
			x.System, x.Config, x.Ops = name, p.String(), ops
			r.Report(x)
		}
		r.Count("worker_chain_tail_blocks_past_the_switch_checked", int64(len(ops)))
		tailSys.closeNodes()
		restore()
		names = append(names, fmt.Sprintf("%s: R=%d states=%d", p, p.R(), n))
		done++
	}
	r.SetExtra("worker_chain_parameter_sets", names)
	r.SetExtra("worker_chain_parameter_sets_completed", done)
	r.SetExtra("worker_chain_parameter_sets_planned", len(sets))
	if done < len(sets) {
		r.Cap(fmt.Sprintf("part 2 (real miner worker): only %d of %d parameter sets completed within its time cap", done, len(sets)))
	}
}

func replayWorkerChain(r *mc.Run, v *mc.Violation) {
	p, err := parsePSet(v.Config)
	if err != nil {
		fmt.Println("bad config in replay file:", err)
		return
	}
	restore := p.installChain()
	defer restore()
	s := newWSys(r, p, false)
	s.tail = 12 // the tail path is longer than R
	s.Reset()
	defer s.closeNodes()
	fmt.Printf("params: %s\nround 0: {%s}\n", p, s.head())
	for i, op := range v.Ops {
		ob := s.Apply(op)
		fmt.Printf("round %d: %s\n", i+1, ob)
		for _, x := range s.Check() {
			fmt.Printf("   VIOLATED: %s\n", x.Sig)
			if x.Sig == v.Sig {
				x.System, x.Config, x.Ops = v.System, v.Config, v.Ops
				r.Report(x)
			}
		}
		if s.dead {
			break
		}
	}
}
