package c12

// Part 4: THE VERSION GATE OF THE CHAIN'S IMPORT ENTRY POINTS.
//
// Parts 1-3 judge the pure verifier, the real block builder and the active
// version lookup.  What decides which headers a NODE stores is none of them: it
// is the call of the verifier inside the import entry points,
//
//	BlockChain.InsertChain                  -> bc.VerifyYouVersionState(blocks)
//	BlockChain.InsertHeaderChain            -> bc.VerifyYouVersionState2(headers)
//	BlockChain.InsertGuaranteedHeaderChain  -> bc.VerifyYouVersionState2(headers)
//
// i.e. two batch wrappers that choose, for every header of a batch, the header it
// is compared with, and three call sites that decide whether the wrapper runs at
// all.  A wrapper that compares a header with anything else than its real parent
// (a cursor that does not follow the batch, a parent looked up in the wrong
// place), or a call site that skips the wrapper for some class of batches, makes
// the node store - and, after a reorg, run - headers the verifier never admitted
// after their parents, and refuse honest ones, while the pure verifier (part 1)
// is untouched.
//
// Statement decided here: whatever way headers/blocks reach the node, a header is
// ACCEPTED (stored) only if core.VerifyYouVersionState(its real parent, header)
// accepts it, and a batch in which every header is accepted by the verifier after
// its real parent is never refused FOR VERSION REASONS.  The harness knows the
// real parent of every header: it built the chains.
//
// Explored (exhaustive product, on the real chain of part 2: chainx node,
// version table 5 -> 6 -> 7), per parameter set and common-ancestor height:
//
//	world     branches X (proposer c1) and Y (proposer s1) off the ancestor, one per
//	          shape of part 3 (W = real miner worker, approving; N = honest
//	          non-approving proposer): a vote in progress, threshold reached,
//	          waiting, the switch round, a failed proposal being cleared
//	node      engine plain (every block with a known parent+state becomes head) |
//	          ucon-shaped (side chains: only a longer branch is adopted) |
//	          headers-only under either engine (X known through the header path);
//	          X[:m] imported, m = 1..L-1, then Y[:j], j in {0 (no fork), m-1, m, m+1}
//	entry     InsertChain | InsertHeaderChain (ucon engine only: it divides by
//	          ucon's seed look-back) | InsertGuaranteedHeaderChain
//	batch     along X or along Y, first index from = known-k for EVERY overlap
//	          k = 0..known, then 0, 1 or 2 new honest headers (0 = entirely known),
//	          or: B[from:pos] + ONE forged header at pos (from <= pos <= known+1:
//	          in the known part = a fork off a known block) + 0 or 1 honest
//	          follower built on the forged header
//	forgery   claims the switch now | approvals +2 | NextSwitchOn rewritten |
//	          proposal cleared early | proposal replaced by / opened for another
//	          (unknown) version | the honest successor (approving and not
//	          approving) of EVERY OTHER header the gate could confuse with the
//	          parent: the 3 headers above the parent and the competing branch's
//	          header at the parent's height
//
// The quick tier leaves out of that product (gateBounds): competing-branch shapes
// other than W* and N*; forged positions other than first-of-batch / first new /
// second new; a follower except behind a forged first-new header with no or with
// the full overlap; two new honest headers except with no or the full overlap;
// adversarial tuples the verifier ADMITS after the real parent except first in
// the batch or with the full overlap.  The thorough tier runs the full product,
// two ancestor heights and branches one block longer.
//
// Forged blocks are real blocks: built by chainx's builder on the real parent
// with the version-state edit hook (correct state roots, importable but for
// their version state); the header path gets the headers of the same blocks.
//
// Oracles, for every offered batch: (1) every header newly stored by the call is
// accepted by the pure verifier after its real parent; (2) a batch whose headers
// all pass the pure verifier after their real parents is not refused with the
// version-state error; (3) whenever the call changed the node, the chain from the
// head header (and from the head block) down to genesis is accepted link by link
// by the pure verifier and satisfies part 1's ghost invariants (ghostStep: the
// version changes only at the announced round of a proposal with in-window
// approvals >= threshold, ...); (4) no panic; (5) differential: the new headers
// offered one by one and as one batch with every overlap end with the same head
// header and head block (compared when every call returned nil).  Every violating
// case is re-run twice on fresh nodes before it is reported.
//
// A wrongly accepted / refused header is classified by WHICH OTHER HEADER explains
// the gate's verdict (the canonical header at the parent's height when that is not
// the parent = first parent looked up by number; the header below the batch when
// only known headers lie in between = cursor not advanced; none = check not run):
// the class is part of the signature, so different defects get different
// signatures.

import (
	"encoding/json"
	"fmt"
	"sort"
	"strconv"
	"strings"
	"sync"
	"sync/atomic"
	"time"

	"github.com/youchainhq/go-youchain/common"
	"github.com/youchainhq/go-youchain/core/rawdb"
	"github.com/youchainhq/go-youchain/core/types"
	"github.com/youchainhq/go-youchain/params"

	"verif/checks/chainx"
	"verif/mc"
)

const (
	eIC   = "InsertChain"
	eIHC  = "InsertHeaderChain"
	eIGHC = "InsertGuaranteedHeaderChain"

	classByNumber = "[explained by the canonical header at its parent's height, which is not its parent: first parent of the batch looked up by number]"
	classCursor   = "[explained by the header below the batch: the parent cursor did not follow the already-known headers of the batch]"
	classNone     = "[explained by neither its parent nor the header below the batch]"
)

// GateCase is the replayable input of part 4.
type GateCase struct {
	Part4  bool   `json:"part4"`
	Set    string `json:"set"`
	Anc    int    `json:"anc"`
	X      string `json:"x"`
	Y      string `json:"y"`
	Engine string `json:"engine"` // plain | ucon | hdr-plain | hdr-ucon (X known through the header path only)
	M      int    `json:"m"`      // X[:m] imported first (hdr: through the header path)
	J      int    `json:"j"`      // then Y[:j]
	Branch string `json:"branch"` // the offered batch runs along X | Y
	Entry  string `json:"entry"`
	From   int    `json:"from"`
	To     int    `json:"to"`     // honest batch: B[from:to]
	Pos    int    `json:"pos"`    // forged batch: B[from:pos] + forged header at pos (+ followers); -1 = honest batch
	Forged string `json:"forged"` // version tuple of the forged header
	Kind   string `json:"kind"`
	Follow int    `json:"follow"`
	Single bool   `json:"single"` // B[known], ..., B[to-1] offered one by one (reference run of the differential)
}

func (c GateCase) String() string {
	node := fmt.Sprintf("node (%s engine): X=%s[:%d] imported", c.Engine, c.X, c.M)
	if strings.HasPrefix(c.Engine, "hdr-") {
		node = fmt.Sprintf("node (%s engine, headers only): X=%s[:%d] imported through the header path", strings.TrimPrefix(c.Engine, "hdr-"), c.X, c.M)
	}
	if c.J > 0 {
		node += fmt.Sprintf(", then Y=%s[:%d]", c.Y, c.J)
	}
	shape := c.X
	if c.Branch == "Y" {
		shape = c.Y
	}
	what := fmt.Sprintf("%s=%s[%d:%d] (honest)", c.Branch, shape, c.From, c.To)
	if c.Single {
		what = fmt.Sprintf("%s=%s[..%d] (honest), every unknown header in a call of its own", c.Branch, shape, c.To)
	}
	if c.Pos >= 0 {
		what = fmt.Sprintf("%s=%s[%d:%d] + FORGED header at index %d {%s} (%s) + %d honest follower(s) built on it", c.Branch, shape, c.From, c.Pos, c.Pos, c.Forged, c.Kind, c.Follow)
	}
	return fmt.Sprintf("[%s] ancestor %d; %s; offered through %s: %s", c.Set, c.Anc, node, c.Entry, what)
}

// ---- the world: ancestor, honest branches, forged blocks ---------------------------

type gateLazyNode struct {
	once sync.Once
	n    *chainx.Node
	err  error
}

type gateLazySeg struct {
	once sync.Once
	seg  []gHdr
	err  error
}

// gHdr: one block of the world with its header and hash (computed once; shared read-only by every node).
type gHdr struct {
	b    *types.Block
	h    *types.Header
	hash common.Hash
	t    hdr
}

func mkGHdr(b *types.Block) gHdr {
	h := b.Header()
	return gHdr{b: b, h: h, hash: h.Hash(), t: tupleOf(h)}
}

type gateWorld struct {
	p     PSet
	pr    map[uint64]proto
	anc   int
	L     int
	ancN  *chainx.Node
	trunk []*types.Header // heights 0..anc
	br    map[string][]*types.Block
	bh    map[string][]gHdr
	hdrs  map[common.Hash]*types.Header // every honest header of the world (real parents of first headers)

	mu     sync.Mutex
	bases  map[string]*gateLazyNode
	forged map[string]*gateLazySeg
}

var gateRoles = []string{"c1", "s1"} // proposer of branch X / of branch Y

func brKey(shape string, role int) string { return fmt.Sprintf("%s|%d", shape, role) }

func newGateWorld(p PSet, anc, L int, xs, ys []string) (*gateWorld, error) {
	w := &gateWorld{p: p, pr: p.protos(), anc: anc, L: L, br: map[string][]*types.Block{}, bh: map[string][]gHdr{}, hdrs: map[common.Hash]*types.Header{},
		bases: map[string]*gateLazyNode{}, forged: map[string]*gateLazySeg{}}
	w.ancN = chainx.NewNode(chainx.Fix())
	for h := 0; h < anc; h++ {
		if _, err := buildBlock(w.pr, w.ancN, 'N', "c1"); err != nil {
			return nil, err
		}
	}
	for h := 0; h <= anc; h++ {
		hd := w.ancN.BC.GetHeaderByNumber(uint64(h))
		if hd == nil {
			return nil, fmt.Errorf("trunk header %d missing", h)
		}
		w.trunk = append(w.trunk, hd)
		w.hdrs[hd.Hash()] = hd
	}
	for role, shapes := range [][]string{xs, ys} {
		for _, shape := range shapes {
			n := w.ancN.Fork()
			var blocks []*types.Block
			var ghs []gHdr
			for i := 0; i < L; i++ {
				b, err := buildBlock(w.pr, n, shapeOp(shape, i), gateRoles[role])
				if err != nil {
					n.Close()
					return nil, fmt.Errorf("branch %s off %d: %v", shape, anc, err)
				}
				blocks = append(blocks, b)
				gh := mkGHdr(b)
				ghs = append(ghs, gh)
				w.hdrs[gh.hash] = gh.h
			}
			n.Close()
			w.br[brKey(shape, role)] = blocks
			w.bh[brKey(shape, role)] = ghs
		}
	}
	// the honest world must be inside what the verifier admits (else nothing below means anything)
	for _, hd := range w.hdrs {
		if hd.Number.Sign() == 0 {
			continue
		}
		parent := w.hdrs[hd.ParentHash]
		if parent == nil {
			return nil, fmt.Errorf("world header #%v without a parent", hd.Number)
		}
		if v := pureVerdict(parent, hd); v != "accept" {
			return nil, fmt.Errorf("honest world header {%s} after {%s}: verifier says %s", tupleOf(hd), tupleOf(parent), v)
		}
	}
	return w, nil
}

func (w *gateWorld) close() {
	w.mu.Lock()
	defer w.mu.Unlock()
	for _, b := range w.bases {
		b.once.Do(func() {})
		if b.n != nil {
			b.n.Close()
		}
	}
	w.ancN.Close()
}

// tupleAt: version tuple of the header at branch index idx (idx < 0: the ancestor and the trunk below it).
func (w *gateWorld) tupleAt(shape string, role, idx int) (hdr, bool) {
	if idx >= 0 {
		b := w.bh[brKey(shape, role)]
		if idx >= len(b) {
			return hdr{}, false
		}
		return b[idx].t, true
	}
	h := w.anc + 1 + idx
	if h < 0 {
		return hdr{}, false
	}
	return tupleOf(w.trunk[h]), true
}

// base: a plain node whose head is the block at branch index pos-1 (builder of forged blocks at pos).
func (w *gateWorld) base(shape string, role, pos int) (*chainx.Node, error) {
	key := fmt.Sprintf("%s|%d", brKey(shape, role), pos)
	w.mu.Lock()
	lz := w.bases[key]
	if lz == nil {
		lz = &gateLazyNode{}
		w.bases[key] = lz
	}
	w.mu.Unlock()
	lz.once.Do(func() {
		n := w.ancN.Fork()
		if pos > 0 {
			if err := n.Import(w.br[brKey(shape, role)][:pos]...); err != nil {
				n.Close()
				lz.err = err
				return
			}
		}
		lz.n = n
	})
	return lz.n, lz.err
}

func setTuple(h *types.Header, t hdr) {
	h.CurrVersion, h.NextVersion = params.YouVersion(t.CV), params.YouVersion(t.NV)
	h.NextApprovals, h.NextVoteBefore, h.NextSwitchOn = t.NA, t.VB, t.SO
}

// forgedSeg: the forged block at branch index pos carrying version tuple t, and one honest (non-approving) follower
// built on it; real blocks (executed on the real parent's state, sealed like every other block of the world).
func (w *gateWorld) forgedSeg(shape string, role, pos int, t hdr) ([]gHdr, error) {
	key := fmt.Sprintf("%s|%d|%s", brKey(shape, role), pos, t)
	w.mu.Lock()
	lz := w.forged[key]
	if lz == nil {
		lz = &gateLazySeg{}
		w.forged[key] = lz
	}
	w.mu.Unlock()
	lz.once.Do(func() {
		b, err := w.base(shape, role, pos)
		if err != nil {
			lz.err = err
			return
		}
		n := b.Fork()
		defer n.Close()
		cb := chainx.Fix().Val(gateRoles[role]).Main
		msg, _ := mc.CatchStack(func() {
			var f *chainx.Built
			f, err = n.BuildWith(cb, nil, func(h *types.Header) { setTuple(h, t) })
			if err != nil {
				return
			}
			lz.seg = append(lz.seg, mkGHdr(f.Block))
			ft := honest(w.pr, tupleOf(f.Block.Header()), false)
			var g *chainx.Built
			g, err = n.BuildWith(cb, nil, func(h *types.Header) { setTuple(h, ft) })
			if err != nil {
				return
			}
			lz.seg = append(lz.seg, mkGHdr(g.Block))
		})
		if msg != "" {
			err = fmt.Errorf("panic: %s", msg)
		}
		if err == nil && lz.seg[0].t != t {
			err = fmt.Errorf("forged block carries {%s}, wanted {%s}", lz.seg[0].t, t)
		}
		lz.err = err
	})
	return lz.seg, lz.err
}

// pureVerdict: the pure verifier on (real parent, header): accept | reject | crit (the node would halt: "update the client").
func pureVerdict(prev, cur *types.Header) string {
	code, _, msg := verifyRaw(prev, cur)
	switch code {
	case vAccept:
		return "accept"
	case vReject:
		return "reject"
	case vCrit:
		return "crit"
	}
	if strings.HasPrefix(msg, "logging.Crit") {
		return "crit"
	}
	return "panic: " + msg
}

// ---- the forgery alphabet -------------------------------------------------------------

type forgery struct {
	kind string
	t    hdr
}

// forgeries: the alphabet of forged version tuples for a header at round P.Round+1 whose real parent carries P and
// whose honest content is H; refs = the other headers the gate could compare it with (name, tuple).
func (w *gateWorld) forgeries(P, H hdr, refNames []string, refs []hdr) []forgery {
	n := P.Round + 1
	pp := w.pr[P.CV-chainBase]
	next := P.NV
	if next == 0 {
		next = P.CV + 1
		if next > chainBase+3 {
			next = chainBase + 1
		}
	}
	var out []forgery
	seen := map[hdr]bool{H: true}
	add := func(kind string, t hdr) {
		t.Round = n
		if seen[t] {
			return
		}
		seen[t] = true
		out = append(out, forgery{kind, t})
	}
	carry := hdr{CV: P.CV, NV: P.NV, NA: P.NA, VB: P.VB, SO: P.SO}
	add("claims the switch now", hdr{CV: next})
	if P.NV != 0 {
		c := carry
		c.NA = P.NA + 2
		add("approvals +2", c)
		c = carry
		if c.SO > n+1 {
			c.SO--
		} else {
			c.SO++
		}
		add("NextSwitchOn rewritten", c)
		add("proposal cleared early", hdr{CV: P.CV})
		c = carry
		c.NV = P.NV + 1 // 7 after 6; 8 (unknown to everybody) after 7
		add("proposal replaced by one for another version", c)
	} else {
		nv := chainBase + pp.Approved
		if pp.Approved == 0 {
			nv = next
		}
		vb := n + pp.Rounds
		add("approvals +2", hdr{CV: P.CV, NV: nv, NA: 2, VB: vb, SO: vb + pp.MinW})
		add("NextSwitchOn rewritten", hdr{CV: P.CV, NV: nv, NA: 1, VB: vb, SO: vb + pp.MinW - 1})
		add("proposal opened for an unknown version", hdr{CV: P.CV, NV: chainBase + 4, NA: 1, VB: vb, SO: vb + pp.MinW})
	}
	for i, q := range refs {
		q.Round = n - 1
		add("honest approving successor of "+refNames[i], honest(w.pr, q, true))
		add("honest non-approving successor of "+refNames[i], honest(w.pr, q, false))
	}
	return out
}

// ---- one item: one prepared node state, every batch offered to it -------------------

type gateItem struct {
	engine, x, y string
	m, j         int
}

type gateRun struct {
	r     *mc.Run
	w     *gateWorld
	it    gateItem
	count bool
	out   func(format string, a ...interface{}) // replay printing (nil otherwise)
	prep  *chainx.Node
	clean *chainx.Node
	bad   bool
}

func (g *gateRun) cnt(name string, n int64) {
	if g.count {
		g.r.Count(name, n)
	}
}

func (g *gateRun) branch(name string) (shape string, role int, blocks []gHdr, known int) {
	if name == "Y" {
		return g.it.y, 1, g.w.bh[brKey(g.it.y, 1)], g.it.j
	}
	return g.it.x, 0, g.w.bh[brKey(g.it.x, 0)], g.it.m
}

func (g *gateRun) open(ucon bool) *chainx.Node {
	if ucon {
		n := g.w.ancN.ForkUcon()
		n.BC.Engine().(*chainx.StubUcon).VersionLookup = true
		return n
	}
	return g.w.ancN.Fork()
}

// fresh returns a new node in the prepared state of the item (nil + harness error if the honest preparation fails).
func (g *gateRun) fresh() *chainx.Node {
	if g.bad {
		return nil
	}
	it := g.it
	x, y := g.w.br[brKey(it.x, 0)], g.w.br[brKey(it.y, 1)]
	fail := func(n *chainx.Node, what string, err error) *chainx.Node {
		g.bad = true
		g.r.HarnessError(fmt.Sprintf("c12 part 4: honest preparation fails (%s: %v): set %s anc %d engine %s X=%s[:%d] Y=%s[:%d]", what, err, g.w.p, g.w.anc, it.engine, it.x, it.m, it.y, it.j))
		if n != nil {
			n.Close()
		}
		return nil
	}
	g.cnt("gate_nodes_opened", 1)
	if strings.HasPrefix(it.engine, "hdr-") {
		// a reopened node forgets its head header (loadLastState): the header-only state is rebuilt every time
		n := g.open(it.engine == "hdr-ucon")
		var err error
		if it.engine == "hdr-ucon" {
			_, err = n.BC.InsertHeaderChain(headersOf(x[:it.m]))
		} else {
			_, err = n.BC.InsertGuaranteedHeaderChain(headersOf(x[:it.m]))
		}
		if err != nil {
			return fail(n, "header import of X", err)
		}
		if n.BC.CurrentHeader().Hash() != x[it.m-1].Hash() {
			return fail(n, "header import of X", fmt.Errorf("head header is #%v", n.BC.CurrentHeader().Number))
		}
		return n
	}
	if g.prep == nil {
		n := g.open(it.engine == "ucon")
		if err := n.Import(x[:it.m]...); err != nil {
			return fail(n, "import of X", err)
		}
		want := x[it.m-1].Hash()
		if it.j > 0 {
			if err := n.Import(y[:it.j]...); err != nil {
				return fail(n, "import of Y", err)
			}
			if it.engine == "plain" || it.j > it.m {
				want = y[it.j-1].Hash()
			}
			for _, b := range y[:it.j] {
				if !rawdb.HasHeader(n.DB, b.Hash(), b.NumberU64()) {
					return fail(n, "import of Y", fmt.Errorf("block #%d not stored", b.NumberU64()))
				}
			}
		}
		if n.Head().Hash() != want {
			return fail(n, "head after the preparation", fmt.Errorf("head is #%d %s", n.Head().NumberU64(), n.Head().Hash().Hex()[:10]))
		}
		g.prep = n
	}
	n := g.prep.Fork()
	if it.engine == "ucon" {
		n.BC.Engine().(*chainx.StubUcon).VersionLookup = true
	}
	return n
}

func (g *gateRun) node() *chainx.Node {
	if g.clean == nil {
		g.clean = g.fresh()
	}
	return g.clean
}

func (g *gateRun) drop() {
	if g.clean != nil {
		g.clean.Close()
		g.clean = nil
	}
}

func (g *gateRun) close() {
	g.drop()
	if g.prep != nil {
		g.prep.Close()
		g.prep = nil
	}
}

// gateSamples: a few offered batches verbatim for the evidence file (at most 3 per entry point and outcome class).
var (
	gateSampleMu sync.Mutex
	gateSampleN  = map[string]int{}
	gateSamples  []string
)

func gateSample(c GateCase, err error) {
	class := "accepted"
	switch {
	case err != nil && strings.Contains(err.Error(), "VerifyYouVersionState failed"):
		class = "refused-version"
	case err != nil:
		class = "refused-other"
	}
	key := c.Entry + "|" + c.Engine + "|" + class
	gateSampleMu.Lock()
	if gateSampleN[key] < 1 && len(gateSamples) < 40 {
		gateSampleN[key]++
		gateSamples = append(gateSamples, fmt.Sprintf("%s => %v", c.String(), err))
	}
	gateSampleMu.Unlock()
}

type gateOutcome struct {
	err              error
	viols            []mc.Violation
	changed          bool
	headHdr, headBlk common.Hash
}

func (o gateOutcome) sigs() string {
	var s []string
	for _, v := range o.viols {
		s = append(s, v.Sig)
	}
	sort.Strings(s)
	return strings.Join(s, "\n")
}

// chainDown: the headers from genesis to hash, walking parent hashes through rawdb (nil if broken).
func chainDown(n *chainx.Node, hash common.Hash) []*types.Header {
	num := rawdb.ReadHeaderNumber(n.DB, hash)
	if num == nil {
		return nil
	}
	out := make([]*types.Header, *num+1)
	for i := int64(*num); i >= 0; i-- {
		h := rawdb.ReadHeader(n.DB, hash, uint64(i))
		if h == nil {
			return nil
		}
		out[i] = h
		hash = h.ParentHash
	}
	return out
}

// canonical: oracle (3) on the chain below hash.  rooted = a header wrongly accepted by this very call was already
// reported with its class: the broken invariant then goes into the detail, not into the signature.
func (g *gateRun) canonical(n *chainx.Node, hash common.Hash, which, entry, class string, rooted bool) (out []mc.Violation) {
	chain := chainDown(n, hash)
	if chain == nil {
		return []mc.Violation{{Sig: "version gate of " + entry + ": the chain below the " + which + " is not readable after the import"}}
	}
	g.cnt("gate_chains_walked_link_by_link_after_a_change", 1)
	gh := ghost{}
	seen := map[string]bool{}
	for i := 1; i < len(chain); i++ {
		prev, cur := tupleOf(chain[i-1]), tupleOf(chain[i])
		if v := pureVerdict(chain[i-1], chain[i]); v != "accept" && !seen["link"] {
			seen["link"] = true
			out = append(out, mc.Violation{Sig: fmt.Sprintf("after %s the chain below the %s holds a header the verifier does not accept after its parent %s", entry, which, class),
				Detail: fmt.Sprintf("#%d {%s} after #%d {%s}: verifier says %s", cur.Round, cur, prev.Round, prev, v)})
		}
		msg := mc.Catch(func() {
			gh, _ = ghostStep(g.w.pr, chainBase, prev, cur, gh, func(sig string) {
				key := sig
				if rooted {
					key = "ghost"
				}
				if !seen[key] {
					seen[key] = true
					v := mc.Violation{Sig: fmt.Sprintf("after %s the chain below the %s breaks an invariant of the property: %s %s", entry, which, sig, class),
						Detail: fmt.Sprintf("#%d {%s} after #%d {%s}; proposal as announced: %+v", cur.Round, cur, prev.Round, prev, gh)}
					if rooted {
						v.Sig = fmt.Sprintf("after %s the chain below the %s breaks an invariant of the property %s", entry, which, class)
						v.Detail = sig + ": " + v.Detail
					}
					out = append(out, v)
				}
			}, func(name string) { g.cnt("gate_chain_"+name, 1) })
		})
		if msg != "" {
			g.r.HarnessError("c12 part 4: ghost walk: " + msg)
			return
		}
	}
	return
}

func appendTuple(b []byte, t hdr) []byte {
	for _, v := range [...]uint64{t.CV, t.NV, t.NA, t.VB, t.SO} {
		b = strconv.AppendUint(b, v, 10)
		b = append(b, ',')
	}
	return b
}

// offer: one call of an entry point with one batch, judged.
func (g *gateRun) offer(n *chainx.Node, c GateCase, batch []gHdr, forgedIdx int) (o gateOutcome) {
	w := g.w
	hs := make([]*types.Header, len(batch))
	verd := make([]string, len(batch))
	known := make([]bool, len(batch))
	firstBad, crit := -1, false
	for i, x := range batch {
		hs[i] = x.h
		parent := w.hdrs[x.h.ParentHash]
		if i > 0 {
			parent = hs[i-1]
		}
		if parent == nil {
			g.r.HarnessError("c12 part 4: first header of a batch without a known real parent: " + c.String())
			o.changed = true
			return
		}
		verd[i] = pureVerdict(parent, x.h)
		if verd[i] != "accept" && firstBad < 0 {
			firstBad = i
		}
		if verd[i] == "crit" {
			crit = true
		}
		known[i] = rawdb.HasHeader(n.DB, x.hash, x.t.Round)
		if known[i] && verd[i] != "accept" {
			g.r.HarnessError("c12 part 4: the prepared node knows a header the verifier rejects: " + c.String())
		}
	}
	hh0, hb0 := rawdb.ReadHeadHeaderHash(n.DB), rawdb.ReadHeadBlockHash(n.DB)
	firstNum := batch[0].t.Round
	realParent := w.hdrs[hs[0].ParentHash]
	if !rawdb.HasHeader(n.DB, hs[0].ParentHash, firstNum-1) {
		g.r.HarnessError("c12 part 4: the node does not know the parent of the first header of the batch: " + c.String())
		o.changed = true
		return
	}
	var byNum *types.Header
	canonAtParent := rawdb.ReadCanonicalHash(n.DB, firstNum-1)
	firstParentCanonical := canonAtParent == hs[0].ParentHash
	if firstParentCanonical {
		byNum = realParent
	} else if canonAtParent != (common.Hash{}) {
		byNum = rawdb.ReadHeader(n.DB, canonAtParent, firstNum-1)
	}
	knownUpTo := func(i int) bool {
		for k := 0; k < i; k++ {
			if !known[k] {
				return false
			}
		}
		return true
	}
	detail := func(extra string) string {
		var b strings.Builder
		fmt.Fprintf(&b, "%s\ncase: %s\n", extra, c.String())
		fmt.Fprintf(&b, "real parent of the first header: #%v {%s}", realParent.Number, tupleOf(realParent))
		if byNum != nil && !firstParentCanonical {
			fmt.Fprintf(&b, "; canonical header at that height: {%s}", tupleOf(byNum))
		}
		for i, x := range batch {
			mark := ""
			if i == forgedIdx {
				mark = " FORGED"
			}
			fmt.Fprintf(&b, "\n  [%d] #%d {%s} known-before=%v verifier-after-real-parent=%s%s", i, x.t.Round, x.t, known[i], verd[i], mark)
		}
		return b.String()
	}

	// ---- the call
	atomic.AddInt64(&g.r.Evaluations, 1)
	g.cnt("gate_batches_offered_through_"+c.Entry, 1)
	var err error
	msg, where := mc.CatchStack(func() {
		switch c.Entry {
		case eIC:
			blocks := make([]*types.Block, len(batch))
			for i, x := range batch {
				blocks[i] = x.b
			}
			err = n.Import(blocks...)
		case eIHC:
			_, err = n.BC.InsertHeaderChain(hs)
		case eIGHC:
			_, err = n.BC.InsertGuaranteedHeaderChain(hs)
		default:
			panic("harness: bad entry " + c.Entry)
		}
	})
	o.err = err
	if msg != "" {
		o.changed = true
		if strings.HasPrefix(msg, "logging.Crit") && crit {
			// the batch switches to a version nobody knows: the node halts ("update the client"), as the pure verifier does
			g.cnt("gate_batches_on_which_the_node_halts_like_the_verifier(Crit)", 1)
			return
		}
		o.viols = append(o.viols, mc.Violation{Sig: fmt.Sprintf("version gate of %s panics at %s", c.Entry, where), Detail: detail(msg)})
		return
	}
	versionErr := err != nil && strings.Contains(err.Error(), "VerifyYouVersionState failed")
	blamed := -1
	if versionErr {
		if k := strings.Index(err.Error(), "index="); k >= 0 {
			fmt.Sscanf(err.Error()[k:], "index=%d", &blamed)
		}
	}
	o.headHdr, o.headBlk = rawdb.ReadHeadHeaderHash(n.DB), rawdb.ReadHeadBlockHash(n.DB)
	o.changed = o.headHdr != hh0 || o.headBlk != hb0

	// ---- vacuity counters
	switch {
	case err == nil:
		g.cnt("gate_batches_accepted", 1)
	case versionErr:
		g.cnt("gate_batches_refused_for_version_reasons", 1)
	default:
		g.cnt("gate_batches_refused_for_other_reasons(engine/import)", 1)
	}
	if !firstParentCanonical {
		g.cnt("gate_batches_whose_first_parent_is_known_but_not_canonical", 1)
	}
	if known[0] && !known[len(hs)-1] {
		g.cnt("gate_batches_overlapping_known_headers", 1)
	}
	if known[len(hs)-1] {
		g.cnt("gate_batches_entirely_known", 1)
	}
	if forgedIdx >= 0 {
		g.cnt("gate_forged_"+strings.Replace(strings.SplitN(c.Kind, " of ", 2)[0], " ", "_", -1)+"_verifier_says_"+verd[forgedIdx], 1)
	}
	if g.count {
		key := make([]byte, 0, 160)
		key = append(key, w.p.String()...)
		key = append(key, c.Engine...)
		key = append(key, c.Entry...)
		if byNum != nil && !firstParentCanonical {
			key = appendTuple(append(key, '!'), tupleOf(byNum))
		}
		key = appendTuple(append(key, '^'), tupleOf(realParent))
		for i, x := range batch {
			key = appendTuple(append(key, '|'), x.t)
			if known[i] {
				key = append(key, 'k')
			}
		}
		g.r.Distinct(string(key))
	}

	if g.count && (forgedIdx >= 0 || known[0] || !firstParentCanonical) {
		gateSample(c, err)
	}

	// ---- (1) accepted => the pure verifier accepts it after its real parent
	class1 := ""
	for i, x := range batch {
		if known[i] {
			continue
		}
		if !rawdb.HasHeader(n.DB, x.hash, x.t.Round) {
			continue
		}
		o.changed = true
		g.cnt("gate_headers_newly_stored", 1)
		if rawdb.ReadCanonicalHash(n.DB, x.t.Round) != x.hash {
			g.cnt("gate_headers_newly_stored_as_side_blocks", 1)
		}
		if verd[i] == "accept" {
			continue
		}
		class := classNone
		switch {
		case i == 0 && byNum != nil && !firstParentCanonical && pureVerdict(byNum, x.h) == "accept":
			class = classByNumber
		case i > 0 && knownUpTo(i) && byNum != nil && pureVerdict(byNum, x.h) == "accept":
			class = classCursor
		}
		if class1 == "" {
			class1 = class
		}
		o.viols = append(o.viols, mc.Violation{Sig: fmt.Sprintf("version gate of %s: a header the verifier rejects after its real parent is accepted %s", c.Entry, class),
			Detail: detail(fmt.Sprintf("header [%d] was stored by the call (returned error: %v)", i, err))})
	}
	// ---- (2) a batch of headers each valid after its real parent is not refused for version reasons
	if versionErr && firstBad < 0 {
		class := classNone
		h := hs[0]
		if blamed > 0 && blamed < len(hs) {
			h = hs[blamed]
		}
		switch {
		case blamed <= 0 && !firstParentCanonical && (byNum == nil || pureVerdict(byNum, h) != "accept"):
			class = classByNumber
		case blamed > 0 && knownUpTo(blamed) && byNum != nil && pureVerdict(byNum, h) != "accept":
			class = classCursor
		}
		what := "an honest batch"
		if forgedIdx >= 0 {
			what = "a batch with one adversarial header, every header of which the verifier accepts after its real parent,"
		}
		o.viols = append(o.viols, mc.Violation{Sig: fmt.Sprintf("version gate of %s: %s is refused for version reasons %s", c.Entry, what, class),
			Detail: detail(fmt.Sprintf("the call blamed header [%d]: %v", blamed, err))})
	}
	if versionErr && firstBad >= 0 {
		g.cnt("gate_forged_batches_refused_for_version_reasons", 1)
		if blamed != firstBad {
			g.cnt("gate_version_refusals_blaming_another_header_than_the_first_invalid_one(not_judged)", 1)
		}
	}
	if firstBad >= 0 && !versionErr && err != nil {
		g.cnt("gate_forged_batches_refused_for_other_reasons_first", 1)
	}
	// ---- (3) the chain the node ended up with
	if o.changed {
		rooted := class1 != ""
		if !rooted {
			class1 = "[every header stored by this call is valid after its parent]"
		}
		o.viols = append(o.viols, g.canonical(n, o.headHdr, "head header", c.Entry, class1, rooted)...)
		if o.headBlk != o.headHdr {
			g.cnt("gate_states_with_head_header_ahead_of_or_beside_the_head_block", 1)
			o.viols = append(o.viols, g.canonical(n, o.headBlk, "head block", c.Entry, class1, rooted)...)
		}
		if o.headBlk != hb0 {
			if was, is := chainDown(n, hb0), chainDown(n, o.headBlk); was != nil && is != nil {
				extends := len(is) > len(was) && is[len(was)].ParentHash == hb0
				if !extends {
					g.cnt("gate_reorgs_of_the_head_block", 1)
				}
			}
		}
	}
	for i := range o.viols {
		if !strings.Contains(o.viols[i].Detail, "case: ") {
			o.viols[i].Detail = detail(o.viols[i].Detail)
		}
	}
	if g.out != nil {
		g.out("%s\n  returned: %v\n", detail("offered:"), err)
	}
	return
}

// exec runs one case on node n.
func (g *gateRun) exec(c GateCase, n *chainx.Node) (o gateOutcome) {
	shape, role, B, known := g.branch(c.Branch)
	switch {
	case c.Single:
		for i := known; i < c.To; i++ {
			s := c
			s.From, s.To = i, i+1
			so := g.offer(n, s, B[i:i+1], -1)
			o.viols = append(o.viols, so.viols...)
			o.changed = o.changed || so.changed
			o.headHdr, o.headBlk = so.headHdr, so.headBlk
			if so.err != nil || len(so.viols) > 0 {
				o.err = so.err
				if o.err == nil {
					o.err = fmt.Errorf("violation")
				}
				return // the next header's parent is not there
			}
		}
		return
	case c.Pos < 0:
		return g.offer(n, c, B[c.From:c.To], -1)
	}
	t, err := parseHdr(c.Forged, uint64(g.w.anc+c.Pos+1))
	if err != nil {
		panic("harness: bad forged tuple " + c.Forged)
	}
	seg, err := g.w.forgedSeg(shape, role, c.Pos, t)
	if err != nil {
		g.r.HarnessError(fmt.Sprintf("c12 part 4: forged block can not be built (%v): %s", err, c))
		return
	}
	batch := append(append([]gHdr{}, B[c.From:c.Pos]...), seg[:1+c.Follow]...)
	return g.offer(n, c, batch, c.Pos-c.From)
}

// run executes one case on the item's clean node, confirms violations on fresh nodes and reports them.
func (g *gateRun) run(c GateCase) gateOutcome {
	n := g.node()
	if n == nil {
		return gateOutcome{err: fmt.Errorf("no node")}
	}
	g.cnt("gate_cases", 1)
	o := g.exec(c, n)
	if o.changed {
		g.drop()
	}
	if len(o.viols) == 0 {
		return o
	}
	for k := 0; k < 2; k++ {
		f := g.fresh()
		if f == nil {
			return o
		}
		o2 := g.exec(c, f)
		f.Close()
		if o2.sigs() != o.sigs() {
			g.r.HarnessError(fmt.Sprintf("c12 part 4: a violating case does not repeat (%q then %q): %s", o.sigs(), o2.sigs(), c))
			o.viols = nil
			return o
		}
	}
	for _, v := range o.viols {
		v.Input = c
		g.r.Report(v)
	}
	return o
}

// gateEntries: InsertHeaderChain exists for the ucon engine only (it derives the seal pattern from ucon's seed look-back
// and divides by zero with any other engine), so the plain-engine nodes get the header path through
// InsertGuaranteedHeaderChain only.
func gateEntries(engine string) []string {
	switch engine {
	case "plain":
		return []string{eIC, eIGHC}
	case "hdr-plain":
		return []string{eIGHC}
	case "hdr-ucon":
		return []string{eIHC, eIGHC}
	}
	return []string{eIC, eIHC, eIGHC}
}

// gateBounds: what the quick tier leaves out of the full product.
type gateBounds struct {
	ys          []string // shapes of the competing branch
	everyPos    bool     // forged header at EVERY index from..known+1 (else: first of the batch, first new, second new)
	everyFollow bool     // 0 and 1 follower everywhere (else: 1 follower only behind a forged first-new header with no or full overlap)
}

type gateHeads struct {
	ok       bool
	hdr, blk common.Hash
}

// differential: oracle (5) for one honest batch against the one-by-one reference.
func (g *gateRun) differential(c GateCase, o gateOutcome, ref gateHeads) {
	if !ref.ok || o.err != nil || len(o.viols) > 0 {
		return
	}
	g.cnt("gate_differential_batch_vs_one_by_one_compared", 1)
	if o.headHdr != ref.hdr || o.headBlk != ref.blk {
		g.r.Report(mc.Violation{Sig: fmt.Sprintf("version gate of %s: the same honest headers offered one by one and as one overlapping batch end in different chains", c.Entry),
			Detail: fmt.Sprintf("one by one: head header %s head block %s; as one batch: head header %s head block %s\ncase: %s",
				ref.hdr.Hex()[:10], ref.blk.Hex()[:10], o.headHdr.Hex()[:10], o.headBlk.Hex()[:10], c), Input: c})
	}
}

// all enumerates every case of the item.
func (g *gateRun) all(bd gateBounds, limit func() bool) {
	defer g.close()
	it, w := g.it, g.w
	base := GateCase{Part4: true, Set: w.p.String(), Anc: w.anc, X: it.x, Y: it.y, Engine: it.engine, M: it.m, J: it.j, Pos: -1}
	for _, bn := range []string{"X", "Y"} {
		shape, role, _, known := g.branch(bn)
		oshape, orole := it.y, 1
		if bn == "Y" {
			oshape, orole = it.x, 0
		}
		for _, entry := range gateEntries(it.engine) {
			if limit() || g.bad {
				return
			}
			c0 := base
			c0.Branch, c0.Entry = bn, entry
			// ---- honest batches: every overlap x 0..2 new headers; reference = the new headers one by one
			ref := map[int]gateHeads{}
			for nw := 1; nw <= 2 && known+nw <= w.L; nw++ {
				c := c0
				c.Single, c.From, c.To = true, known, known+nw
				o := g.run(c)
				ref[nw] = gateHeads{o.err == nil && len(o.viols) == 0, o.headHdr, o.headBlk}
			}
			for from := 0; from <= known; from++ {
				for nw := 0; nw <= 2; nw++ {
					to := known + nw
					if to <= from || to > w.L {
						continue
					}
					if nw == 2 && !bd.everyPos && from != 0 && from != known {
						continue // quick: two new headers only with no overlap and with the full overlap
					}
					c := c0
					c.From, c.To = from, to
					o := g.run(c)
					if nw > 0 {
						g.differential(c, o, ref[nw])
					}
				}
			}
			// ---- forged batches
			for from := 0; from <= known; from++ {
				for pos := from; pos <= known+1 && pos <= w.L-1; pos++ {
					if !bd.everyPos && pos != from && pos != known && pos != known+1 {
						continue
					}
					P, _ := w.tupleAt(shape, role, pos-1)
					H, _ := w.tupleAt(shape, role, pos)
					var names []string
					var refs []hdr
					for d := 1; d <= 3; d++ {
						if q, ok := w.tupleAt(shape, role, pos-1-d); ok {
							names, refs = append(names, fmt.Sprintf("the header %d above the parent", d)), append(refs, q)
						}
					}
					if pos-1 >= 0 {
						if q, ok := w.tupleAt(oshape, orole, pos-1); ok {
							names, refs = append(names, "the competing branch's header at the parent's height"), append(refs, q)
						}
					}
					for _, f := range w.forgeries(P, H, names, refs) {
						if !bd.everyPos && pos != from && from != 0 && pureVerdict(P.header(), f.t.header()) == "accept" {
							// quick: an adversarial tuple the verifier ADMITS after the real parent (nothing to refuse; every
							// such batch costs a fresh node): only as first header of the batch or with the full overlap
							continue
						}
						for follow := 0; follow <= 1; follow++ {
							if follow == 1 && !bd.everyFollow && !(pos == known && (from == known || from == 0)) {
								continue
							}
							c := c0
							c.From, c.Pos, c.Forged, c.Kind, c.Follow = from, pos, f.t.String(), f.kind, follow
							g.cnt("gate_forged_batches", 1)
							g.run(c)
						}
					}
				}
			}
		}
	}
}

// ---- enumeration ------------------------------------------------------------------

func gateSets(r *mc.Run) []PSet {
	sets := avSets(r)
	if !r.Quick() && len(sets) > 4 {
		sets = sets[:4]
	}
	return sets
}

func gateAncestors(quick bool) []int {
	if quick {
		return []int{3}
	}
	return []int{0, 3}
}

func gateL(p PSet, quick bool) int {
	if quick {
		return p.switchOffset() + 2
	}
	return p.switchOffset() + 3
}

func gateBoundsOf(quick bool) gateBounds {
	if quick {
		return gateBounds{ys: []string{"W*", "N*"}}
	}
	return gateBounds{ys: avShapes, everyPos: true, everyFollow: true}
}

func gateItems(L int, bd gateBounds) []gateItem {
	var out []gateItem
	for _, engine := range []string{"plain", "ucon", "hdr-plain", "hdr-ucon"} {
		for _, x := range avShapes {
			for _, y := range bd.ys {
				for m := 1; m <= L-1; m++ {
					out = append(out, gateItem{engine, x, y, m, 0})
					if strings.HasPrefix(engine, "hdr-") {
						continue // the header path has no side branches: one line of headers
					}
					for j := m - 1; j <= m+1; j++ {
						if j >= 1 && j <= L {
							out = append(out, gateItem{engine, x, y, m, j})
						}
					}
				}
			}
		}
	}
	return out
}

// parallel runs fn(i) for i in [0,n) over the workers, one item at a time (items are uneven).
func parallel(r *mc.Run, n int, fn func(i int)) {
	var next int64 = -1
	var wg sync.WaitGroup
	for k := 0; k < r.Workers; k++ {
		wg.Add(1)
		go func() {
			defer wg.Done()
			for {
				i := int(atomic.AddInt64(&next, 1))
				if i >= n {
					return
				}
				fn(i)
			}
		}()
	}
	wg.Wait()
}

// runGate is part 4.
func runGate(r *mc.Run) {
	limit := 75 * time.Second
	if !r.Quick() {
		limit = 6 * time.Minute
	}
	start := time.Now()
	expired := func() bool { return r.Expired() || time.Since(start) > limit }
	var names []string
	planned, done := 0, 0
	for _, p := range gateSets(r) {
		for _, anc := range gateAncestors(r.Quick()) {
			planned++
			if expired() {
				continue
			}
			restore := p.installChain()
			L := gateL(p, r.Quick())
			bd := gateBoundsOf(r.Quick())
			w, err := newGateWorld(p, anc, L, avShapes, bd.ys)
			if err != nil {
				r.HarnessError("c12 part 4: the world can not be built: " + err.Error())
				restore()
				continue
			}
			items := gateItems(L, bd)
			var ran int64
			parallel(r, len(items), func(i int) {
				if expired() {
					return
				}
				g := &gateRun{r: r, w: w, it: items[i], count: true}
				g.all(bd, expired)
				if !expired() {
					atomic.AddInt64(&ran, 1)
				}
			})
			w.mu.Lock()
			nf := len(w.forged)
			w.mu.Unlock()
			w.close()
			restore()
			names = append(names, fmt.Sprintf("%s: ancestor %d, branch length %d, node states %d of %d, forged blocks built %d", p, anc, L, ran, len(items), nf))
			if int(ran) == len(items) {
				done++
			}
		}
	}
	r.SetExtra("gate_worlds", names)
	gateSampleMu.Lock()
	sort.Strings(gateSamples)
	r.SetExtra("gate_samples", append([]string{}, gateSamples...))
	gateSampleMu.Unlock()
	if done < planned {
		r.Cap(fmt.Sprintf("part 4 (version gate of the import entry points): only %d of %d worlds completed within its time cap", done, planned))
	}
}

func replayGate(r *mc.Run, v *mc.Violation) {
	bs, _ := json.Marshal(v.Input)
	var c GateCase
	if err := json.Unmarshal(bs, &c); err != nil {
		fmt.Println("bad part 4 input:", err)
		return
	}
	p, err := parsePSet(c.Set)
	if err != nil {
		fmt.Println("bad parameter set in replay file:", err)
		return
	}
	restore := p.installChain()
	defer restore()
	L := gateL(p, false)
	w, err := newGateWorld(p, c.Anc, L, []string{c.X}, []string{c.Y})
	if err != nil {
		fmt.Println("the world can not be built:", err)
		return
	}
	defer w.close()
	fmt.Println("case:", c.String())
	for role, shape := range []string{c.X, c.Y} {
		var s []string
		for _, b := range w.br[brKey(shape, role)] {
			s = append(s, fmt.Sprintf("%d{%s}", b.NumberU64(), tupleOf(b.Header())))
		}
		fmt.Printf("branch %s (%s): %s\n", "XY"[role:role+1], shape, strings.Join(s, " "))
	}
	g := &gateRun{r: r, w: w, it: gateItem{c.Engine, c.X, c.Y, c.M, c.J}, out: func(f string, a ...interface{}) { fmt.Printf(f, a...) }}
	defer g.close()
	n := g.fresh()
	if n == nil {
		return
	}
	defer n.Close()
	o := g.exec(c, n)
	for _, x := range o.viols {
		fmt.Printf("   VIOLATED: %s\n", x.Sig)
		if x.Sig == v.Sig {
			x.Input = c
			r.Report(x)
		}
	}
	if strings.Contains(v.Sig, "one by one and as one") && c.Pos < 0 && !c.Single {
		// the differential: the same new headers one by one on a second node
		_, _, _, known := g.branch(c.Branch)
		s := c
		s.Single, s.From = true, known
		m := g.fresh()
		if m == nil {
			return
		}
		defer m.Close()
		fmt.Println("--- reference: one by one")
		so := g.exec(s, m)
		g.differential(c, o, gateHeads{so.err == nil && len(so.viols) == 0, so.headHdr, so.headBlk})
	}
}
