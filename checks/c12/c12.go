// Package c12: the protocol version changes only by a quorum of block votes,
// at the announced round.
//
// Explicit-state BFS over the on-chain upgrade state machine where the
// TRANSITION RELATION IS THE REAL VERIFIER: from every reached state every
// candidate successor header over finite field domains is offered to
// core.VerifyYouVersionState(prev, cand); the accepted candidates are the
// successors.  That enumerates every adversarial header chain the verifier
// admits up to round R.  Ghost variables (kept by the harness, computed from
// the harness' own copy of the parameter set, never from the code under test)
// remember the proposal as it was announced and the approvals that were added
// inside its voting window; the invariants of the property are evaluated on
// every transition.  For every reached state the header the honest builder
// (core.ProcessYouVersionState) derives is offered to the verifier as well.
package c12

import (
	"fmt"
	"math/big"
	"os"
	"sort"
	"strconv"
	"strings"
	"sync/atomic"
	"time"

	"github.com/youchainhq/go-youchain/core"
	"github.com/youchainhq/go-youchain/core/types"
	"github.com/youchainhq/go-youchain/logging"
	"github.com/youchainhq/go-youchain/params"

	"verif/mc"
)

// ---- parameter sets -----------------------------------------------------------

// proto is the harness' own copy of the upgrade parameters of one version
// (the oracle never reads params.Versions).
type proto struct {
	Rounds, Thr, MinW, MaxW uint64
	Approved                uint64 // version the builder proposes (0 = none)
	OwnWait                 uint64 // UpgradeWaitRounds this version asks for when it is the target
}

// PSet is one configuration: parameters of V1 (V2 gets a different threshold
// so that "threshold of the wrong version" is observable), and which versions
// the local client knows.
type PSet struct {
	Rounds, Thr, MinW, MaxW uint64
	Known                   string // "both": V1,V2,V3 known; "current": only V1 known (outdated client)
	Dom                     string // candidate domains: "full" (absolute, DESIGN) or "rel" (relative to the candidate's round)
}

func (p PSet) String() string {
	return fmt.Sprintf("rounds=%d thr=%d minw=%d maxw=%d known=%s dom=%s", p.Rounds, p.Thr, p.MinW, p.MaxW, p.Known, p.Dom)
}

func parsePSet(s string) (PSet, error) {
	var p PSet
	_, err := fmt.Sscanf(s, "rounds=%d thr=%d minw=%d maxw=%d known=%s dom=%s", &p.Rounds, &p.Thr, &p.MinW, &p.MaxW, &p.Known, &p.Dom)
	return p, err
}

// protos returns the harness-side table.
func (p PSet) protos() map[uint64]proto {
	thr2 := p.Thr - 1
	if p.Thr <= 1 {
		thr2 = p.Thr + 1
	}
	wait2 := uint64(0)
	if p.MinW+1 <= p.MaxW {
		wait2 = p.MinW + 1 // V2 asks for a non-minimal (but permitted) wait: the builder must announce it
	}
	if p.Known == "current" {
		return map[uint64]proto{1: {Rounds: p.Rounds, Thr: p.Thr, MinW: p.MinW, MaxW: p.MaxW}}
	}
	return map[uint64]proto{
		1: {Rounds: p.Rounds, Thr: p.Thr, MinW: p.MinW, MaxW: p.MaxW, Approved: 2},
		2: {Rounds: p.Rounds, Thr: thr2, MinW: p.MinW, MaxW: p.MaxW, Approved: 3, OwnWait: wait2},
		3: {Rounds: p.Rounds, Thr: p.Thr, MinW: p.MinW, MaxW: p.MaxW},
	}
}

// install replaces params.Versions by the scaled-down table of p and returns
// the restore function.  params.Versions is a process global read by the code
// under test: it is written only here, between explorations, never while
// worker goroutines run.
func (p PSet) install() (restore func()) {
	old := params.Versions
	vm := params.VersionsMap{}
	for v, pr := range p.protos() {
		yp := params.YouParams{}
		yp.Version = params.YouVersion(v)
		yp.ApprovedUpgradeVersion = params.YouVersion(pr.Approved)
		yp.UpgradeWaitRounds = pr.OwnWait
		yp.UpgradeVoteRounds = pr.Rounds
		yp.UpgradeThreshold = pr.Thr
		yp.MinUpgradeWaitRounds = pr.MinW
		yp.MaxUpgradeWaitRounds = pr.MaxW
		vm[params.YouVersion(v)] = yp
	}
	params.Versions = vm
	return func() { params.Versions = old }
}

// R is the exploration horizon (rounds): two complete upgrades plus slack.
func (p PSet) R() uint64 { return 2*(p.Rounds+p.MaxW) + 3 }

// domains of the candidate fields
// Domains of the candidate fields of a header at round n.
//
//	full: NextVoteBefore, NextSwitchOn in 0..R+rounds+maxwait+1, NextApprovals in 0..R  (absolute)
//	rel:  NextVoteBefore, NextSwitchOn in 0..n+rounds+maxwait+1, NextApprovals in 0..min(n+1, rounds+maxwait+2)
//
// "rel" drops only values that lie further in the future than any proposal
// opened at round n could announce (+1 slack) / more approvals than rounds
// elapsed (+1 slack); every stale (past) value stays in.
func (p PSet) roundDomain(n uint64) uint64 {
	if p.Dom == "rel" && n < p.R() {
		return n + p.Rounds + p.MaxW + 1
	}
	return p.R() + p.Rounds + p.MaxW + 1
}
func (p PSet) apprDomain(n uint64) uint64 {
	if p.Dom == "rel" {
		// a proposal is live for at most rounds+maxwait rounds: rounds+maxwait+2 is two
		// more than any chain of single approvals can reach
		m := p.Rounds + p.MaxW + 2
		if n+1 < m {
			m = n + 1
		}
		if m < p.R() {
			return m
		}
	}
	return p.R()
}

var currDomain = []uint64{1, 2, 3}
var nextDomain = []uint64{0, 2, 3}

// ---- state -------------------------------------------------------------------

type hdr struct{ Round, CV, NV, NA, VB, SO uint64 }

func (h hdr) String() string {
	return fmt.Sprintf("cv=%d nv=%d na=%d vb=%d so=%d", h.CV, h.NV, h.NA, h.VB, h.SO)
}

func (h hdr) header() *types.Header {
	return &types.Header{Number: new(big.Int).SetUint64(h.Round),
		CurrVersion: params.YouVersion(h.CV), NextVersion: params.YouVersion(h.NV),
		NextApprovals: h.NA, NextVoteBefore: h.VB, NextSwitchOn: h.SO}
}

// ghost is the live proposal as announced, plus the approvals by position
// relative to its window.
type ghost struct {
	Live                bool
	Open                uint64 // round of the opening header
	Version             uint64 // version proposed by the opening header
	VoteBefore          uint64 // window close computed by the harness: Open + UpgradeVoteRounds of the version in force
	SwitchOn            uint64 // switch round announced by the opening header
	Thr, MinW           uint64 // parameters of the version in force at opening
	InWindow            uint64 // approvals added at rounds < VoteBefore (each block at most one)
	AtClose, AfterClose uint64 // approvals added at round == VoteBefore / > VoteBefore
}

type critPanic struct{ msg string }

// Sys is the seqx driver.
type Sys struct {
	p      PSet
	pr     map[uint64]proto
	r      *mc.Run
	count  bool // feed the vacuity counters (off for replay/confirm instances)
	cur    hdr
	g      ghost
	dead   bool
	viols  []mc.Violation
	prevH  *types.Header // scratch
	candH  *types.Header
	lastTr string
	pend   []string // counters of the last Apply; flushed by Check (once per explored transition)
}

func newSys(r *mc.Run, p PSet, count bool) *Sys {
	return &Sys{p: p, pr: p.protos(), r: r, count: count,
		prevH: &types.Header{Number: new(big.Int)}, candH: &types.Header{Number: new(big.Int)}}
}

func (s *Sys) Reset() {
	s.cur = hdr{Round: 0, CV: 1}
	s.g = ghost{}
	s.dead = false
	s.viols = nil
	s.pend = s.pend[:0]
	s.lastTr = ""
}

func fill(h *types.Header, x hdr) {
	h.Number.SetUint64(x.Round)
	h.CurrVersion, h.NextVersion = params.YouVersion(x.CV), params.YouVersion(x.NV)
	h.NextApprovals, h.NextVoteBefore, h.NextSwitchOn = x.NA, x.VB, x.SO
}

// verify calls the real verifier; logging.Crit (os.Exit in production) is
// turned into a panic by the verif hook and reported as outcome "crit".
func verify(prev, cand *types.Header) (outcome string) {
	code, err, msg := verifyRaw(prev, cand)
	switch code {
	case vAccept:
		return "accept"
	case vReject:
		return "reject: " + err.Error()
	case vCrit:
		return "crit: " + msg
	}
	return "panic: " + msg
}

const (
	vAccept = iota
	vReject
	vCrit
	vPanic
)

// verifyRaw is verify without building strings (hot loop of Enabled).
func verifyRaw(prev, cand *types.Header) (code int, err error, msg string) {
	defer func() {
		if e := recover(); e != nil {
			if c, ok := e.(critPanic); ok {
				code, msg = vCrit, c.msg
				return
			}
			code, msg = vPanic, fmt.Sprint(e)
		}
	}()
	if err = core.VerifyYouVersionState(prev, cand); err != nil {
		return vReject, err, ""
	}
	return vAccept, nil, ""
}

// Enabled = the transition relation: every candidate over the finite domains
// that the real verifier accepts after the current header.
func (s *Sys) Enabled() []string {
	if s.dead || s.cur.Round >= s.p.R() {
		return nil
	}
	fill(s.prevH, s.cur)
	c := hdr{Round: s.cur.Round + 1}
	rd, ad := s.p.roundDomain(c.Round), s.p.apprDomain(c.Round)
	var out []string
	var nrej, ncrit int64
	h := s.candH
	h.Number.SetUint64(c.Round)
	for _, cv := range currDomain {
		h.CurrVersion = params.YouVersion(cv)
		for _, nv := range nextDomain {
			h.NextVersion = params.YouVersion(nv)
			for na := uint64(0); na <= ad; na++ {
				h.NextApprovals = na
				for vb := uint64(0); vb <= rd; vb++ {
					h.NextVoteBefore = vb
					for so := uint64(0); so <= rd; so++ {
						h.NextSwitchOn = so
						switch code, _, msg := verifyRaw(s.prevH, h); code {
						case vReject:
							nrej++
						case vAccept:
							c.CV, c.NV, c.NA, c.VB, c.SO = cv, nv, na, vb, so
							out = append(out, c.String())
						case vCrit:
							// the node halts ("update the client"): no successor state
							ncrit++
						default:
							c.CV, c.NV, c.NA, c.VB, c.SO = cv, nv, na, vb, so
							s.r.Report(mc.Violation{Sig: "verifier panicked", Detail: msg + " on " + s.cur.String() + " -> " + c.String()})
						}
					}
				}
			}
		}
	}
	if s.count {
		s.r.Count("verifier_rejects", nrej)
		s.r.Count("verifier_accepts", int64(len(out)))
		s.r.Count("verifier_halts_unknown_version(Crit)", ncrit)
		atomic.AddInt64(&s.r.Evaluations, nrej+ncrit+int64(len(out)))
	}
	return out
}

func parseHdr(op string, round uint64) (hdr, error) {
	h := hdr{Round: round}
	_, err := fmt.Sscanf(op, "cv=%d nv=%d na=%d vb=%d so=%d", &h.CV, &h.NV, &h.NA, &h.VB, &h.SO)
	return h, err
}

func (s *Sys) viol(sig, detail string) {
	s.viols = append(s.viols, mc.Violation{Sig: sig, Detail: detail})
}

// cnt defers a vacuity counter to Check(): the explorer re-applies path
// prefixes many times but checks every explored transition exactly once.
func (s *Sys) cnt(name string) {
	if s.count {
		s.pend = append(s.pend, name)
	}
}

// Apply offers one header to the real verifier after the current one and, if
// accepted, advances the state and the ghost variables and evaluates the
// transition invariants.
func (s *Sys) Apply(op string) string {
	s.viols = s.viols[:0]
	s.pend = s.pend[:0]
	c, err := parseHdr(op, s.cur.Round+1)
	if err != nil {
		panic("harness: bad op " + op)
	}
	fill(s.prevH, s.cur)
	fill(s.candH, c)
	oc := verify(s.prevH, s.candH)
	if oc != "accept" {
		s.dead = true
		return oc
	}
	prev := s.cur
	detail := func() string {
		return fmt.Sprintf("params %s; accepted %d{%s} -> %d{%s}; proposal as announced: %+v", s.p, prev.Round, prev, c.Round, c, s.g)
	}
	g, tr := ghostStep(s.pr, 0, prev, c, s.g, func(sig string) { s.viol(sig, detail()) }, s.cnt)
	s.cnt("transition_" + tr)
	s.lastTr = tr
	s.cur, s.g = c, g
	return "accept"
}

// ghostStep advances the ghost record over ONE accepted transition prev -> c and evaluates the transition
// invariants of the property (viol is called once per violated invariant, cnt feeds the vacuity counters);
// it returns the new ghost record and the class of the transition.  Pure: it never calls the code under
// test and reads only the harness' own parameter table pr (version v of the headers is pr[v-base]).
// Used by part 1 on every explored transition and by part 4 along the canonical chain of a real node.
func ghostStep(pr map[uint64]proto, base uint64, prev, c hdr, g ghost, viol func(sig string), cnt func(name string)) (ghost, string) {
	round := c.Round
	prevProto := pr[prev.CV-base]
	tr := "idle"

	// --- the property: CurrVersion changes only ...
	if c.CV != prev.CV {
		tr = "switch"
		switch {
		case !g.Live:
			viol("version changed with no live upgrade proposal")
		default:
			if round != g.SwitchOn {
				viol("version changed at a round other than the switch round the proposal announced")
			}
			if c.CV != g.Version {
				viol("version changed to a version other than the one the proposal announced")
			}
			if g.InWindow < g.Thr {
				cause := "total approvals below threshold"
				if g.InWindow+g.AtClose >= g.Thr && g.AtClose > 0 {
					cause = "approval counted at round==NextVoteBefore"
				} else if g.InWindow+g.AtClose+g.AfterClose >= g.Thr {
					cause = "approvals counted after the window closed"
				}
				viol("switch with in-window approvals below threshold (" + cause + ")")
			} else {
				cnt("switch_with_quorum_in_window")
				if g.InWindow == g.Thr {
					cnt("switch_with_exactly_threshold_in_window")
				}
			}
			if g.SwitchOn < g.VoteBefore+g.MinW {
				viol("switch earlier than window close + MinUpgradeWaitRounds")
			} else if g.SwitchOn == g.VoteBefore+g.MinW {
				cnt("switch_at_exactly_min_wait")
			}
		}
	}

	// --- ghost bookkeeping
	switch {
	case prev.NV == 0 && c.NV != 0 && c.CV == prev.CV:
		tr = "open"
		g = ghost{Live: true, Open: round, Version: c.NV, VoteBefore: round + prevProto.Rounds, SwitchOn: c.SO,
			Thr: prevProto.Thr, MinW: prevProto.MinW}
		if c.NA >= 1 {
			g.InWindow = 1
		}
		if c.NA > 1 {
			viol("a block added more than one approval (at proposal opening)")
		}
		if c.VB != g.VoteBefore {
			viol("proposal opened with a voting window other than UpgradeVoteRounds")
		}
	case prev.NV != 0 && c.NV != 0 && c.CV == prev.CV:
		tr = "vote-noapprove"
		if !g.Live {
			panic("harness: ghost lost a live proposal")
		}
		switch {
		case c.NA < prev.NA:
			tr = "vote-decrease"
			viol("approvals decreased while the proposal was live")
		case c.NA > prev.NA:
			if c.NA > prev.NA+1 {
				viol("a block added more than one approval")
			}
			switch {
			case round < g.VoteBefore:
				g.InWindow++
				tr = "approve-in-window"
			case round == g.VoteBefore:
				g.AtClose++
				tr = "approve-at-close"
			default:
				g.AfterClose++
				tr = "approve-after-close"
			}
		}
		if c.VB != prev.VB {
			cnt("info_NextVoteBefore_rewritten_mid_vote")
		}
	case prev.NV != 0 && c.NV == 0:
		if c.CV == prev.CV && !(g.Live && round == g.SwitchOn) {
			tr = "clear"
			if g.Live && round == g.VoteBefore && g.InWindow < g.Thr {
				cnt("failed_proposal_cleared_at_window_close")
			}
		} else if c.CV == prev.CV {
			tr = "switch-same-version"
		}
		g = ghost{}
	case c.CV != prev.CV && c.NV != 0:
		// version change and new proposal in one header (never accepted by the unchanged verifier)
		g = ghost{Live: true, Open: round, Version: c.NV, VoteBefore: round + prevProto.Rounds, SwitchOn: c.SO,
			Thr: prevProto.Thr, MinW: prevProto.MinW, InWindow: 1}
	}
	if c.CV != prev.CV && c.NV == 0 {
		g = ghost{}
	}
	return g, tr
}

// Check: transition invariants found by Apply plus builder ⊆ verifier in the
// state just reached.
func (s *Sys) Check() []mc.Violation {
	out := append([]mc.Violation{}, s.viols...)
	defer func() {
		for _, n := range s.pend {
			s.r.Count(n, 1)
		}
		s.pend = s.pend[:0]
	}()
	if s.dead || s.cur.Round >= s.p.R() {
		return out
	}
	fill(s.prevH, s.cur)
	built := &types.Header{Number: new(big.Int).SetUint64(s.cur.Round + 1)}
	var perr error
	if msg := mc.Catch(func() { perr = core.ProcessYouVersionState(s.prevH, built) }); msg != "" {
		out = append(out, mc.Violation{Sig: "builder panicked", Detail: msg + " after " + s.cur.String()})
		return out
	}
	if perr != nil {
		out = append(out, mc.Violation{Sig: "builder failed on a state the verifier admits: " + stripNums(perr.Error()),
			Detail: fmt.Sprintf("params %s; ProcessYouVersionState after %d{%s}: %v", s.p, s.cur.Round, s.cur, perr)})
		return out
	}
	b := hdr{Round: s.cur.Round + 1, CV: uint64(built.CurrVersion), NV: uint64(built.NextVersion),
		NA: built.NextApprovals, VB: built.NextVoteBefore, SO: built.NextSwitchOn}
	kind := "idle"
	switch {
	case b.CV != s.cur.CV:
		kind = "switch"
	case s.cur.NV == 0 && b.NV != 0:
		kind = "new proposal"
	case s.cur.NV != 0 && b.NV == 0:
		kind = "clear"
	case s.cur.NV != 0 && b.NA > s.cur.NA:
		kind = "approve"
	case s.cur.NV != 0:
		kind = "carry"
	}
	oc := verify(s.prevH, built)
	switch {
	case oc == "accept":
		s.cnt("builder_header_accepted_" + kind)
		if b.VB > s.p.roundDomain(b.Round) || b.SO > s.p.roundDomain(b.Round) || b.NA > s.p.apprDomain(b.Round) {
			s.r.HarnessError(fmt.Sprintf("builder header %s outside the candidate domains of %s", b, s.p))
		}
	case strings.HasPrefix(oc, "crit") && s.p.Known == "current" && kind == "switch":
		// an outdated client builds the switch to a version it does not know and
		// halts on it ("update the client"): intended, not a disagreement
		s.cnt("builder_switch_to_unknown_version_halts(Crit)")
	default:
		out = append(out, mc.Violation{Sig: "builder's header not accepted by the verifier (" + kind + "): " + stripNums(oc),
			Detail: fmt.Sprintf("params %s; parent %d{%s}; ProcessYouVersionState built {%s}; verifier: %s", s.p, s.cur.Round, s.cur, b, oc)})
	}
	return out
}

func stripNums(m string) string {
	var b strings.Builder
	for _, c := range m {
		if c >= '0' && c <= '9' {
			continue
		}
		b.WriteRune(c)
	}
	return b.String()
}

func (s *Sys) Key() string {
	if s.dead {
		return "dead"
	}
	g := s.g
	return fmt.Sprintf("%s|%d|%s|%v,%d,%d,%d,%d,%d,%d,%d,%d,%d", s.p, s.cur.Round, s.cur, g.Live, g.Open, g.Version, g.VoteBefore,
		g.SwitchOn, g.Thr, g.MinW, g.InWindow, g.AtClose, g.AfterClose)
}

// ---- entry points --------------------------------------------------------------

func installCritHook() {
	// logging.Crit = log + os.Exit(1).  Two calls are reachable from
	// VerifyYouVersionState: unknown prev.CurrVersion (never reached: a state
	// with an unknown current version is never entered, see below) and a switch
	// to a version missing from params.Versions (reached in the known=current
	// sets).  The verif hook turns Crit into a panic that verify() records.
	logging.VerifCritHook = func(msg string, ctx []interface{}) { panic(critPanic{msg}) }
	logging.Root().SetHandler(logging.DiscardHandler())
}

func quickSets() []PSet {
	return []PSet{
		// cheapest first (an expiring budget then still completes most sets)
		{1, 1, 1, 1, "both", "full"}, // smallest: window of one round, full absolute domains
		{2, 2, 1, 2, "current", "rel"},
		{2, 2, 1, 2, "both", "rel"},
		{2, 3, 1, 3, "both", "rel"}, // threshold = rounds+1: cannot be reached inside the window at all
		{3, 2, 1, 2, "both", "rel"}, // threshold reached early: fields unconstrained afterwards
		{3, 3, 2, 3, "both", "rel"}, // the shape of the shipped tables: threshold close to the window, wait >= 2
	}
}

func thoroughSets() []PSet {
	var out []PSet
	seen := map[string]bool{}
	add := func(p PSet) {
		if !seen[p.String()] {
			seen[p.String()] = true
			out = append(out, p)
		}
	}
	for _, p := range quickSets() {
		add(p)
	}
	var all []PSet
	for rounds := uint64(1); rounds <= 4; rounds++ {
		for thr := uint64(1); thr <= rounds+1; thr++ {
			for minw := uint64(1); minw <= 3; minw++ {
				for maxw := minw; maxw <= minw+2; maxw++ {
					all = append(all, PSet{rounds, thr, minw, maxw, "both", "full"})
					all = append(all, PSet{rounds, thr, minw, maxw, "current", "full"})
				}
			}
		}
	}
	// cheapest first so that an expiring budget covers the most sets
	sort.SliceStable(all, func(i, j int) bool { return all[i].R() < all[j].R() })
	for _, p := range all {
		add(p)
	}
	return out
}

func sysName(p PSet) string { return "version-sm[" + p.String() + "]" }

// Run is the check entry point.
func Run(r *mc.Run) {
	r.Level = "model_checking"
	r.Rule = "BFS over (header version tuple, ghost proposal record) states; the successors of a state are ALL candidate headers over the finite domains CurrVersion{1,2,3} x NextVersion{0,2,3} x NextApprovals x NextVoteBefore x NextSwitchOn (dom=full: approvals 0..R, round fields 0..R+rounds+maxwait+1; dom=rel, for a header at round n: approvals 0..min(n+1, rounds+maxwait+2), round fields 0..n+rounds+maxwait+1) that the real core.VerifyYouVersionState accepts after it (evaluations = verifier calls); a state is distinct by its full key (parameter set, round, header fields, ghost fields); in every reached state core.ProcessYouVersionState's header is offered to the verifier too"
	r.Rule += "; PART 2 (real block builder): BFS (states de-duplicated on the head's version tuple) over all block histories of length <= R on a real chain (core.BlockChain + staking + core.TxPool) whose table lets version 5 upgrade to 6 and 6 to 7, every block built either by the REAL miner worker (W: commitNewWork + mine/postSeal through the hook miner.VerifBuildAndSealBlock) or by an honest proposer that does not know the proposed version (N: carries, clears, switches, never approves); for every W block: VerifyYouVersionState(true parent, worker header) accepts, the worker header's version fields equal ProcessYouVersionState(true parent) and the harness' own model of the honest builder, and an independent follower node imports the block with InsertChain"
	r.Rule += "; PART 4 (version gate of the import entry points): on the real chain of part 2, the full product of: branches X (proposer c1) and Y (proposer s1) off a common ancestor, one per shape {W*,N*,WN*,NW*,WWN*} (W = real miner worker, N = honest non-approving proposer; branch length = switch offset + 2 (quick) / + 3: vote in progress, threshold reached, waiting, switch round, failed proposal cleared) x node state (engine plain | ucon-shaped | headers-only; X[:m] imported, m = 1..L-1, then Y[:j], j in {0, m-1, m, m+1}) x entry point (InsertChain | InsertHeaderChain (ucon engine only) | InsertGuaranteedHeaderChain) x branch the batch runs along (X | Y) x first index from = known-k for every overlap k = 0..known x (0, 1 or 2 new honest headers | the honest prefix up to pos + ONE forged header at pos in from..known+1 + 0 or 1 honest follower built on it) x forged version tuple (claims the switch now; approvals +2; NextSwitchOn rewritten; proposal cleared early; proposal replaced by / opened for another or unknown version; the honest approving and non-approving successor of each of the 3 headers above the parent and of the competing branch's header at the parent's height); forged blocks are real blocks built on the real parent's state (chainx builder with the version-state edit); oracle per offered batch: every newly stored header passes core.VerifyYouVersionState after its REAL parent, a batch whose headers all pass it is not refused with the version-state error, the chains below head header and head block pass the verifier link by link and part 1's ghost invariants, no panic, one-by-one vs batch delivery with every overlap ends in the same heads; a batch is distinct by (parameter set, engine, entry, version tuples of real parent / canonical header at the parent's height / every header of the batch, which of them were known)"
	sets := quickSets()
	if r.Quick() {
		r.SetBudget(150e9)
	} else {
		sets = thoroughSets()
		r.SetBudget(28 * 60e9)
	}
	if v, err := strconv.Atoi(os.Getenv("VERIF_BUDGET_S")); err == nil && v > 0 {
		r.SetBudget(time.Duration(v) * time.Second) // testing aid: shorter/longer internal deadline
	}
	// part 2 first: cheap, and it installs the chain harness' own Crit hook, which part 1 replaces below
	if os.Getenv("VERIF_C12_NO_WORKER") == "" {
		t0 := time.Now()
		runWorkerChains(r)
		// part 2 has its own time cap (60 s quick, 8 min thorough); part 1 keeps the budget it had before part 2 existed
		r.SetExtra("worker_chain_wall_s", time.Since(t0).Seconds())
		if !r.Deadline.IsZero() {
			r.Deadline = r.Deadline.Add(time.Since(t0))
		}
	}
	// part 3: the node's active-version lookup follows the canonical chain (own time cap as well)
	if os.Getenv("VERIF_C12_NO_ACTIVE") == "" {
		t0 := time.Now()
		runActiveVersion(r)
		r.SetExtra("active_version_wall_s", time.Since(t0).Seconds())
		if !r.Deadline.IsZero() {
			r.Deadline = r.Deadline.Add(time.Since(t0))
		}
	}
	// part 4: the version gate of the chain's import entry points (own time cap as well)
	if os.Getenv("VERIF_C12_NO_GATE") == "" {
		t0 := time.Now()
		runGate(r)
		r.SetExtra("gate_wall_s", time.Since(t0).Seconds())
		if !r.Deadline.IsZero() {
			r.Deadline = r.Deadline.Add(time.Since(t0))
		}
	}
	if os.Getenv("VERIF_C12_NO_BFS") != "" { // testing aid: parts 2-4 only
		r.Cap("part 1 skipped (VERIF_C12_NO_BFS)")
		return
	}
	installCritHook()
	r.Assume("MinUpgradeWaitRounds >= 1 (no shipped table uses 0; with 0 window close and switch can be the same round)")
	r.Assume("header numbers increase by one (checked elsewhere by the header verifier); genesis = round 0, version 1, no proposal")
	r.Assume("exploration horizon R = 2*(rounds+maxwait)+3 rounds per parameter set; candidate field domains as in the rule")
	r.Assume("logging.Crit (os.Exit) is turned into a recorded outcome through the verif hook logging.VerifCritHook: a switch to a locally unknown version halts the node and has no successor state")
	r.Assume("part 2: the parameter sets with known=both only (the worker under test is the up-to-date client; outdated peers are the N blocks); horizon R as in part 1 (two complete upgrades 5->6->7 plus slack); blocks carry no transactions; the worker's header Time comes from the wall clock and is not compared")
	r.Assume("part 4: parameter sets, ancestor heights and branch lengths as listed under gate_worlds; batches of at most known+2 headers; at most ONE forged header per batch and at most one follower; the seal is the stub engine's (C01 judges seals); 'accepted' = the header is readable from the node's database after the call and was not before; block imports that fail for non-version reasons (a side block whose parent's state is not kept, the ucon-shaped engine's exist-canonical refusal of a forking header batch) are counted, not judged; the quick tier leaves out of the product: competing-branch shapes other than W* and N*, forged positions other than first-of-batch / first new / second new, a follower except behind a forged first-new header with no or the full overlap, two new honest headers except with no or the full overlap, verifier-admitted adversarial tuples except first in the batch or with the full overlap (thorough: the full product, ancestor heights 0 and 3, branches one block longer)")
	var names []string
	done := 0
	for _, p := range sets {
		if r.Expired() {
			break
		}
		p := p
		restore := p.install() // one table per set; sets run sequentially, workers only read it
		name := sysName(p)
		n := r.BFS(func() mc.System { return newSys(r, p, true) },
			mc.SeqOpts{Name: name, Config: p.String(), Depth: int(p.R())})
		r.ConfirmSeq(name, func() mc.System { return newSys(r, p, false) })
		restore()
		names = append(names, fmt.Sprintf("%s: R=%d states=%d", p, p.R(), n))
		if !r.Expired() {
			done++
		}
	}
	r.SetExtra("parameter_sets", names)
	r.SetExtra("parameter_sets_completed", done)
	r.SetExtra("parameter_sets_planned", len(sets))
	if done < len(sets) {
		r.Cap(fmt.Sprintf("only %d of %d parameter sets completed within the budget", done, len(sets)))
	}
}

// Replay re-executes a replay file without the explorer.
func Replay(r *mc.Run, v *mc.Violation) {
	if m, ok := v.Input.(map[string]interface{}); ok && m["part3"] == true {
		replayActiveVersion(r, v)
		return
	}
	if m, ok := v.Input.(map[string]interface{}); ok && m["part4"] == true {
		replayGate(r, v)
		return
	}
	if strings.HasPrefix(v.System, "worker-chain[") {
		replayWorkerChain(r, v)
		return
	}
	installCritHook()
	p, err := parsePSet(v.Config)
	if err != nil {
		fmt.Println("bad config in replay file:", err)
		return
	}
	restore := p.install()
	defer restore()
	s := newSys(r, p, false)
	s.Reset()
	fmt.Printf("params: %s\nround 0: {%s}\n", p, s.cur)
	for i, op := range v.Ops {
		ob := s.Apply(op)
		fmt.Printf("round %d: {%s}  VerifyYouVersionState: %s  [%s]\n", i+1, op, ob, s.lastTr)
		for _, x := range s.Check() {
			fmt.Printf("   VIOLATED: %s\n", x.Sig)
			if x.Sig == v.Sig {
				x.System, x.Ops = v.System, v.Ops
				r.Report(x)
			}
		}
		if s.dead {
			break
		}
	}
}
