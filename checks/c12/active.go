package c12

// Part 3: the node's ACTIVE-VERSION LOOKUP follows the canonical chain.
//
// The third mechanism of the property: the protocol parameters a node applies
// to round r are those of the version recorded in the CANONICAL header
// r - protocolRoundBack (core/protocol_version_processor.go, VersionForRound /
// VersionForRoundWithParents; asked by header verification, block execution,
// the block builder and every consensus message).  Parts 1 and 2 judge header
// chains; a node that answers VersionForRound from anything else than its
// current canonical chain (a number-keyed cache that survives a reorg, a value
// derived from the `parents` of a batch that was rejected, a guess for rounds
// whose look-back header does not exist) runs a version no canonical header
// announces, although every header it stores is legal.
//
// Explored, on the real chain of part 2 (chainx node: core.BlockChain, staking,
// version table 5 -> 6 -> 7): competing branches off a common ancestor, built
// with the part-2 machinery (W = the real miner worker, an approving proposer;
// N = an honest proposer that neither proposes nor approves), imported into ONE
// node in orders that cause the reorgs X->Y and X->Y->X, as whole InsertChain
// segments and block by block, with the plain engine (every block whose parent
// is known becomes head) and with the ucon-shaped engine (side-chain path: only
// a longer branch is adopted; its VerifyHeaders asks
// VersionForRoundWithParents(n, headers[:i]) like ucon's verifyHeader), plus the
// header-only entry point InsertHeaderChain with a version-legal batch that is
// rejected for its last seal, and with an accepted batch.
//
// Oracle, after EVERY insert (or only after the last one: then only the node's
// own lookups have run in between), for every round r in
// [0, head+protocolRoundBack+2], asked twice: bc.VersionForRound(r) answers with
// the version of the head's ancestor at height max(0, r-8), found by walking
// parent hashes from the head header through rawdb (never through the
// HeaderChain), which must also be what the rawdb canonical number marker names;
// no answer where no look-back header exists; a rejected batch changes no answer;
// and a second node that imported only the final canonical chain answers
// identically for every r whose look-back height is at or below the head.

import (
	"encoding/json"
	"fmt"
	"strings"
	"sync"
	"time"

	"github.com/youchainhq/go-youchain/common"
	"github.com/youchainhq/go-youchain/core/rawdb"
	"github.com/youchainhq/go-youchain/core/types"
	"github.com/youchainhq/go-youchain/params"

	"verif/checks/chainx"
	"verif/mc"
)

const roundBack = 8 // core.protocolRoundBack (unexported constant; the harness keeps its own copy)

// AVCase is the replayable input of part 3.
type AVCase struct {
	Part3  bool   `json:"part3"`
	Set    string `json:"set"`    // parameter set (PSet.String())
	Anc    int    `json:"anc"`    // height of the common ancestor (trunk of N blocks)
	X      string `json:"x"`      // shape of the branch inserted first (proposer c1)
	Y      string `json:"y"`      // shape of the competing branch (proposer s1)
	L      int    `json:"len"`    // X is inserted with L blocks, Y with L+1, then X is extended to L+2
	Ucon   bool   `json:"ucon"`   // importer with the ucon-shaped engine
	Single bool   `json:"single"` // block by block instead of whole segments
	Mode   string `json:"mode"`   // every | end2 | end3 | hdr-rejected | hdr-accepted
}

func (c AVCase) String() string {
	return fmt.Sprintf("[%s] ancestor %d, X=%s(%d) Y=%s(%d) then X+2, ucon=%v blockByBlock=%v mode=%s", c.Set, c.Anc, c.X, c.L, c.Y, c.L+1, c.Ucon, c.Single, c.Mode)
}

var avShapes = []string{"W*", "N*", "WN*", "NW*", "WWN*"}

func shapeOp(shape string, i int) byte {
	pre := strings.TrimSuffix(shape, "*")
	if i < len(pre) {
		return pre[i]
	}
	return pre[len(pre)-1]
}

// avWorld holds, for one installed parameter set, the ancestor nodes and the pre-built branches.
type avWorld struct {
	p        PSet
	pr       map[uint64]proto
	sRel     int // offset from the ancestor at which an all-W branch switches the version
	anc      map[int]*chainx.Node
	branches map[string][]*types.Block // "anc|shape|role"
}

func (w *avWorld) close() {
	for _, n := range w.anc {
		n.Close()
	}
}

func (p PSet) switchOffset() int {
	pr := p.protos()
	cur := hdr{Round: 0, CV: chainBase + 1}
	for i := 1; i < 64; i++ {
		nx := honest(pr, cur, true)
		if nx.CV != cur.CV {
			return i
		}
		cur = nx
	}
	return -1 // threshold above the window: an all-approving branch never switches
}

func avAncestors(quick bool) []int {
	if quick {
		return []int{0, 3}
	}
	return []int{0, 3, 9}
}

// buildBlock builds one block of kind op ('W' real worker, 'N' non-approving honest proposer) on n.
func buildBlock(pr map[uint64]proto, n *chainx.Node, op byte, cbName string) (*types.Block, error) {
	cb := chainx.Fix().Val(cbName).Main
	prev := tupleOf(n.Head().Header())
	if op == 'W' {
		wb, err := n.BuildWithWorker(cb, nil, true)
		if err != nil {
			return nil, err
		}
		if n.Head().Hash() != wb.Block.Hash() {
			return nil, fmt.Errorf("worker did not store its block")
		}
		return wb.Block, nil
	}
	want := honest(pr, prev, false)
	b, err := n.BuildWith(cb, nil, func(h *types.Header) {
		h.CurrVersion, h.NextVersion = params.YouVersion(want.CV), params.YouVersion(want.NV)
		h.NextApprovals, h.NextVoteBefore, h.NextSwitchOn = want.NA, want.VB, want.SO
	})
	if err != nil {
		return nil, err
	}
	return b.Block, nil
}

func newAVWorld(p PSet, ancs []int, maxLen int) (*avWorld, error) {
	w := &avWorld{p: p, pr: p.protos(), sRel: p.switchOffset(), anc: map[int]*chainx.Node{}, branches: map[string][]*types.Block{}}
	trunk := chainx.NewNode(chainx.Fix())
	defer trunk.Close()
	maxAnc := 0
	for _, a := range ancs {
		if a > maxAnc {
			maxAnc = a
		}
	}
	for h := 0; ; h++ {
		for _, a := range ancs {
			if a == h {
				w.anc[a] = trunk.Fork()
			}
		}
		if h == maxAnc {
			break
		}
		if _, err := buildBlock(w.pr, trunk, 'N', "c1"); err != nil {
			return nil, err
		}
	}
	for _, a := range ancs {
		for _, shape := range avShapes {
			for role, cb := range []string{"c1", "s1"} {
				n := w.anc[a].Fork()
				var blocks []*types.Block
				for i := 0; i < maxLen; i++ {
					b, err := buildBlock(w.pr, n, shapeOp(shape, i), cb)
					if err != nil {
						n.Close()
						return nil, fmt.Errorf("branch %s off %d: %v", shape, a, err)
					}
					blocks = append(blocks, b)
				}
				n.Close()
				w.branches[fmt.Sprintf("%d|%s|%d", a, shape, role)] = blocks
			}
		}
	}
	return w, nil
}

func (w *avWorld) branch(a int, shape string, role int) []*types.Block {
	return w.branches[fmt.Sprintf("%d|%s|%d", a, shape, role)]
}

// ---- the oracle -----------------------------------------------------------------

type avRun struct {
	r     *mc.Run
	c     AVCase
	count bool
	sigs  map[string]bool
}

func (a *avRun) cnt(name string, n int64) {
	if a.count {
		a.r.Count(name, n)
	}
}

func (a *avRun) viol(sig, detail string) {
	if a.sigs[sig] {
		return
	}
	a.sigs[sig] = true
	a.r.Report(mc.Violation{Sig: sig, Detail: detail + "\ncase: " + a.c.String(), Input: a.c})
}

// ancestry walks parent hashes from the head header through rawdb.
func ancestry(n *chainx.Node) []*types.Header {
	hh := rawdb.ReadHeadHeaderHash(n.DB)
	num := rawdb.ReadHeaderNumber(n.DB, hh)
	if num == nil {
		return nil
	}
	out := make([]*types.Header, *num+1)
	hash := hh
	for i := int64(*num); i >= 0; i-- {
		h := rawdb.ReadHeader(n.DB, hash, uint64(i))
		if h == nil {
			return nil
		}
		out[i] = h
		hash = h.ParentHash
	}
	return out
}

// answers asks VersionForRound for every round up to head+roundBack+2 (version, or 0 = error).
func answers(n *chainx.Node, upTo uint64) []uint64 {
	out := make([]uint64, upTo+1)
	for r := uint64(0); r <= upTo; r++ {
		if yp, err := n.BC.VersionForRound(r); err == nil && yp != nil {
			out[r] = uint64(yp.Version)
		}
	}
	return out
}

// check compares every lookup with the canonical chain as stored; event names what just happened.
func (a *avRun) check(n *chainx.Node, event string) {
	anc := ancestry(n)
	if anc == nil {
		a.r.HarnessError("c12 part 3: head header ancestry unreadable: " + a.c.String())
		return
	}
	head := uint64(len(anc) - 1)
	if cur := n.BC.CurrentHeader(); cur.Hash() != anc[head].Hash() {
		a.viol("the chain's current header is not the head header the database names", fmt.Sprintf("after %s: CurrentHeader #%v %s, database head header #%d %s", event, cur.Number, cur.Hash().Hex(), head, anc[head].Hash().Hex()))
	}
	for r := uint64(0); r <= head+roundBack+2; r++ {
		pr := uint64(0)
		if r > roundBack {
			pr = r - roundBack
		}
		var want *types.Header
		marker := rawdb.ReadCanonicalHash(n.DB, pr)
		if pr <= head {
			want = anc[pr]
			if marker != want.Hash() {
				a.viol("the canonical number marker of a height at or below the head does not name the head's ancestor",
					fmt.Sprintf("after %s: height %d: marker %s, ancestor of head #%d is %s", event, pr, marker.Hex(), head, want.Hash().Hex()))
			}
		} else if marker != (common.Hash{}) {
			// a number marker left above the head by a reorg to a shorter branch (the subject of C11, not judged here):
			// the lookup is only required to agree with what the database calls canonical
			want = rawdb.ReadHeader(n.DB, marker, pr)
			a.cnt("active_version_lookups_above_the_head_answered_from_a_leftover_number_marker(not_judged)", 1)
		}
		for ask := 0; ask < 2; ask++ {
			yp, err := n.BC.VersionForRound(r)
			a.cnt("active_version_lookups_compared", 1)
			again := ""
			if ask == 1 {
				again = " when asked again"
			}
			switch {
			case want == nil && err == nil:
				a.viol("VersionForRound answers for a round whose look-back header does not exist (after "+event+")",
					fmt.Sprintf("round %d (look-back height %d, head %d): version %d%s", r, pr, head, yp.Version, again))
			case want == nil:
				a.cnt("active_version_lookups_refused_for_lack_of_a_look_back_header", 1)
			case err != nil:
				a.viol("VersionForRound fails for a round whose canonical look-back header exists (after "+event+")",
					fmt.Sprintf("round %d (look-back height %d, head %d)%s: %v", r, pr, head, again, err))
			case uint64(yp.Version) != uint64(want.CurrVersion):
				a.viol("active version lookup does not follow the canonical chain: VersionForRound disagrees with the canonical look-back header (after "+event+")",
					fmt.Sprintf("round %d runs under version %d%s, but the canonical header at look-back height %d (%s) says %s; head #%d %s",
						r, yp.Version, again, pr, want.Hash().Hex()[:10], want.VersionStateString(), head, anc[head].VersionStateString()))
			default:
				if pr <= head {
					if want.CurrVersion != anc[0].CurrVersion {
						a.cnt("active_version_lookups_answered_with_an_upgraded_version", 1)
					}
				}
			}
		}
	}
}

// differential: a second node that imported only the final canonical chain answers identically.
func (a *avRun) differential(w *avWorld, n *chainx.Node, event string) {
	anc := ancestry(n)
	if anc == nil {
		return
	}
	head := uint64(len(anc) - 1)
	var blocks []*types.Block
	for i := a.c.Anc + 1; i <= int(head); i++ {
		b := rawdb.ReadBlock(n.DB, anc[i].Hash(), uint64(i))
		if b == nil {
			return // header-only head: nothing to import block-wise
		}
		blocks = append(blocks, b)
	}
	second := w.anc[a.c.Anc].Fork()
	defer second.Close()
	if len(blocks) > 0 {
		if err := second.Import(blocks...); err != nil || second.Head().Hash() != anc[head].Hash() {
			a.r.HarnessError(fmt.Sprintf("c12 part 3: the second node does not import the final canonical chain: %v (%s)", err, a.c))
			return
		}
	}
	first, other := answers(n, head+roundBack+2), answers(second, head+roundBack+2)
	for r := uint64(0); r <= head+roundBack; r++ { // look-back height <= head
		a.cnt("active_version_differential_lookups_compared", 1)
		if first[r] != other[r] {
			a.viol("two nodes with the same canonical chain run different protocol versions for the same round (after "+event+")",
				fmt.Sprintf("round %d: the node that went through the reorgs says %d, a node that imported only the final canonical chain says %d (0 = no answer); head #%d %s",
					r, first[r], other[r], head, anc[head].VersionStateString()))
			return
		}
	}
}

func versionsDiffer(x, y []*types.Header, from int) bool {
	for i := from; i < len(x) && i < len(y); i++ {
		if x[i].CurrVersion != y[i].CurrVersion {
			return true
		}
	}
	return false
}

func headersOf(bs []*types.Block) []*types.Header {
	out := make([]*types.Header, len(bs))
	for i, b := range bs {
		out[i] = b.Header()
	}
	return out
}

// insert offers blocks (whole or one by one), classifies what happened to the head and checks.
func (a *avRun) insert(n *chainx.Node, blocks []*types.Block, checkEach bool) {
	groups := [][]*types.Block{blocks}
	if a.c.Single {
		groups = nil
		for _, b := range blocks {
			groups = append(groups, []*types.Block{b})
		}
	}
	for _, g := range groups {
		before := ancestry(n)
		var err error
		msg, where := mc.CatchStack(func() { err = n.Import(g...) })
		if msg != "" {
			a.viol(fmt.Sprintf("import path panics while competing branches are imported at %s", where), msg)
			return
		}
		a.cnt("active_version_inserts", 1)
		after := ancestry(n)
		event := "an insert that left the head unchanged"
		switch {
		case before == nil || after == nil:
		case after[len(after)-1].Hash() == before[len(before)-1].Hash():
			a.cnt("active_version_inserts_head_unchanged", 1)
			if err != nil {
				a.cnt("active_version_inserts_refused", 1)
			}
		case len(after) > len(before) && after[len(before)-1].Hash() == before[len(before)-1].Hash():
			event = "an extension of the head"
			a.cnt("active_version_inserts_extending_the_head", 1)
		default:
			event = "a reorg"
			a.cnt("active_version_reorgs", 1)
			if a.c.Ucon {
				a.cnt("active_version_reorgs(ucon-shaped_engine,side-chain_path)", 1)
			}
			if versionsDiffer(before, after, a.c.Anc+1) {
				event = "a reorg across a switch round"
				a.cnt("active_version_reorgs_across_a_switch_round", 1)
			}
			if len(after) < len(before) {
				a.cnt("active_version_reorgs_to_a_shorter_branch(plain_engine)", 1)
			}
		}
		if checkEach {
			a.check(n, event)
		}
	}
}

func runAVCase(r *mc.Run, w *avWorld, c AVCase, count bool) {
	a := &avRun{r: r, c: c, count: count, sigs: map[string]bool{}}
	x, y := w.branch(c.Anc, c.X, 0), w.branch(c.Anc, c.Y, 1)
	var n *chainx.Node
	if c.Ucon {
		n = w.anc[c.Anc].ForkUcon()
		n.BC.Engine().(*chainx.StubUcon).VersionLookup = true
	} else {
		n = w.anc[c.Anc].Fork()
	}
	defer n.Close()
	a.cnt("active_version_cases", 1)
	switch c.Mode {
	case "hdr-rejected", "hdr-accepted":
		hs := headersOf(x[:c.L])
		if c.Mode == "hdr-rejected" {
			last := types.CopyHeader(hs[len(hs)-1])
			last.Extra = []byte{chainx.BadSealMark} // a seal the engine refuses; the version fields stay legal
			hs[len(hs)-1] = last
		}
		a.check(n, "nothing yet")
		head := uint64(c.Anc)
		before := answers(n, head+uint64(c.L)+roundBack+2)
		var err error
		msg, where := mc.CatchStack(func() { _, err = n.BC.InsertHeaderChain(hs) })
		if msg != "" {
			a.viol(fmt.Sprintf("header import panics at %s", where), msg)
			return
		}
		if c.Mode == "hdr-rejected" {
			if err == nil {
				a.r.HarnessError("c12 part 3: the header batch with a bad last seal was accepted: " + c.String())
				return
			}
			a.cnt("active_version_header_batches_rejected", 1)
			after := answers(n, head+uint64(c.L)+roundBack+2)
			for r := range before {
				if before[r] != after[r] {
					a.viol("a rejected header batch changed the node's active-version answers",
						fmt.Sprintf("round %d: %d before the batch, %d after it was rejected (%v); nothing of the batch was stored", r, before[r], after[r], err))
					break
				}
			}
			a.check(n, "a rejected header batch")
			a.insert(n, y[:c.L], true)
			a.check(n, "a rejected header batch and the import of the honest chain")
			a.differential(w, n, "a rejected header batch and the import of the honest chain")
			return
		}
		if err != nil {
			a.cnt("active_version_header_batches_refused", 1)
		} else {
			a.cnt("active_version_header_batches_accepted", 1)
		}
		a.check(n, "an accepted header batch")
		return
	}
	every := c.Mode == "every"
	a.insert(n, x[:c.L], every)
	a.insert(n, y[:c.L+1], every)
	if c.Mode != "end2" {
		a.insert(n, x[c.L:c.L+2], every)
	}
	if !every {
		a.check(n, "the last insert of the case")
	}
	a.differential(w, n, "the last insert of the case")
}

// ---- enumeration ------------------------------------------------------------------

func avSets(r *mc.Run) []PSet {
	var out []PSet
	for _, p := range workerSets(r) {
		if r.Quick() && !(p.Rounds == 1 || (p.Rounds == 2 && p.Thr == 2)) {
			continue // quick: the smallest set (threshold reached by the opening block) and one whose proposal can fail
		}
		if p.switchOffset() < 0 {
			continue // no branch of this set ever switches: nothing for the lookup to follow
		}
		out = append(out, p)
		if !r.Quick() && len(out) == 12 {
			break
		}
	}
	return out
}

func avCases(p PSet, quick bool) []AVCase {
	var out []AVCase
	s := p.switchOffset()
	for _, anc := range avAncestors(quick) {
		for _, x := range avShapes {
			for _, y := range avShapes {
				// short: the head passes the switch round, the blocks' own look-back does not; long: it does
				for _, l := range []int{s + 2, s + roundBack + 2} {
					for _, ucon := range []bool{false, true} {
						for _, single := range []bool{false, true} {
							for _, mode := range []string{"every", "end2", "end3"} {
								if mode != "every" && l == s+2 {
									continue // without lookups of the oracle in between, only blocks whose own look-back passes the switch round matter
								}
								out = append(out, AVCase{Part3: true, Set: p.String(), Anc: anc, X: x, Y: y, L: l, Ucon: ucon, Single: single, Mode: mode})
							}
						}
					}
				}
				for _, mode := range []string{"hdr-rejected", "hdr-accepted"} {
					out = append(out, AVCase{Part3: true, Set: p.String(), Anc: anc, X: x, Y: y, L: s + roundBack + 2, Ucon: true, Mode: mode})
				}
			}
		}
	}
	return out
}

func avMaxLen(p PSet) int { return p.switchOffset() + roundBack + 2 + 2 }

// runActiveVersion is part 3.
func runActiveVersion(r *mc.Run) {
	limit := 60 * time.Second
	if !r.Quick() {
		limit = 8 * time.Minute
	}
	start := time.Now()
	var names []string
	total, done := 0, 0
	sets := avSets(r)
	for _, p := range sets {
		if r.Expired() || time.Since(start) > limit {
			break
		}
		restore := p.installChain()
		w, err := newAVWorld(p, avAncestors(r.Quick()), avMaxLen(p))
		if err != nil {
			r.HarnessError("c12 part 3: branches can not be built: " + err.Error())
			restore()
			continue
		}
		cases := avCases(p, r.Quick())
		var mu sync.Mutex
		ran := 0
		r.ForEach(len(cases), func(_ int, i int) {
			if time.Since(start) > limit {
				return
			}
			runAVCase(r, w, cases[i], true)
			mu.Lock()
			ran++
			mu.Unlock()
		})
		w.close()
		restore()
		total += len(cases)
		names = append(names, fmt.Sprintf("%s: switch offset %d, branch lengths %d/%d, cases %d of %d", p, w.sRel, w.sRel+2, w.sRel+roundBack+2, ran, len(cases)))
		if ran == len(cases) {
			done++
		}
	}
	r.SetExtra("active_version_parameter_sets", names)
	r.SetExtra("active_version_cases_planned", total)
	if done < len(sets) {
		r.Cap(fmt.Sprintf("part 3 (active version lookup): only %d of %d parameter sets completed within its time cap", done, len(sets)))
	}
}

func replayActiveVersion(r *mc.Run, v *mc.Violation) {
	bs, _ := json.Marshal(v.Input)
	var c AVCase
	if err := json.Unmarshal(bs, &c); err != nil {
		fmt.Println("bad part 3 input:", err)
		return
	}
	p, err := parsePSet(c.Set)
	if err != nil {
		fmt.Println("bad parameter set in replay file:", err)
		return
	}
	restore := p.installChain()
	defer restore()
	w, err := newAVWorld(p, []int{c.Anc}, avMaxLen(p))
	if err != nil {
		fmt.Println("branches can not be built:", err)
		return
	}
	defer w.close()
	fmt.Println("case:", c.String())
	for i, blocks := range [][]*types.Block{w.branch(c.Anc, c.X, 0), w.branch(c.Anc, c.Y, 1)} {
		name := "XY"[i : i+1]
		var s []string
		for _, b := range blocks {
			s = append(s, fmt.Sprintf("%d{%s}", b.NumberU64(), tupleOf(b.Header())))
		}
		fmt.Printf("branch %s: %s\n", name, strings.Join(s, " "))
	}
	runAVCase(r, w, c, false)
}
