// Package c03: votes escalate and blocks commit only on a counted quorum.
//
// Part 1 (this file): every interleaving of step timers and incoming votes
// (valid, duplicate, equivocating, stale, future, wrong kind, invalid
// credential, house sender, spoofed sender) on the REAL ucon.Voter — the
// closed driver of checks/c02 without crashes — against a reference tally
// model that is recomputed from the op history only.
//
// Part 2 ("commit => the real header verifier accepts", real crypto) is
// supplied by another file through the Part2 variable.
//
// announced.go: every event the Voter posts is kept as the live object and
// re-read after every later op ("announced events are immutable"), and every
// announced commit is packed again late, as its consumer does.
package c03

import (
	"fmt"
	"os"
	"sort"
	"strings"
	"time"

	"github.com/youchainhq/go-youchain/common"
	"github.com/youchainhq/go-youchain/consensus/ucon"

	"verif/checks/c02"
	"verif/mc"
)

// Part2, when non-nil, is run by Run after part 1 (set it from an init() in
// another file of this package).  Part2Replay, when non-nil, gets the replay
// files whose system is not one of part 1's.
var (
	Part2       func(*mc.Run)
	Part2Replay func(*mc.Run, *mc.Violation)
)

const certRound = 32768

// quorum is the property's threshold: floor(0.685*T) for prevote / precommit /
// next-index votes, floor(0.585*T) for certificate votes (restated here on
// purpose: the reference must not share code with the implementation).
func quorum(T uint64, cert bool) uint32 {
	if cert {
		return uint32(float64(T) * 0.585)
	}
	return uint32(float64(T) * 0.685)
}

// ---- reference tally model ---------------------------------------------------------------

type ctxKey struct {
	round uint64
	index uint32
}

type refVote struct {
	first string // hash name
	equiv bool
}

type refCtx struct {
	// [0]=chamber, [1]=house; per kind (c02.StaIndex); sender name -> vote
	votes   [2][4]map[string]*refVote
	lagged  bool            // a vote of this context was counted through the 'old' path (no escalation check ran)
	reached map[string]bool // "<kind>/<hash>": the chamber tally was at or above its quorum at some earlier moment
}

type ref struct {
	ctxs    map[ctxKey]*refCtx
	visited []ctxKey // contexts the voter was put in, oldest first (the Voter caches 4)
}

func newRef() *ref { return &ref{ctxs: map[ctxKey]*refCtx{}} }

func (r *ref) ctx(k ctxKey) *refCtx {
	c := r.ctxs[k]
	if c == nil {
		c = &refCtx{reached: map[string]bool{}}
		for h := 0; h < 2; h++ {
			for i := 0; i < 4; i++ {
				c.votes[h][i] = map[string]*refVote{}
			}
		}
		r.ctxs[k] = c
	}
	return c
}

func (r *ref) enter(k ctxKey) {
	for _, v := range r.visited {
		if v == k {
			return
		}
	}
	r.visited = append(r.visited, k)
	if len(r.visited) > 4 { // params.MaxVoteCacheCount
		delete(r.ctxs, r.visited[0])
		r.visited = r.visited[1:]
	}
	r.ctx(k)
}

func (r *ref) cached(k ctxKey) bool {
	for _, v := range r.visited {
		if v == k {
			return true
		}
	}
	return false
}

// count records one VALID vote; result: new | exist | equivocation | double
func (r *ref) count(k ctxKey, house bool, kind ucon.VoteType, sender, hash string) string {
	h := 0
	if house {
		h = 1
	}
	m := r.ctx(k).votes[h][c02.StaIndex(kind)]
	rv := m[sender]
	switch {
	case rv == nil:
		m[sender] = &refVote{first: hash}
		return "new"
	case kind == ucon.NextIndex:
		return "exist" // only the first next-index vote of a sender is looked at
	case rv.equiv:
		return "double"
	case rv.first == hash:
		return "exist"
	}
	rv.equiv = true
	return "equivocation"
}

// ---- the system ---------------------------------------------------------------------------------

type Cfg struct {
	c02.Cfg
	Echo     bool              // own votes may be gossiped back to the node
	Post     bool              // after the scripted prelude the menu is the post-announcement alphabet (announced.go: postEnabled)
	Script   []string          // scripted prelude applied by Reset THROUGH the reference model (c02.Cfg.Prelude bypasses it)
	Variants []string          // adversarial delivery variants in the alphabet
	VarKinds []ucon.VoteType   // kinds the variants are generated for
	wname    map[string]uint32 // sender name -> weight
	house    map[string]bool   // sender name -> house kind
	bad      map[string]bool   // sender name -> credential does not verify
	qPos     uint32            // quorum for prevote/precommit/next
	qCert    uint32            // quorum for certificate votes
}

type Sys struct {
	*c02.Sys
	cfg *Cfg
	ref *ref
	r   *mc.Run

	ann      []*announced   // everything the Voter posted so far: live object + rendering (announced.go)
	inScript bool           // Reset is applying the scripted prelude
	preViols []mc.Violation // violations raised inside the scripted prelude: reported with the first explored op
}

func NewSys(r *mc.Run, cfg *Cfg) *Sys {
	cfg.PeersEquiv, cfg.NoGhost = true, true
	cfg.wname = map[string]uint32{"me": cfg.OwnWeight}
	cfg.house, cfg.bad = map[string]bool{}, map[string]bool{}
	for i, p := range cfg.Peers {
		n := fmt.Sprintf("p%d", i+1)
		cfg.wname[n], cfg.house[n], cfg.bad[n] = p.Weight, p.House, p.BadCred
	}
	cfg.qPos, cfg.qCert = quorum(cfg.T, false), quorum(cfg.Tc, true)
	s := &Sys{Sys: c02.NewSys(r, &cfg.Cfg), cfg: cfg, r: r}
	s.Sys.ExtEnabled = s.extEnabled
	s.Sys.ExtApply = s.extApply
	return s
}

func (s *Sys) Reset() {
	s.Sys.Reset()
	s.ref = newRef()
	s.ref.enter(s.cur())
	s.ann, s.preViols = nil, nil
	if len(s.cfg.Script) == 0 {
		return
	}
	// scripted prelude: ops of the GENERAL menu, applied through the reference model and every oracle
	s.inScript = true
	defer func() { s.inScript = false }()
	for _, op := range s.cfg.Script {
		ok := false
		for _, e := range s.Sys.Enabled() {
			ok = ok || e == op
		}
		if !ok {
			panic(fmt.Sprintf("c03 harness: scripted op %q not enabled (enabled: %v)", op, s.Sys.Enabled()))
		}
		s.Apply(op)
		nc := s.Sys.NoCount
		s.Sys.NoCount = true // the script's counters are not evidence of exploration
		vs := s.Sys.Check()
		s.Sys.NoCount = nc
		if len(vs) > 0 {
			for _, v := range vs {
				v.Detail = fmt.Sprintf("in the scripted prelude %v at op %q; %s", s.cfg.Script, op, v.Detail)
				s.preViols = append(s.preViols, v)
			}
			break
		}
	}
}

// Enabled: the driver's menu, or (systems with Post) the post-announcement alphabet.
func (s *Sys) Enabled() []string {
	if !s.cfg.Post || s.inScript {
		return s.Sys.Enabled()
	}
	if s.Sys.Dead() {
		return nil
	}
	return s.postEnabled()
}

func (s *Sys) cur() ctxKey { return ctxKey{s.Round, s.Index} }

func (s *Sys) isCert() bool { return s.Round%certRound == 0 }

// extEnabled adds the adversarial delivery variants:
//
//	oldidx    vote of (round, index-1) classified msgOldRoundIndex
//	oldround  vote of (round-1, 1) classified msgOldRound
//	future    vote of (round, index+1) classified msgFuture
//	aheadsame vote of (round, index+1) classified msgSame (the handler already moved on, the Voter has not)
//	lagold    vote of the CURRENT context classified msgOldRoundIndex (same skew, other direction)
//	claim     claimed weight = sortition weight + 1 (the credential does not verify for it)
//	spoof     outer message signed by another validator than the vote
//	wrongkind certificate vote in a round that has no certificate step
//	echo      the node's own vote of the current context gossiped back to it
func (s *Sys) extEnabled() []string {
	var ops []string
	if s.cfg.Echo {
		for _, k := range []ucon.VoteType{ucon.Prevote, ucon.Precommit, ucon.NextIndex, ucon.Certificate} {
			if m := s.Sys.OwnVoteInCurrent(k); m != nil {
				ops = append(ops, fmt.Sprintf("x:me:%s:%s:echo", c02.KName(k), c02.HName(m.BlockHash)))
			}
		}
	}
	for i := range s.cfg.Peers {
		if s.cfg.Peers[i].House || s.cfg.Peers[i].BadCred {
			continue
		}
		for _, v := range s.cfg.Variants {
			switch v {
			case "oldidx":
				if s.Index <= 1 {
					continue
				}
			case "oldround":
				if s.Round <= s.cfg.BaseRound {
					continue
				}
			case "wrongkind":
				if s.isCert() {
					continue
				}
				ops = append(ops, fmt.Sprintf("x:p%d:CT:A:wrongkind", i+1))
				continue
			}
			for _, k := range s.cfg.VarKinds {
				if k == ucon.Certificate && !s.isCert() {
					continue
				}
				ops = append(ops, fmt.Sprintf("x:p%d:%s:A:%s", i+1, c02.KName(k), v))
			}
		}
	}
	return ops
}

type delivery struct {
	peer    string
	kind    ucon.VoteType
	hash    string
	ctx     ctxKey
	status  uint8
	variant string
}

func (s *Sys) parse(op string) (d delivery, ok bool) {
	f := strings.Split(op, ":")
	if len(f) < 4 || (f[0] != "v" && f[0] != "x") {
		return d, false
	}
	d.peer, d.kind, d.hash, d.ctx, d.status, d.variant = f[1], c02.KindByName(f[2]), f[3], s.cur(), ucon.VerifC02MsgSame, "cur"
	if f[0] == "x" {
		d.variant = f[4]
		switch d.variant {
		case "oldidx":
			d.ctx.index--
			d.status = ucon.VerifC02MsgOldRoundIndex
		case "oldround":
			d.ctx = ctxKey{s.Round - 1, 1}
			d.status = ucon.VerifC02MsgOldRound
		case "future":
			d.ctx.index++
			d.status = ucon.VerifC02MsgFuture
		case "aheadsame":
			d.ctx.index++
		case "lagold":
			d.status = ucon.VerifC02MsgOldRoundIndex
		}
	}
	return d, true
}

func (s *Sys) extApply(op string) (string, bool) {
	if !strings.HasPrefix(op, "x:") {
		return "", false
	}
	d, _ := s.parse(op)
	if d.variant == "echo" {
		err, bad := s.Sys.DeliverEcho(d.kind)
		return s.Sys.ObsWith(c02.ResStr(err, bad)), true
	}
	var pi int
	fmt.Sscanf(d.peer, "p%d", &pi)
	vs := c02.VoteSpec{Peer: pi - 1, Kind: d.kind, Hash: d.hash, Round: d.ctx.round, Index: d.ctx.index, Status: d.status}
	switch d.variant {
	case "claim":
		vs.Claim = s.cfg.Peers[pi-1].Weight + 1
	case "spoof":
		vs.Sender = pi%len(s.cfg.Peers) + 1
	}
	err, bad := s.Sys.Deliver(vs)
	return s.Sys.ObsWith(c02.ResStr(err, bad)), true
}

// Apply = the real step, then the reference model and the oracles.
func (s *Sys) Apply(op string) string {
	pre := s.Sys.Dump()
	ob := s.Sys.Apply(op)
	if !s.inScript && len(s.preViols) > 0 {
		for _, v := range s.preViols {
			s.Sys.AddViolation(v)
		}
		s.preViols = nil
	}
	if s.Sys.Dead() {
		return ob
	}
	s.after(op, ob, pre)
	s.recheckAnnounced(op) // every EARLIER announcement, read again through its live object
	s.noteAnnounced()      // what this op announced
	return ob
}

func (s *Sys) viol(sig, detail string) {
	s.Sys.AddViolation(mc.Violation{Sig: sig, Detail: detail})
}

func (s *Sys) tally(k ctxKey, house bool, kind ucon.VoteType, hash string) (uint32, map[string]uint32) {
	c := s.ref.ctxs[k]
	set := map[string]uint32{}
	if c == nil {
		return 0, set
	}
	h := 0
	if house {
		h = 1
	}
	var sum uint32
	for snd, rv := range c.votes[h][c02.StaIndex(kind)] {
		if rv.first == hash && !rv.equiv {
			sum += s.cfg.wname[snd]
			set[snd] = s.cfg.wname[snd]
		}
	}
	return sum, set
}

// notePeak remembers that the chamber tally of (kind, hash) is at its quorum now.
func (s *Sys) notePeak(k ctxKey, kind ucon.VoteType, hash string) {
	q := s.cfg.qPos
	if kind == ucon.Certificate {
		q = s.cfg.qCert
	}
	if n, _ := s.tally(k, false, kind, hash); n >= q {
		s.ref.ctx(k).reached[c02.KName(kind)+"/"+hash] = true
	}
}

// equivWeight: weight of senders that named hash first and equivocated later.
func (s *Sys) equivWeight(k ctxKey, house bool, kind ucon.VoteType, hash string) uint32 {
	c := s.ref.ctxs[k]
	if c == nil {
		return 0
	}
	h := 0
	if house {
		h = 1
	}
	var sum uint32
	for snd, rv := range c.votes[h][c02.StaIndex(kind)] {
		if rv.first == hash && rv.equiv {
			sum += s.cfg.wname[snd]
		}
	}
	return sum
}

type expect struct {
	what  string // vote kind name or COMMIT / CHANGE
	hash  string
	why   string
	exact bool
}

func (s *Sys) after(op, ob string, pre *ucon.VerifC02Dump) {
	cur := s.cur()
	// context ops
	switch {
	case op == "next" || op == "round":
		s.ref.enter(cur)
	}
	precommitted, committed, certificated, sentChange := pre.Precommitted, pre.Committed, pre.Certificated, pre.SentChange
	if op == "next" || op == "round" {
		precommitted, committed, certificated, sentChange = false, false, false, false
	}
	var pending []expect
	// trigger: what a newly counted vote of (kind, hash) in the current context must cause
	trigger := func(kind ucon.VoteType, hash string, why string) {
		if s.ref.ctx(cur).lagged || committed {
			return
		}
		switch kind {
		case ucon.Prevote:
			n, _ := s.tally(cur, false, ucon.Prevote, hash)
			if n >= s.cfg.qPos && !precommitted {
				pending = append(pending, expect{"PC", hash, why, n == s.cfg.qPos})
			} else if n+1 == s.cfg.qPos {
				s.Sys.Count("counted_prevote_leaves_weight_one_below_quorum")
			}
		case ucon.Precommit:
			n, _ := s.tally(cur, false, ucon.Precommit, hash)
			if n+1 == s.cfg.qPos {
				s.Sys.Count("counted_precommit_leaves_weight_one_below_quorum")
			}
			if n < s.cfg.qPos {
				return
			}
			inCache := hash == "A" || (hash == "B" && !s.cfg.MissingB)
			switch {
			case !s.isCert():
				if inCache {
					pending = append(pending, expect{"COMMIT", hash, why, n == s.cfg.qPos})
				}
			case !certificated:
				pending = append(pending, expect{"CT", hash, why, n == s.cfg.qPos})
			}
		case ucon.NextIndex:
			if n, _ := s.tally(cur, false, ucon.NextIndex, hash); n >= s.cfg.qPos && !sentChange {
				pending = append(pending, expect{"CHANGE", hash, why, n == s.cfg.qPos})
			}
		}
	}
	satisfied := func(what, hash string) {
		for i, e := range pending {
			if e.what == what && e.hash == hash {
				pending = append(pending[:i], pending[i+1:]...)
				return
			}
		}
	}

	// 1. the delivered vote
	if d, ok := s.parse(op); ok {
		valid := !s.cfg.bad[d.peer] && d.variant != "claim" && d.variant != "spoof" && !(d.kind == ucon.Certificate && d.ctx.round%certRound != 0)
		rejected := strings.HasPrefix(ob, "rejected")
		switch {
		case valid && rejected:
			s.viol("valid vote rejected as invalid (variant "+d.variant+")", fmt.Sprintf("%s -> %s", op, ob))
		case !valid && !rejected:
			s.viol("vote with an invalid "+invalidWhat(d, s.cfg.bad[d.peer])+" was not rejected", fmt.Sprintf("%s -> %s", op, ob))
		case !valid:
			s.Sys.Count("rejected_" + invalidWhat(d, s.cfg.bad[d.peer]))
		}
		if valid {
			counted := false
			switch d.variant {
			case "cur", "echo":
				counted = true
			case "oldidx", "oldround", "lagold":
				// old votes are only looked at for precommits of a still cached context
				counted = d.kind == ucon.Precommit && s.ref.cached(d.ctx)
			}
			if !counted {
				s.Sys.Count("valid_but_not_counted_" + d.variant)
			} else {
				res := s.ref.count(d.ctx, s.cfg.house[d.peer], d.kind, d.peer, d.hash)
				s.Sys.Count("delivery_" + res)
				if !s.cfg.house[d.peer] {
					s.notePeak(d.ctx, d.kind, d.hash)
				}
				if d.variant == "echo" {
					s.Sys.Count("own_vote_echoed_back")
				} else if d.variant != "cur" {
					s.ref.ctx(d.ctx).lagged = true
					s.Sys.Count("counted_through_old_path")
				} else if res == "new" && !s.cfg.house[d.peer] {
					trigger(d.kind, d.hash, op)
				}
				if s.cfg.house[d.peer] {
					s.Sys.Count("house_votes_counted_apart")
				}
			}
		}
	}

	// 2. everything the Voter posted, in call order
	for _, p := range s.Sys.Posts() {
		k := ctxKey{p.Round, p.Index}
		hn := c02.HName(p.Hash)
		switch p.What {
		case "vote":
			if k != cur {
				s.viol("own vote emitted for another (round,index) than the current one", p.String())
			}
			switch p.Kind {
			case ucon.Precommit:
				n, _ := s.tally(k, false, ucon.Prevote, hn)
				s.escalation(n, s.cfg.qPos, k, ucon.Prevote, hn, "precommit emitted", p.String())
				precommitted = true
				satisfied("PC", hn)
			case ucon.Certificate:
				n, _ := s.tally(k, false, ucon.Precommit, hn)
				s.escalation(n, s.cfg.qPos, k, ucon.Precommit, hn, "certificate vote emitted", p.String())
				certificated = true
				satisfied("CT", hn)
				if !s.isCert() {
					s.viol("certificate vote emitted in a round without certificate step", p.String())
				}
			}
			if p.Weight != s.cfg.OwnWeight {
				s.viol("own vote carries a weight other than the node's sortition weight", fmt.Sprintf("%s weight %d", p, p.Weight))
			}
			res := s.ref.count(k, false, p.Kind, "me", hn)
			s.notePeak(k, p.Kind, hn)
			if res == "new" {
				trigger(p.Kind, hn, "own "+p.String())
			}
		case "commit":
			n, set := s.tally(k, false, ucon.Precommit, hn)
			s.escalation(n, s.cfg.qPos, k, ucon.Precommit, hn, "commit announced", p.String())
			s.sameSet("commit: attached chamber precommits", p.Commit.ChamberPrecommits, set, p.String())
			_, hset := s.tally(k, true, ucon.Precommit, hn)
			s.sameSet("commit: attached house precommits", p.Commit.HousePrecommits, hset, p.String())
			if s.isCert() {
				cn, cset := s.tally(k, false, ucon.Certificate, hn)
				s.escalationKind(cn, s.cfg.qCert, k, ucon.Certificate, hn, "commit announced", p.String(), "certificate")
				s.sameSet("commit: attached certificate votes", p.Commit.ChamberCerts, cset, p.String())
			} else if len(p.Commit.ChamberCerts) != 0 {
				s.viol("commit of a non-certificate round carries certificate votes", p.String())
			}
			if committed {
				s.viol("second commit announced in one (round,index)", p.String())
			}
			committed = true
			satisfied("COMMIT", hn)
			s.Sys.Count("commits_checked")
		case "change":
			n, _ := s.tally(k, false, ucon.NextIndex, hn)
			s.escalation(n, s.cfg.qPos, k, ucon.NextIndex, hn, "round-index change announced", p.String())
			sentChange = true
			satisfied("CHANGE", hn)
		case "update":
			_, set := s.tally(k, false, ucon.Precommit, hn)
			s.sameSet("header update: attached chamber precommits", p.Update.ChamberPrecommits, set, p.String())
			_, hset := s.tally(k, true, ucon.Precommit, hn)
			s.sameSet("header update: attached house precommits", p.Update.HousePrecommits, hset, p.String())
			s.Sys.Count("header_updates_checked")
		}
	}
	for _, e := range pending {
		b := "above"
		if e.exact {
			b = "exactly"
		}
		s.viol(fmt.Sprintf("counted quorum did not escalate: no %s although the counted weight reached the quorum %s", e.what, b),
			fmt.Sprintf("after %s the reference counts a quorum for %s but the step posted only [%s]", e.why, e.hash, ob))
	}

	// 3. the tallies the Voter holds must be the reference tallies
	s.compareTallies()
}

func invalidWhat(d delivery, badCred bool) string {
	switch {
	case d.variant == "claim":
		return "weight claim"
	case d.variant == "spoof":
		return "sender (outer signer differs from vote signer)"
	case badCred:
		return "credential"
	}
	return "kind (certificate vote outside a certificate round)"
}

func (s *Sys) escalation(n, q uint32, k ctxKey, kind ucon.VoteType, hash, what, detail string) {
	s.escalationKind(n, q, k, kind, hash, what, detail, c02.KLong(kind))
}

// escalationKind checks "escalates only on a counted quorum" and names why the
// implementation may have believed otherwise.
func (s *Sys) escalationKind(n, q uint32, k ctxKey, kind ucon.VoteType, hash, what, detail, kname string) {
	if n >= q {
		if n == q {
			s.Sys.Count("escalations_at_exact_quorum")
		} else {
			s.Sys.Count("escalations_above_quorum")
		}
		return
	}
	why := "counted weight below the quorum"
	if s.ref.ctx(k).reached[c02.KName(kind)+"/"+hash] {
		why = "the quorum was reached earlier and lost again when a sender was detected voting for two blocks (latched quorum status not re-checked)"
	} else if ew := s.equivWeight(k, false, kind, hash); ew > 0 && n+ew >= q {
		why = "quorum only with the weight of a sender that voted for two blocks (equivocator weight counted)"
	} else if _, own := s.ref.ctx(k).votes[0][c02.StaIndex(kind)]["me"]; own && n+s.cfg.OwnWeight >= q {
		why = "quorum only if the node's own vote is counted twice"
	} else if n+1 == q {
		why = "counted weight one below the quorum"
	}
	s.viol(fmt.Sprintf("%s without a counted %s quorum: %s", what, kname, why),
		fmt.Sprintf("%s: reference counts %d for %s (quorum %d) in %d.%d", detail, n, hash, q, k.round, k.index))
}

func (s *Sys) sameSet(what string, got ucon.VotesInfoForBlockHash, want map[string]uint32, detail string) {
	g := map[string]uint32{}
	for a, v := range got {
		g[c02.AName(a)] = v.Votes
	}
	if fmtSet(g) != fmtSet(want) {
		s.viol(what+" differ from the counted set", fmt.Sprintf("%s: attached %s, reference %s", detail, fmtSet(g), fmtSet(want)))
	}
}

func fmtSet(m map[string]uint32) string {
	var ks []string
	for k, v := range m {
		ks = append(ks, fmt.Sprintf("%s:%d", k, v))
	}
	sort.Strings(ks)
	return strings.Join(ks, ",")
}

func (s *Sys) compareTallies() {
	d := s.Sys.Dump()
	for wi := range d.Wrappers {
		wr := &d.Wrappers[wi]
		k := ctxKey{wr.CtxRound, wr.CtxIndex}
		for hi, m := range []*ucon.VerifC02Mgr{&wr.Chamber, &wr.House} {
			for ki, kind := range []ucon.VoteType{ucon.Prevote, ucon.Precommit, ucon.NextIndex, ucon.Certificate} {
				st := &m.Sta[ki]
				hashes := map[string]bool{}
				for h := range st.Counts {
					hashes[c02.HName(h)] = true
				}
				if c := s.ref.ctxs[k]; c != nil {
					for _, rv := range c.votes[hi][ki] {
						hashes[rv.first] = true
					}
				}
				for hn := range hashes {
					want, wset := s.tally(k, hi == 1, kind, hn)
					got := st.Counts[c02.Hash(hn)]
					if _, known := map[string]bool{"A": true, "B": true, "-": true}[hn]; !known {
						got = 0
						for h, c := range st.Counts {
							if c02.HName(h) == hn {
								got = c
							}
						}
					}
					if got != want {
						why := "other"
						switch {
						case got == want+s.equivWeight(k, hi == 1, kind, hn) && got > want:
							why = "the weight of a sender that voted for two blocks is still counted"
						case got == want+s.cfg.OwnWeight:
							why = "one own-vote weight too many"
						case got > want:
							why = "higher"
						default:
							why = "lower"
						}
						s.viol(fmt.Sprintf("%s tally differs from the reference tally: %s", c02.KLong(kind), why),
							fmt.Sprintf("%d.%d house=%v %s(%s): voter counts %d, reference %d %s", k.round, k.index, hi == 1, c02.KName(kind), hn, got, want, fmtSet(wset)))
						continue
					}
					gset := map[string]uint32{}
					for a, wgt := range st.Info[c02.Hash(hn)] {
						gset[c02.AName(a)] = wgt
					}
					if fmtSet(gset) != fmtSet(wset) {
						s.viol(fmt.Sprintf("%s vote set differs from the reference set", c02.KLong(kind)),
							fmt.Sprintf("%d.%d house=%v %s(%s): voter holds %s, reference %s", k.round, k.index, hi == 1, c02.KName(kind), hn, fmtSet(gset), fmtSet(wset)))
					}
				}
			}
		}
	}
	s.Sys.Count("tally_comparisons")
}

// Key = the driver's key (all Voter / tally state) plus the reference model.
func (s *Sys) Key() string { return c02.HashKey(s.KeyString()) }

func (s *Sys) KeyString() string {
	if s.Sys.Dead() {
		return s.Sys.KeyString()
	}
	var b strings.Builder
	b.WriteString(s.Sys.KeyString())
	b.WriteString("|REF")
	var ks []ctxKey
	for k := range s.ref.ctxs {
		ks = append(ks, k)
	}
	sort.Slice(ks, func(i, j int) bool {
		return ks[i].round < ks[j].round || (ks[i].round == ks[j].round && ks[i].index < ks[j].index)
	})
	// senders enter through class + sorted profile only (peer symmetry, as in the driver's key)
	prof := map[string]*strings.Builder{}
	for ci, k := range ks {
		c := s.ref.ctxs[k]
		if c.lagged {
			fmt.Fprintf(&b, " L%d", ci)
		}
		var rs []string
		for x := range c.reached {
			rs = append(rs, x)
		}
		sort.Strings(rs)
		fmt.Fprintf(&b, " Q%d[%s]", ci, strings.Join(rs, ","))
		for h := 0; h < 2; h++ {
			for ki := 0; ki < 4; ki++ {
				for snd, rv := range c.votes[h][ki] {
					pb := prof[snd]
					if pb == nil {
						pb = &strings.Builder{}
						prof[snd] = pb
					}
					e := ""
					if rv.equiv {
						e = "!"
					}
					fmt.Fprintf(pb, "%d.%d.%d:%s%s;", ci, h, ki, rv.first, e)
				}
			}
		}
	}
	var ps []string
	for snd, pb := range prof {
		cl := snd
		if snd != "me" {
			cl = fmt.Sprintf("w%d%v", s.cfg.wname[snd], s.cfg.house[snd])
		}
		// profiles are written in map order: sort their entries
		ents := strings.Split(strings.TrimSuffix(pb.String(), ";"), ";")
		sort.Strings(ents)
		ps = append(ps, cl+"="+strings.Join(ents, ";"))
	}
	sort.Strings(ps)
	b.WriteString(" " + strings.Join(ps, " "))
	b.WriteString("|ANN " + s.annKey())
	return b.String()
}

// ---- plans ----------------------------------------------------------------------------------------------

type plan struct {
	cfg   Cfg
	depth int
	dfs   bool // every op sequence up to depth, no state merging (the post-announcement systems)
}

func peers(ws ...uint32) []c02.PeerCfg {
	var out []c02.PeerCfg
	for _, x := range ws {
		out = append(out, c02.PeerCfg{Weight: x})
	}
	return out
}

var (
	pv = ucon.Prevote
	pc = ucon.Precommit
	nx = ucon.NextIndex
	ct = ucon.Certificate
)

// plans: peers with weights {1,1,2}, own weight 1.  T=3 -> quorum 2 (hit
// exactly by {2}, {1,1}, {own,1}); T=6 -> quorum 4 (hit exactly by {1,1,2} and
// {own,1,2}; {own,1,1} and {1,2} stop one short); T=4 -> quorum 2 again
// (thorough).  Certificate quorum: Tc=4 -> 2, Tc=6 -> 3.
func plans(quick bool) []plan {
	base := c02.Cfg{BaseRound: 1000, Rounds: 1, MaxIndex: 2, OwnWeight: 1, T: 3, Tc: 4,
		NextHashes: []string{"-", "A"}, MaxSel: []string{"A", "-"}, Peers: peers(1, 1, 2)}
	mk := func(name string, f func(*Cfg)) Cfg {
		c := Cfg{Cfg: base, Echo: true}
		c.Name = name
		f(&c)
		return c
	}
	escT3 := mk("esc-T3", func(c *Cfg) { c.Kinds = []ucon.VoteType{pv, pc} })
	escT6 := mk("esc-T6", func(c *Cfg) { c.Kinds = []ucon.VoteType{pv, pc}; c.T = 6; c.MaxIndex = 1 })
	certT3 := mk("cert-T3", func(c *Cfg) {
		c.Kinds = []ucon.VoteType{pc, ct}
		c.BaseRound, c.MaxIndex = certRound, 1
	})
	next := mk("next-T3", func(c *Cfg) { c.Kinds = []ucon.VoteType{nx, pc}; c.NextHashes = []string{"-", "A", "B"} })
	adv := mk("adversarial-T3", func(c *Cfg) {
		c.Peers = []c02.PeerCfg{{Weight: 1}, {Weight: 2}, {Weight: 2, House: true}, {Weight: 2, BadCred: true}}
		c.Kinds = []ucon.VoteType{pv, pc}
		c.Rounds, c.MaxIndex = 2, 2
		c.MaxSel = []string{"A"}
		c.Variants = []string{"oldidx", "oldround", "future", "aheadsame", "lagold", "claim", "spoof", "wrongkind"}
		c.VarKinds = []ucon.VoteType{pc}
	})
	// post-announcement systems (announced.go): a scripted prelude reaches an announcement, then EVERY sequence over
	// the votes that can touch the announced sets (both blocks, current and old context), next index, new round
	post := func(name string, script []string, f func(*Cfg)) Cfg {
		c := mk(name, func(c *Cfg) {
			c.Kinds = []ucon.VoteType{pv, pc}
			c.Rounds, c.MaxIndex = 2, 2
			c.MaxSel = []string{"A"}
			c.Post, c.Script = true, script
			if f != nil {
				f(c)
			}
		})
		return c
	}
	// commit exactly at the quorum (T=3, q=2) on the precommits of p1, p2 (weight 1 each)
	afterCommit := post("after-commit-T3", []string{"v:p1:PC:A", "v:p2:PC:A"}, nil)
	// T=6, q=4: own prevote + p1 + p3 = 4 -> own precommit; own + p1 + p3 precommits = 4 -> commit exactly at the quorum, own vote attached
	afterCommitOwn := post("after-commit-own-vote-T6", []string{"step2:A", "v:p1:PV:A", "v:p3:PV:A", "v:p1:PC:A", "v:p3:PC:A"}, func(c *Cfg) { c.T = 6 })
	// certificate round: precommits of p1, p2 (quorum 2) -> own certificate vote; p1's certificate vote -> certificate quorum 2 -> commit
	afterCert := post("after-commit-cert-T3", []string{"v:p1:PC:A", "v:p2:PC:A", "v:p1:CT:A"}, func(c *Cfg) {
		c.Kinds = []ucon.VoteType{pc, ct}
		c.BaseRound, c.Rounds = certRound, 1
	})
	// commit, a late precommit (pending header update), next index: the UpdateExistedHeaderEvent of index 1 is posted
	afterUpdate := post("after-header-update-T3", []string{"v:p1:PC:A", "v:p2:PC:A", "v:p3:PC:A", "next"}, nil)
	posts := func(d int) []plan {
		return []plan{{afterCommit, d, true}, {afterCommitOwn, d, true}, {afterCert, d, true}, {afterUpdate, d, true}}
	}
	if quick {
		nextq := next
		nextq.Kinds = []ucon.VoteType{nx}
		// cheapest first: what a system does not use of its share goes to the later ones
		// certificate round over TWO round indexes: a quorum status latched in index 1 must not survive into index 2
		certIdx2 := certT3
		certIdx2.Name, certIdx2.MaxIndex = "cert-idx2-T3", 2
		return append(posts(3), []plan{{cfg: nextq, depth: 5}, {cfg: adv, depth: 4}, {cfg: escT3, depth: 5}, {cfg: certIdx2, depth: 5}, {cfg: certT3, depth: 6}, {cfg: escT6, depth: 7}}...)
	}
	t := func(c Cfg, name string, f func(*Cfg)) Cfg { f(&c); c.Name = name; return c }
	return append(posts(4), []plan{
		{cfg: mk("esc-bls-T3", func(c *Cfg) { c.Kinds = []ucon.VoteType{pv, pc}; c.BLS = true; c.MaxIndex = 1 }), depth: 4},
		{cfg: next, depth: 6},
		{cfg: t(adv, "adversarial-all-kinds-T3", func(c *Cfg) { c.VarKinds = []ucon.VoteType{pv, pc} }), depth: 5},
		{cfg: t(escT3, "esc-T4", func(c *Cfg) { c.T = 4 }), depth: 6},
		{cfg: t(certT3, "cert-T6", func(c *Cfg) { c.T, c.Tc = 6, 6 }), depth: 7},
		{cfg: t(certT3, "cert-prevotes-T3", func(c *Cfg) { c.Kinds = []ucon.VoteType{pv, pc, ct}; c.MaxIndex = 2 }), depth: 6},
		{cfg: escT6, depth: 9},
		{cfg: escT3, depth: 7},
	}...)
}

func planByName(name string) *plan {
	for _, q := range []bool{true, false} {
		for _, p := range plans(q) {
			if p.cfg.Name == name {
				pp := p
				return &pp
			}
		}
	}
	return nil
}

// Run is the check entry point.
func Run(r *mc.Run) {
	r.Level = "model_checking"
	r.Rule = "BFS over the reachable states of the real ucon.Voter driven through updateContext / processVoteMsg (one handler call = one atomic step): step timers in timer order, any vote of any peer (weights 1,1,2; repeated = duplicate, other block = equivocation), adversarial deliveries (stale index/round, future, handler/voter context skew, over-claimed weight, spoofed sender, invalid credential, house sender, certificate vote outside a certificate round), next index / new round; oracle = reference tally recomputed from the op history (first vote per distinct valid chamber sender, equivocators weigh 0, own vote once) checked against every own precommit / certificate vote / CommitEvent / RoundIndexChangeEvent, against the vote sets attached to commits, and against the Voter's own tallies in every state; states merged on a canonical key of all Voter and tally fields plus the reference model plus the vote sets of every CommitEvent / UpdateExistedHeaderEvent announced so far; distinct = distinct keys || ANNOUNCED EVENTS (announced.go; the consumer of a posted event runs later, on another goroutine): every event the Voter posts (CommitEvent, UpdateExistedHeaderEvent, RoundIndexChangeEvent, SendMessageEvent, double-vote Evidence) is kept as the LIVE object handed to the mux and rendered completely (round, index, block, every attached vote with index, weight, signature, proof) at the announcement; after EVERY later op of the execution it is rendered again and must read the same, and every announced CommitEvent is packed again from the live object through the real Voter.PackVotes (Server.commit's packing statement) and counted like consensus.go:verifyVotes (signer recovered from the vote signature over hash|round|index, distinct entitled chamber members with verifying credentials, claimed weight = sortition weight): the quorum it was announced on must still be there (certificate rounds: both lists); systems after-*: DFS over EVERY op sequence (no state merging; quick depth 3, thorough 4) that follows a scripted prelude reaching an announcement — commit exactly at the quorum by p1+p2 (T=3), commit exactly at the quorum with the node's own precommit attached (T=6), certificate-round commit (precommits p1+p2, certificate votes own+p1), commit + late precommit + next index (UpdateExistedHeaderEvent posted) — over the post-announcement alphabet: precommits (certificate rounds: and certificate votes) of every entitled peer for BOTH blocks in the current context, the same precommits for the previous round index / previous round through the old-message path, the node's own vote gossiped back, next index, new round"
	total := 160 * time.Second
	if !r.Quick() {
		total = 24 * time.Minute
	}
	r.Assume("credentials are stubbed: a vote's credential verifies iff its claimed weight is the sender's configured sortition weight (real VRF credentials are property C04)")
	r.Assume("step timers arrive in timer order; steps 1 and 3 are folded into 0 and 2 (see C02)")
	r.Assume("an event counts as announced once it was handed to the event mux (AsyncPost); its payload is rendered at the end of the handler call that posted it (the harness consumes posts synchronously) and compared after every later handler call; votes attached to an event are compared by value (the Voter and the event share the *SingleVote objects by design: changing one in place is a change of the announced event)")
	r.Assume("the completeness oracle ('a counted quorum does escalate') is not evaluated in a context where a vote was counted through the msgOld path, which by design skips the escalation check")
	ps := plans(r.Quick())
	depths := map[string]int{}
	for i, p := range ps {
		p := p
		if only := os.Getenv("VERIF_C03_ONLY"); only != "" && only != p.cfg.Name {
			continue
		}
		if d := os.Getenv("VERIF_C03_DEPTH"); d != "" {
			fmt.Sscan(d, &p.depth)
		}
		r.SetBudget(time.Since(r.Start) + (total-time.Since(r.Start))/time.Duration(len(ps)-i))
		depths[p.cfg.Name] = p.depth
		f := func() mc.System { c := p.cfg; return NewSys(r, &c) }
		if p.dfs {
			before := r.Executions
			r.DFSAll(f, mc.SeqOpts{Name: p.cfg.Name, Depth: p.depth, ShardDepth: 1})
			r.SetExtra(p.cfg.Name+"_sequences", r.Executions-before)
			r.SetExtra(p.cfg.Name+"_script", strings.Join(p.cfg.Script, " ; "))
			r.SetExtra(p.cfg.Name+"_quorums", fmt.Sprintf("T=%d q=%d Tc=%d qc=%d", p.cfg.T, quorum(p.cfg.T, false), p.cfg.Tc, quorum(p.cfg.Tc, true)))
			r.ConfirmSeq(p.cfg.Name, func() mc.System { c := p.cfg; s := NewSys(r, &c); s.Sys.NoCount = true; return s })
			continue
		}
		n := r.BFS(f, mc.SeqOpts{Name: p.cfg.Name, Depth: p.depth, MaxStates: 2500000})
		r.SetExtra(p.cfg.Name+"_states", n)
		r.SetExtra(p.cfg.Name+"_quorums", fmt.Sprintf("T=%d q=%d Tc=%d qc=%d", p.cfg.T, quorum(p.cfg.T, false), p.cfg.Tc, quorum(p.cfg.Tc, true)))
		r.ConfirmSeq(p.cfg.Name, func() mc.System { c := p.cfg; s := NewSys(r, &c); s.Sys.NoCount = true; return s })
	}
	r.SetExtra("depth_per_system", depths)
	if Part2 != nil {
		p2 := total / 4
		if r.Quick() {
			p2 += 50 * time.Second // the borrowed-signature scenarios of forge.go
		} else {
			p2 += 90 * time.Second
		}
		end := time.Since(r.Start) + p2
		if whole := 29 * time.Minute; !r.Quick() && end < whole {
			end = whole // part 1 did not use its share (state caps reached early): part 2 may use the rest of the tier's half hour
		}
		r.SetBudget(end)
		Part2(r)
	}
}

// Replay re-executes a replay file without the explorer.
func Replay(r *mc.Run, v *mc.Violation) {
	p := planByName(v.System)
	if p == nil {
		if Part2Replay != nil {
			Part2Replay(r, v)
			return
		}
		fmt.Println("unknown system", v.System)
		return
	}
	c := p.cfg
	if len(c.Script) > 0 {
		fmt.Printf("  scripted prelude of system %s (applied by Reset): %s\n", c.Name, strings.Join(c.Script, " ; "))
	}
	obs, viols, err := mc.ReplaySeq(NewSys(r, &c), v.Ops)
	for i, op := range v.Ops {
		o := ""
		if i < len(obs) {
			o = obs[i]
		}
		fmt.Printf("  %2d %-22s -> %s\n", i+1, op, o)
	}
	if err != nil {
		fmt.Println("replay error:", err)
	}
	for _, x := range viols {
		x.System, x.Ops = v.System, v.Ops
		fmt.Println("  violation:", x.Sig, "|", x.Detail)
		if x.Sig == v.Sig {
			r.Report(x)
		}
	}
}

var _ = common.Hash{}
