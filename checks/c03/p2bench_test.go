package c03

import (
	"fmt"
	"testing"
	"time"

	"github.com/youchainhq/go-youchain/params"
	"verif/checks/c01"
	"verif/mc"
)

func TestP2Bench(t *testing.T) {
	r := mc.NewRun("C03", "quick", 1)
	p2InstallHooks(r)
	params.InitNetworkId(params.NetworkIdForTestCase)
	c01.Quiet()
	t0 := time.Now()
	s, err := newP2Scn(p2Spec{Cfg: "a", Me: "out", Extras: 1})
	if err != nil {
		t.Fatal(err)
	}
	s.generate([]string{"claim"})
	s.prepareWires()
	fmt.Println("setup", time.Since(t0), len(s.cases))
	t0 = time.Now()
	for i := 0; i < 20; i++ {
		x, _ := s.newNode()
		x.close()
	}
	fmt.Println("newNode x20", time.Since(t0))
	x, _ := s.newNode()
	t0 = time.Now()
	x.n.Step(0)
	fmt.Println("step0", time.Since(t0))
	t0 = time.Now()
	fmt.Println(x.handle(s.bwire["B"]), x.handle(s.bwire["A"]))
	fmt.Println("2 blocks", time.Since(t0))
	for _, m := range []string{"PC:a0:A", "PC:a1:A", "PC:a1:A", "PC:a2:A", "PC:a3:A"} {
		t0 = time.Now()
		err := x.handle(s.wire[m])
		fmt.Println(m, err, time.Since(t0), len(x.posts))
	}
	var ev = x.posts[0].commit
	t0 = time.Now()
	h, err := c01.PackCommit(s.c, *ev)
	fmt.Println("pack", err, time.Since(t0))
	t0 = time.Now()
	x.n.Commit(*ev)
	fmt.Println("Server.commit", time.Since(t0))
	for i := 0; i < 2; i++ {
		t0 = time.Now()
		fmt.Println(c01.VerifyHeader(s.c, h), time.Since(t0))
		t0 = time.Now()
		fmt.Println(c01.VerifySeal(s.c, h), time.Since(t0))
		t0 = time.Now()
		fmt.Println(c01.VerifySideChain(s.c, h), time.Since(t0))
	}
}
