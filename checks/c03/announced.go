// C03, "announced events are immutable" + the LATE consumer.
//
// Everything the Voter posts on its event mux (CommitEvent,
// UpdateExistedHeaderEvent, RoundIndexChangeEvent, SendMessageEvent, double-vote
// Evidence) is consumed LATER and on ANOTHER goroutine: Voter.commit posts with
// AsyncPost from the network / voter goroutine, Server.commit packs the vote
// sets (Voter.PackVotes -> header.Validator / header.Certificate) on the
// engine's event loop.  In between the Voter keeps processing votes.  So what
// the property calls "the vote set attached to a commit" is what the consumer
// reads from the event some handler calls later — not what the event held at
// the moment it was posted.
//
// The harness captures every posted event synchronously and used to judge it at
// the capture only.  This file keeps, for every captured event, (a) the LIVE
// event object exactly as it was handed to the mux (its maps, slices and
// pointers are whatever the Voter put there) and (b) a deep rendering of
// everything a consumer can read from it, taken at the announcement.  After
// EVERY later op of the execution the live object is rendered again:
//
//	immutability   any difference to the previous rendering is a violation ("an already announced CommitEvent
//	               changed afterwards: chamber precommits lost a vote (during: …)"): the announced commit shares
//	               state with the live tally (also an unsynchronised access in production);
//	late consumer  every announced CommitEvent is packed again from the LIVE object through the real Voter.PackVotes
//	               (what Server.commit does when it gets to the event) and the packed list is counted the way the
//	               header verifier counts it (signer recovered from the vote signature over hash|round|index, distinct
//	               entitled chamber members, claimed weight = sortition weight): the counted weight must still reach
//	               the quorum the commit was announced on (certificate rounds: both lists, both quorums).
//
// The general systems of part 1 contain the continuations (a sender counted in
// the commit precommits another block afterwards, late votes for the same
// block, next index, new round); the dedicated "after-*" systems (plans) reach
// an announcement by a scripted prelude and then run EVERY sequence (DFS, no
// state merging) over the votes that can touch an announced set, including
// old-index / old-round precommits for both blocks.
package c03

import (
	"fmt"
	"math/big"
	"sort"
	"strings"
	"sync"

	"github.com/youchainhq/go-youchain/common"
	"github.com/youchainhq/go-youchain/consensus/ucon"
	"github.com/youchainhq/go-youchain/crypto"
	"github.com/youchainhq/go-youchain/params"
	"github.com/youchainhq/go-youchain/staking"

	"verif/checks/c02"
)

// ---- rendering an event: one line per field / attached vote --------------------------------------------

func votePrint(v *ucon.SingleVote) string {
	if v == nil {
		return "nil"
	}
	return fmt.Sprintf("idx=%d votes=%d sig=%x proof=%x", v.VoterIdx, v.Votes, v.Signature, v.Proof)
}

func bigPrint(b *big.Int) string {
	if b == nil {
		return "nil"
	}
	return b.String()
}

// eventLines renders everything a consumer of a posted event can read.  A line is "<field>|<key>|<value>"; for
// a vote set the key is the sender.  kind "" = an event type the Voter is not known to post (not tracked).
func eventLines(ev interface{}, name func(common.Address) string) (kind string, lines []string) {
	set := func(field string, m ucon.VotesInfoForBlockHash) {
		if m == nil {
			lines = append(lines, field+"||nil-map")
			return
		}
		for a, v := range m {
			lines = append(lines, field+"|"+name(a)+"|"+votePrint(v))
		}
	}
	switch e := ev.(type) {
	case ucon.CommitEvent:
		kind = "CommitEvent"
		bh := "nil"
		if e.Block != nil {
			bh = e.Block.Hash().Hex()
		}
		lines = append(lines, "round||"+bigPrint(e.Round), fmt.Sprintf("round index||%d", e.RoundIndex), "block||"+bh)
		set("chamber precommits", e.ChamberPrecommits)
		set("house precommits", e.HousePrecommits)
		if e.ChamberCerts != nil {
			set("certificate votes", e.ChamberCerts)
		}
	case ucon.UpdateExistedHeaderEvent:
		kind = "UpdateExistedHeaderEvent"
		lines = append(lines, "round||"+bigPrint(e.Round), fmt.Sprintf("round index||%d", e.RoundIndex), "block||"+e.BlockHash.Hex())
		set("chamber precommits", e.ChamberPrecommits)
		set("house precommits", e.HousePrecommits)
	case ucon.RoundIndexChangeEvent:
		kind = "RoundIndexChangeEvent"
		lines = append(lines, "round||"+bigPrint(e.Round), fmt.Sprintf("round index||%d", e.RoundIndex), "block||"+e.BlockHash.Hex(), "priority||"+e.Priority.Hex())
	case ucon.SendMessageEvent:
		kind = "SendMessageEvent"
		lines = append(lines, "round||"+bigPrint(e.Round), fmt.Sprintf("code||%d", e.Code), fmt.Sprintf("payload||%x", e.Payload))
	case staking.Evidence:
		kind = "Evidence"
		lines = append(lines, "type||"+e.Type, fmt.Sprintf("data||%x", e.Data))
	}
	sort.Strings(lines)
	return kind, lines
}

// diffLines names, field by field, how a rendering changed (stable classes, no sender names): "" = unchanged.
func diffLines(before, after []string) (classes string, detail string) {
	type fk struct{ field, key string }
	split := func(l string) (fk, string) {
		f := strings.SplitN(l, "|", 3)
		if len(f) < 3 {
			return fk{l, ""}, ""
		}
		return fk{f[0], f[1]}, f[2]
	}
	b, a := map[fk]string{}, map[fk]string{}
	for _, l := range before {
		k, v := split(l)
		b[k] = v
	}
	for _, l := range after {
		k, v := split(l)
		a[k] = v
	}
	cl := map[string]bool{}
	var det []string
	for k, v := range b {
		nv, ok := a[k]
		switch {
		case !ok && k.key != "":
			cl[k.field+" lost a vote"] = true
			det = append(det, fmt.Sprintf("%s: vote of %s removed", k.field, k.key))
		case !ok:
			cl[k.field+" changed"] = true
			det = append(det, fmt.Sprintf("%s: %s -> (gone)", k.field, v))
		case nv != v && k.key != "":
			cl[k.field+": an attached vote was altered"] = true
			det = append(det, fmt.Sprintf("%s: vote of %s: %s -> %s", k.field, k.key, v, nv))
		case nv != v:
			cl[k.field+" changed"] = true
			det = append(det, fmt.Sprintf("%s: %s -> %s", k.field, v, nv))
		}
	}
	for k, v := range a {
		if _, ok := b[k]; ok {
			continue
		}
		if k.key != "" {
			cl[k.field+" gained a vote"] = true
			det = append(det, fmt.Sprintf("%s: vote of %s added", k.field, k.key))
		} else {
			cl[k.field+" changed"] = true
			det = append(det, fmt.Sprintf("%s: (none) -> %s", k.field, v))
		}
	}
	if len(cl) == 0 {
		return "", ""
	}
	var cs []string
	for c := range cl {
		cs = append(cs, c)
	}
	sort.Strings(cs)
	sort.Strings(det)
	return strings.Join(cs, "; "), strings.Join(det, "; ")
}

func linesDigest(lines []string) string { return c02.HashKey(strings.Join(lines, "\n")) }

// setOf extracts the senders of one vote set from a rendering.
func setOf(lines []string, field string) map[string]bool {
	out := map[string]bool{}
	for _, l := range lines {
		f := strings.SplitN(l, "|", 3)
		if len(f) == 3 && f[0] == field && f[1] != "" {
			out[f[1]] = true
		}
	}
	return out
}

// ---- part 1: tracking on the c02 driver ---------------------------------------------------------------------

type announced struct {
	kind   string      // CommitEvent | UpdateExistedHeaderEvent | …
	desc   string      // COMMIT(A)@1000.1 …
	ctx    ctxKey      // the (round, index) the event speaks about
	hash   string      // block name
	raw    interface{} // the LIVE event, exactly as handed to the mux
	commit *ucon.CommitEvent
	first  []string        // rendering at the announcement
	last   []string        // rendering after the previous op
	later  int             // ops applied since
	below  map[string]bool // late consumer: lists already found below their quorum (reported at the op that caused it)
	// CommitEvent: the counted weights it was announced on (reference tally at the announcement)
	pcw, ctw uint32
}

// noteAnnounced records what the last op made the Voter post.
func (s *Sys) noteAnnounced() {
	for _, p := range s.Sys.Posts() {
		kind, lines := eventLines(p.Raw, c02.AName)
		if kind == "" {
			continue
		}
		a := &announced{kind: kind, desc: p.String(), ctx: ctxKey{p.Round, p.Index}, hash: c02.HName(p.Hash), raw: p.Raw, first: lines, last: lines}
		if p.What == "commit" {
			a.commit = p.Commit
			a.pcw, _ = s.tally(a.ctx, false, ucon.Precommit, a.hash)
			a.ctw, _ = s.tally(a.ctx, false, ucon.Certificate, a.hash)
		}
		s.ann = append(s.ann, a)
		s.Sys.Count("announced_events_tracked_" + kind)
	}
}

// opClassFor names, relative to one announced event, what kind of op was just applied (stable, no sender names).
func (s *Sys) opClassFor(op string, a *announced) string {
	d, ok := s.parse(op)
	if !ok {
		if i := strings.IndexAny(op, ":@"); i > 0 {
			op = op[:i]
		}
		return "context op " + op
	}
	if d.variant == "echo" {
		return "the node's own vote gossiped back"
	}
	path := "current-context delivery"
	if d.status != ucon.VerifC02MsgSame {
		path = "old-context delivery"
	}
	if d.ctx != a.ctx {
		return path + " of a vote of another (round,index)"
	}
	field := ""
	switch d.kind {
	case ucon.Precommit:
		field = "chamber precommits"
		if s.cfg.house[d.peer] {
			field = "house precommits"
		}
	case ucon.Certificate:
		field = "certificate votes"
	default:
		return path + " of a " + c02.KLong(d.kind) + " vote of the same (round,index)"
	}
	attached := setOf(a.last, field)[d.peer] // as the consumer read the event before this op
	switch {
	case attached && d.hash != a.hash:
		return path + ": a sender whose vote is attached votes for another block (equivocation after the announcement)"
	case attached:
		return path + ": duplicate of an attached vote"
	case d.hash == a.hash:
		return path + ": a further vote for the announced block"
	}
	return path + ": a vote for another block by a sender that is not attached"
}

// recheckAnnounced: after an op, every EARLIER announcement is read again through its live object.
func (s *Sys) recheckAnnounced(op string) {
	for _, a := range s.ann {
		a.later++
		oc := s.opClassFor(op, a)
		_, now := eventLines(a.raw, c02.AName)
		if cls, det := diffLines(a.last, now); cls != "" {
			s.viol(fmt.Sprintf("an already announced %s changed afterwards (the event handed to the mux shares state with the Voter): %s", a.kind, cls),
				fmt.Sprintf("%s was announced %d ops ago; after %s [%s] the event object the consumer holds reads differently: %s", a.desc, a.later, op, oc, det))
		}
		a.last = now
		s.Sys.Count("announced_events_reread_after_a_later_op")
		if a.commit != nil {
			if strings.Contains(oc, "equivocation after the announcement") {
				s.Sys.Count("announced_commit_reread_after_an_attached_sender_equivocated")
			}
			if strings.Contains(oc, "a further vote for the announced block") {
				s.Sys.Count("announced_commit_reread_after_a_further_vote_for_its_block")
			}
			if strings.HasPrefix(oc, "context op") {
				s.Sys.Count("announced_commit_reread_after_a_context_op")
			}
			s.latePack(a, op, oc)
		} else if a.kind == "UpdateExistedHeaderEvent" && strings.HasPrefix(oc, "old-context delivery") {
			s.Sys.Count("announced_header_update_reread_after_an_old_context_delivery")
		}
	}
}

var recoverCache sync.Map // payload|signature -> common.Address (zero = does not recover)

func recoverSigner(payload, sig []byte) common.Address {
	k := string(payload) + "|" + string(sig)
	if v, ok := recoverCache.Load(k); ok {
		return v.(common.Address)
	}
	var addr common.Address
	if pub, err := ucon.GetSignaturePublicKey(payload, sig); err == nil && pub != nil {
		addr = crypto.PubkeyToAddress(*pub)
	}
	recoverCache.Store(k, addr)
	return addr
}

// verifierCount counts a packed vote list the way consensus.go:verifyVotes does for secp256k1-signed votes: signer
// recovered from the signature over hash|round|index, entitled chamber member with a verifying credential, claimed
// weight = sortition weight, each member once.  (BLS systems: the signer is looked up by index and the signatures are
// aggregated; the list is counted by distinct voter index.)
func (s *Sys) verifierCount(list []ucon.SingleVote, ctx ctxKey, h common.Hash) uint32 {
	payload := append(h.Bytes(), append(new(big.Int).SetUint64(ctx.round).Bytes(), byte(ctx.index>>24), byte(ctx.index>>16), byte(ctx.index>>8), byte(ctx.index))...)
	var sum uint32
	if s.cfg.BLS {
		seen := map[uint32]bool{}
		for _, v := range list {
			if !seen[v.VoterIdx] {
				seen[v.VoterIdx] = true
				sum += v.Votes
			}
		}
		return sum
	}
	seen := map[string]bool{}
	for _, v := range list {
		n := c02.AName(recoverSigner(payload, v.Signature))
		w, member := s.cfg.wname[n]
		if !member || seen[n] || s.cfg.house[n] || s.cfg.bad[n] || w != v.Votes {
			continue
		}
		seen[n] = true
		sum += w
	}
	return sum
}

// latePack = the consumer that gets to an announced commit only now: Server.commit's packing statement on the live
// event, counted like the verifier counts.
func (s *Sys) latePack(a *announced, op, oc string) {
	ev := *a.commit
	check := func(lb params.LookBackType, what string, q, announcedOn uint32) {
		var uv *ucon.UconValidators
		var err error
		if msg := catch(func() { uv, err = s.Sys.V.PackVotes(ev, lb) }); msg != "" || err != nil || uv == nil {
			s.viol("late consumer: packing an announced commit failed", fmt.Sprintf("%s after %s: %v %s", a.desc, op, err, msg))
			return
		}
		list := uv.ChamberCommitters
		if lb == params.LookBackCert {
			list = uv.ChamberCerts
		}
		got := s.verifierCount(list, a.ctx, c02.Hash(a.hash))
		if got < q && a.below[what] {
			return // reported at the op that took the quorum away
		}
		if got >= q {
			delete(a.below, what)
			s.Sys.Count("late_consumer_packed_an_announced_commit_and_counted_a_quorum_" + what)
			if got == q {
				s.Sys.Count("late_consumer_counted_exactly_the_quorum_" + what)
			}
			return
		}
		if a.below == nil {
			a.below = map[string]bool{}
		}
		a.below[what] = true
		s.viol(fmt.Sprintf("late consumer: the %s list packed from an already announced commit (Voter.PackVotes on the event, as Server.commit does on its own goroutine) no longer carries the quorum it was announced on", what),
			fmt.Sprintf("%s was announced on counted %s weight %d (quorum %d); packed after %s [%s] the verifier counts %d from %d entries", a.desc, what, announcedOn, q, op, oc, got, len(list)))
	}
	check(params.LookBackPos, "precommit", s.cfg.qPos, a.pcw)
	if a.ctx.round%certRound == 0 {
		check(params.LookBackCert, "certificate", s.cfg.qCert, a.ctw)
	}
}

func catch(f func()) (msg string) {
	defer func() {
		if r := recover(); r != nil {
			msg = fmt.Sprint(r)
		}
	}()
	f()
	return ""
}

// annKey: the announcements are part of the canonical state (two histories that agree on the Voter's fields but
// announced different vote sets are different states: what a later op may do to the announced set differs).
func (s *Sys) annKey() string {
	var ks []string
	for _, a := range s.ann {
		if a.kind != "CommitEvent" && a.kind != "UpdateExistedHeaderEvent" {
			continue
		}
		var sets []string
		for _, f := range []string{"chamber precommits", "house precommits", "certificate votes"} {
			var cl []string
			for n := range setOf(a.first, f) {
				c := n
				if n != "me" {
					c = fmt.Sprintf("w%d%v", s.cfg.wname[n], s.cfg.house[n])
				}
				cl = append(cl, c)
			}
			sort.Strings(cl)
			sets = append(sets, strings.Join(cl, ","))
		}
		ks = append(ks, fmt.Sprintf("%s/%d.%d/%s[%s]", a.kind, a.ctx.round, a.ctx.index, a.hash, strings.Join(sets, "|")))
	}
	sort.Strings(ks)
	return strings.Join(ks, " ")
}

// ---- the post-announcement alphabet (systems with cfg.Post) -------------------------------------------------------

// postEnabled: every vote that can touch an announced vote set — precommits (certificate rounds: and certificate
// votes) of every entitled peer for BOTH blocks in the current context (a sender attached to the commit naming the other
// block = equivocation after the announcement; a sender not attached naming the same block = late vote), the node's own
// vote gossiped back, the same precommits for both blocks delivered for the PREVIOUS round index / round through the
// old-message path once the context moved on, and the context changes themselves (next index, new round: the pending
// UpdateExistedHeaderEvent is posted there).
func (s *Sys) postEnabled() []string {
	var ops []string
	kinds := []ucon.VoteType{ucon.Precommit}
	if s.isCert() {
		kinds = append(kinds, ucon.Certificate)
	}
	for i, p := range s.cfg.Peers {
		if p.BadCred {
			continue
		}
		for _, k := range kinds {
			for _, h := range []string{"A", "B"} {
				ops = append(ops, fmt.Sprintf("v:p%d:%s:%s", i+1, c02.KName(k), h))
			}
		}
	}
	for _, k := range kinds {
		if m := s.Sys.OwnVoteInCurrent(k); m != nil {
			ops = append(ops, fmt.Sprintf("x:me:%s:%s:echo", c02.KName(k), c02.HName(m.BlockHash)))
		}
	}
	for i, p := range s.cfg.Peers {
		if p.BadCred {
			continue
		}
		for _, h := range []string{"A", "B"} {
			if s.Index > 1 {
				ops = append(ops, fmt.Sprintf("x:p%d:PC:%s:oldidx", i+1, h))
			}
			if s.Round > s.cfg.BaseRound {
				ops = append(ops, fmt.Sprintf("x:p%d:PC:%s:oldround", i+1, h))
			}
		}
	}
	if s.Index < s.cfg.MaxIndex {
		ops = append(ops, "next")
	}
	if s.Round+1 < s.cfg.BaseRound+uint64(s.cfg.Rounds) {
		ops = append(ops, "round")
	}
	return ops
}
