// C03 part 2: "the vote set attached to a commit always yields a header that
// every verifier accepts" — real crypto, real credential verification.
//
// One case = one execution of a REAL mining node without its goroutines
// (ucon.VerifC03P2NewNode: the objects and function values Server.StartMining
// wires — Server, SortitionManager, Proposal, Voter, MessageHandler — on an
// mc.CrashDB and on the look-back chain of a checks/c01 fixture, so that
// isValidatorFn / getStakeFn / verifySortitionFn / the params manager / the
// BLS look-back manager / the block cache are the production ones and every
// credential is really verified against the fixture's committed validator set).
// The harness plays the event mux: what the node posts is captured through
// event.VerifAsyncPostHook; ContextChangeEvents are fanned out to the three
// subscribers, CommitEvents are handed to the real Server.commit whose block
// reaches a capturing MineInserter.
//
// Inputs are real signed wire messages (RLP ucon.Message, outer ECDSA
// signature, BLS-signed SingleVote with the sender's VRF credential as
// checks/c01 SignVote builds it) given to the real MessageHandler.HandleMsg,
// which decodes, recovers the sender, classifies (judger) and calls
// Voter.processVoteMsg — nothing is hand-delivered to the Voter.
//
// Enumerated per fixture: every subset S of the senders × every extra message
// (a vote of some sender for the competing block B = equivocation when the
// sender is in S; a duplicate; a vote with an over-claimed weight; a vote whose
// BLS signature covers another payload; votes of house / offline / zero-stake
// records) × EVERY distinct delivery order.  Oracle = reference tally from the
// delivery history (first vote per distinct entitled sender, equivocators
// weigh 0, invalid votes weigh 0, quorum = floor(0.685·T) restated here).
//
// Reduction: two orders that agree up to the delivery at which the reference
// commits are the same execution up to there.  Unless a scenario is marked
// Full or Late, an order is executed up to that delivery and orders sharing the
// prefix run once (the evidence counts both the orders and the executions).
// If the implementation commits earlier or not at that delivery the oracle
// reports it all the same.  That "nothing delivered after the CommitEvent can
// change it" is NOT assumed: it is checked (announced.go).  Every posted event
// is kept as the live object the Voter handed to the mux and re-read after
// every later event (any difference = violation); every announced CommitEvent
// that saw later events is packed AGAIN from the live object (c01.PackCommit
// and the real Server.commit, which in production runs later, on the engine's
// event loop) and the header is offered to the real verifiers again.  The Late
// scenarios (generateLate) supply the continuations in the quick tier: every
// committing order of every subset, then every sequence of at most Late
// further votes that can touch the announced set (an attached sender
// precommits the other block, a late precommit for the committed block,
// duplicates, other-block votes); the /full and certificate scenarios of the
// thorough tier contain such continuations already.
//
// Tiers: quick = fixtures a, b, b-, c at the honest round index, outsider node
// and member nodes (own precommit signed by the real Voter after a real prevote
// quorum), one extra message; thorough adds full orders (post-commit
// deliveries), the step-4 timer as an interleaved event, a BLS signature over
// another payload, pairs of extras, round index 2 after the node went through
// index 1 (re-votes; late votes of index 1), and the certificate round
// (2·ACoCHTFrequency: every interleaving of precommits and certificate votes).
//
// Both tiers start with the borrowed-signature dimension of forge.go (votes that
// carry another member's BLS signature, in every order relative to the
// lender's genuine vote); after every delivery of every scenario the tallies
// and vote sets the real Voter holds are compared with the reference tally.
//
// Environment: VERIF_C03_ONLY=none skips part 1; VERIF_C03_P2_ONLY=<cfg>/<me>
// keeps the matching scenarios; VERIF_C03_P2_FORGE=only|off keeps / drops the
// forge scenarios; VERIF_C03_P2_DRY=1 prints the plan sizes.
package c03

import (
	"encoding/json"
	"fmt"
	"math/big"
	"os"
	"sort"
	"strings"
	"sync"
	"sync/atomic"
	"time"

	"github.com/youchainhq/go-youchain/common"
	"github.com/youchainhq/go-youchain/consensus/ucon"
	"github.com/youchainhq/go-youchain/core/types"
	"github.com/youchainhq/go-youchain/crypto"
	"github.com/youchainhq/go-youchain/event"
	"github.com/youchainhq/go-youchain/params"
	"github.com/youchainhq/go-youchain/rlp"
	"github.com/youchainhq/go-youchain/staking"

	"verif/checks/c01"
	"verif/checks/c02"
	"verif/mc"
)

func init() { Part2 = part2; Part2Replay = part2Replay }

const p2System = "part2"

// ---- process-global capture of everything a part-2 node posts ---------------------------------

var (
	p2HookOnce sync.Once
	p2Nodes    sync.Map // *event.TypeMux -> *p2Node
)

func p2InstallHooks(r *mc.Run) {
	p2HookOnce.Do(func() {
		// checks/c02 owns the process-global hooks (logging discarded, logging.Crit -> panic, AsyncPost
		// capture for its own muxes); make sure they are installed, then put part 2's capture in front.
		c02.NewSys(r, &c02.Cfg{})
		prev := event.VerifAsyncPostHook
		event.VerifAsyncPostHook = func(mux *event.TypeMux, ev interface{}) bool {
			if n, ok := p2Nodes.Load(mux); ok {
				n.(*p2Node).onPost(ev)
				return true
			}
			if prev != nil {
				return prev(mux, ev)
			}
			return false
		}
	})
}

// ---- scenario -----------------------------------------------------------------------------------

// p2Spec names one scenario (replay files carry it).
type p2Spec struct {
	Cfg    string `json:"cfg"`             // fixture configuration of checks/c01: a | b | b- | c
	Cert   bool   `json:"cert"`            // certificate round (2·ACoCHTFrequency)
	RI     uint32 `json:"ri"`              // round index (0 = the fixture's honest round index)
	Me     string `json:"me"`              // "out" = the node's key is not in the validator set; otherwise the member that runs the node
	Extras int    `json:"extras"`          // extra messages per case (0..2)
	Timer  bool   `json:"timer"`           // the step-4 timer is one of the interleaved events
	Stale  bool   `json:"stale"`           // the node went through the previous round index first; votes of that index are in the alphabet
	Max    int    `json:"max_msgs"`        // certificate scenarios: largest number of interleaved votes (0 = no limit)
	Forge  int    `json:"forge,omitempty"` // borrowed-signature dimension (forge.go): 0 = off, 1 = quick alphabet, 2 = thorough alphabet
	Late   int    `json:"late,omitempty"`  // post-commit dimension (generateLate): every committing order of every subset, then every sequence of at most Late further votes that can touch the announced set
	Full   bool   `json:"full"`            // every order is executed to its end; otherwise an order is executed up to the delivery at which the reference commits, and orders sharing that prefix (identical executions up to the commit) run once
}

func (s p2Spec) name() string {
	n := s.Cfg
	if s.Cert {
		n += "/cert"
	}
	n += fmt.Sprintf("/ri%d/%s", s.RI, s.Me)
	if s.Stale {
		n += "/stale"
	}
	if s.Forge > 0 {
		n += fmt.Sprintf("/forge%d", s.Forge)
	}
	if s.Late > 0 {
		n += fmt.Sprintf("/late%d", s.Late)
	}
	if s.Extras > 0 {
		n += fmt.Sprintf("/x%d", s.Extras)
	}
	if s.Timer {
		n += "+timer"
	}
	if s.Full {
		n += "/full"
	}
	return n
}

type p2Scn struct {
	spec   p2Spec
	c      *c01.Config
	ri     uint32
	me     *c01.Member // the node's identity (Outsider in "out" mode)
	member bool        // me is in the validator set
	blocks map[string]*types.Block
	bname  map[common.Hash]string
	prio   map[string]common.Hash
	byName map[string]*c01.Member
	voters []*c01.Member // entitled senders other than me, by index
	others []*c01.Member // non-entitled records (house / offline / zero stake)
	q, qc  uint32
	wire   map[string][]byte // message name -> wire bytes
	bwire  map[string][]byte // block name -> block-proposal wire bytes
	old    map[string]*types.Block
	cases  []*p2Case
	byKey  map[string]*p2Case
	orders int
}

type p2Case struct {
	Spec    p2Spec   `json:"scenario"`
	Subset  int      `json:"subset_mask"`
	Variant string   `json:"variant"`
	Msgs    []string `json:"deliveries"`
	Covers  int      `json:"orders_sharing_this_prefix"`
	scn     *p2Scn
}

// quorum restated (not shared with the implementation); T from the protocol parameters.
func (s *p2Scn) quorums() {
	s.q = quorum(s.c.CP.ValidatorThreshold, false)
	s.qc = quorum(s.c.CP.CertValThreshold, true)
}

func (s *p2Scn) seats(m *c01.Member, vt ucon.VoteType, ri uint32) uint32 {
	if !m.Entitled() {
		return 0
	}
	th, seed := s.c.CP.ValidatorThreshold, s.c.LBSeed
	if vt == ucon.Certificate {
		th, seed = s.c.CP.CertValThreshold, s.c.CertSeed
	}
	return s.c.Sortition(m, seed, ri, uint32(vt), th, m.Stake).J
}

var p2Kinds = map[string]ucon.VoteType{"PV": ucon.Prevote, "PC": ucon.Precommit, "CT": ucon.Certificate, "NX": ucon.NextIndex}

// message names: <kind>:<sender>:<block>[:<defect>]   block ∈ A, B (current index), Z (previous index)
//
//	defects: claim (weight + 1: the credential does not verify), wrongsig (BLS signature over another payload),
//	         sig=<Y> (the sender's own index, credential and envelope, but the BLS signature bytes of member Y's genuine
//	         vote for the same block, round and index), xsig=<Y> (… of Y's genuine vote for the OTHER block) — forge.go
//	STEP4 = the step-4 timer fires
type p2Msg struct {
	kind   ucon.VoteType
	kname  string
	sender *c01.Member
	block  string
	defect string
	timer  bool
	lender *c01.Member // defects sig=<member> / xsig=<member>: whose BLS signature the vote carries (forge.go)
}

func (s *p2Scn) parse(name string) (p2Msg, error) {
	if name == "STEP4" {
		return p2Msg{timer: true}, nil
	}
	f := strings.Split(name, ":")
	if len(f) < 3 {
		return p2Msg{}, fmt.Errorf("bad message %q", name)
	}
	m := p2Msg{kname: f[0], block: f[2]}
	var ok bool
	if m.kind, ok = p2Kinds[f[0]]; !ok {
		return m, fmt.Errorf("bad kind in %q", name)
	}
	if m.sender = s.byName[f[1]]; m.sender == nil {
		return m, fmt.Errorf("unknown sender in %q", name)
	}
	if len(f) > 3 {
		m.defect = f[3]
		if err := s.parseForge(&m, name); err != nil {
			return m, err
		}
	}
	return m, nil
}

// valid: the message is a vote an honest verifier must count.
func (m p2Msg) valid(s *p2Scn) bool {
	ri := s.ri
	if m.block == "Z" {
		ri = s.ri - 1
	}
	return !m.timer && m.defect == "" && m.sender.Entitled() && s.seats(m.sender, m.kind, ri) > 0
}

func (s *p2Scn) blockOf(name string) *types.Block {
	if name == "Z" {
		return s.old["Z"]
	}
	return s.blocks[name]
}

// buildWire signs the wire message exactly as the sender's node would (Voter.vote + MessageHandler.sendMsg).
func (s *p2Scn) buildWire(name string) ([]byte, error) {
	m, err := s.parse(name)
	if err != nil {
		return nil, err
	}
	if m.timer {
		return nil, nil
	}
	c := s.c
	blk := s.blockOf(m.block)
	ri := s.ri
	if m.block == "Z" {
		ri = s.ri - 1
	}
	round := new(big.Int).SetUint64(c.Round)
	sv := c.SignVote(m.sender, m.kind, blk.Hash(), ri)
	if sv == nil {
		// no seat (only for records that are not entitled; entitled members without a seat send nothing)
		th, seed := c.CP.ValidatorThreshold, c.LBSeed
		if m.kind == ucon.Certificate {
			th, seed = c.CP.CertValThreshold, c.CertSeed
		}
		cr := c.Sortition(m.sender, seed, ri, uint32(m.kind), th, m.sender.Stake)
		sv = &ucon.SingleVote{VoterIdx: uint32(m.sender.Index), Votes: 1, Proof: cr.Proof,
			Signature: c.BlsSign(m.sender, c01.VotePayload(blk.Hash(), round, ri))}
	}
	switch m.defect {
	case "":
	case "claim":
		sv.Votes++
	case "wrongsig":
		sv.Signature = c.BlsSign(m.sender, c01.VotePayload(blk.Hash(), round, ri+7))
	default:
		if m.lender == nil {
			return nil, fmt.Errorf("unknown defect in %q", name)
		}
		sv.Signature = s.borrowedSig(m, ri)
	}
	cd, err := ucon.GetConsensusDataFromHeader(blk.Header())
	if err != nil {
		return nil, err
	}
	msg := &ucon.BlockHashWithVotes{Priority: cd.Priority, BlockHash: blk.Hash(), Round: round, RoundIndex: ri, Vote: sv, Timestamp: 1}
	payload, err := rlp.EncodeToBytes(msg)
	if err != nil {
		return nil, err
	}
	return p2Envelope(m.sender, ucon.VoteTypeToMsgCode(m.kind), payload)
}

func p2Envelope(signer *c01.Member, code ucon.MsgType, payload []byte) ([]byte, error) {
	sig, err := ucon.Sign(signer.Key, append(append([]byte{}, payload...), byte(code)))
	if err != nil {
		return nil, err
	}
	m := &ucon.Message{Code: code, Payload: payload, Signature: sig}
	return m.Encode()
}

// the block-proposal message code is not exported; it is the code next to the priority proposal (types.go)
var p2BlockMsgCode = ucon.StringToMessageCode(ucon.MsgNameBlock)

func p2Proposal(c *c01.Config, ri uint32) (*c01.Member, *types.Block, error) {
	for _, m := range c.Voters {
		if c.Sortition(m, c.LBSeed, ri, ucon.UConStepProposal, c.CP.ProposerThreshold, m.Stake).J >= 1 {
			b, err := c.Propose(m, ri)
			return m, b, err
		}
	}
	return nil, nil, fmt.Errorf("no member is a proposer at round index %d", ri)
}

var (
	p2CfgMu sync.Mutex
	p2Cfgs  = map[string]*c01.Config{}
)

func p2Config(name string, cert bool) (*c01.Config, error) {
	p2CfgMu.Lock()
	defer p2CfgMu.Unlock()
	k := fmt.Sprintf("%s/%v", name, cert)
	if c, ok := p2Cfgs[k]; ok {
		return c, nil
	}
	var c *c01.Config
	var err error
	if cert {
		c, err = c01.NewConfigAt(name, params.YouCurrentVersion, 2*params.ACoCHTFrequency, nil)
	} else {
		c, err = c01.NewConfig(name, params.YouCurrentVersion)
	}
	if err != nil {
		return nil, err
	}
	p2Cfgs[k] = c
	return c, nil
}

func newP2Scn(spec p2Spec) (*p2Scn, error) {
	c, err := p2Config(spec.Cfg, spec.Cert)
	if err != nil {
		return nil, err
	}
	s := &p2Scn{spec: spec, c: c, ri: spec.RI, blocks: map[string]*types.Block{}, bname: map[common.Hash]string{}, prio: map[string]common.Hash{},
		byName: map[string]*c01.Member{}, wire: map[string][]byte{}, bwire: map[string][]byte{}, old: map[string]*types.Block{}}
	if s.ri == 0 {
		s.ri = c.HonestRI
	}
	s.spec.RI = s.ri
	s.quorums()
	for _, m := range c.Members {
		s.byName[m.Name] = m
	}
	s.byName[c.Outsider.Name] = c.Outsider
	if spec.Me == "out" {
		s.me = c.Outsider
	} else {
		s.me = s.byName[spec.Me]
		if s.me == nil || !s.me.Entitled() {
			return nil, fmt.Errorf("scenario %s: %q is not an entitled member", spec.name(), spec.Me)
		}
		s.member = true
	}
	for _, m := range c.Members {
		switch {
		case m == s.me:
		case m.Entitled():
			s.voters = append(s.voters, m)
		default:
			s.others = append(s.others, m)
		}
	}
	// proposals of this round index: A, and B by the same proposer (an equivocating proposer)
	prop, a, err := p2Proposal(c, s.ri)
	if err != nil {
		return nil, err
	}
	if prop != c.Proposer && s.ri == c.HonestRI {
		return nil, fmt.Errorf("fixture proposer mismatch")
	}
	mkB := func(a *types.Block, tag string) (*types.Block, error) {
		h := a.Header()
		h.Extra = []byte("verif c03 part2 block " + tag)
		var err error
		if h.Signature, err = crypto.Sign(h.Hash().Bytes(), prop.Key); err != nil {
			return nil, err
		}
		return types.NewBlockWithHeader(h), nil
	}
	b, err := mkB(a, "B")
	if err != nil {
		return nil, err
	}
	s.blocks["A"], s.blocks["B"] = a, b
	for n, blk := range s.blocks {
		s.bname[blk.Hash()] = n
		cd, _ := ucon.GetConsensusDataFromHeader(blk.Header())
		s.prio[n] = cd.Priority
		payload, err := rlp.EncodeToBytes(blk)
		if err != nil {
			return nil, err
		}
		if s.bwire[n], err = p2Envelope(prop, p2BlockMsgCode, payload); err != nil {
			return nil, err
		}
	}
	if a.Hash() == b.Hash() {
		return nil, fmt.Errorf("blocks A and B coincide")
	}
	if spec.Stale {
		if s.ri < 2 {
			return nil, fmt.Errorf("stale scenario needs round index >= 2")
		}
		pz, z, err := p2Proposal(c, s.ri-1)
		if err != nil {
			return nil, err
		}
		s.old["Z"] = z
		s.bname[z.Hash()] = "Z"
		payload, _ := rlp.EncodeToBytes(z)
		if s.bwire["Z"], err = p2Envelope(pz, p2BlockMsgCode, payload); err != nil {
			return nil, err
		}
	}
	return s, nil
}

func (s *p2Scn) msgWire(name string) ([]byte, error) {
	if w, ok := s.wire[name]; ok {
		return w, nil
	}
	return s.buildWire(name) // replay of a message outside the prepared alphabet
}

// ---- case generation --------------------------------------------------------------------------------

// permutations calls fn with every DISTINCT order of items (equal strings are interchangeable).
func permutations(items []string, fn func([]string)) {
	a := append([]string{}, items...)
	sort.Strings(a)
	for {
		fn(a)
		i := len(a) - 2
		for i >= 0 && a[i] >= a[i+1] {
			i--
		}
		if i < 0 {
			return
		}
		j := len(a) - 1
		for a[j] <= a[i] {
			j--
		}
		a[i], a[j] = a[j], a[i]
		for l, r := i+1, len(a)-1; l < r; l, r = l+1, r-1 {
			a[l], a[r] = a[r], a[l]
		}
	}
}

type p2Extra struct {
	variant string
	msgs    []string
}

// extras1: every single extra message for base subset `in` (senders that vote A).
func (s *p2Scn) extras1(in map[string]bool, defects []string) []p2Extra {
	var out []p2Extra
	for _, m := range s.voters {
		if s.seats(m, ucon.Precommit, s.ri) == 0 {
			continue
		}
		v := "other-block voter"
		if in[m.Name] {
			v = "equivocator"
		}
		out = append(out, p2Extra{v, []string{"PC:" + m.Name + ":B"}})
	}
	for _, m := range s.voters {
		if in[m.Name] {
			out = append(out, p2Extra{"duplicate", []string{"PC:" + m.Name + ":A"}})
		}
	}
	for _, d := range defects {
		for _, m := range s.voters {
			out = append(out, p2Extra{"invalid:" + d, []string{"PC:" + m.Name + ":A:" + d}})
		}
	}
	for _, m := range s.others {
		out = append(out, p2Extra{"invalid:not entitled", []string{"PC:" + m.Name + ":A"}})
	}
	if s.spec.Timer {
		out = append(out, p2Extra{"step-4 timer", []string{"STEP4"}})
	}
	if s.spec.Stale {
		for _, m := range s.voters {
			if s.seats(m, ucon.Precommit, s.ri-1) > 0 {
				out = append(out, p2Extra{"stale-index vote", []string{"PC:" + m.Name + ":Z"}})
			}
		}
	}
	return out
}

func (s *p2Scn) addCase(mask int, variant string, msgs []string) {
	s.orders++
	cp := append([]string{}, msgs...)
	if !s.spec.Full && !s.spec.Cert && s.spec.Late == 0 {
		if k := s.predictCommit(cp); k < len(cp) {
			cp = cp[:k+1]
		}
	}
	key := strings.Join(cp, ",")
	if s.byKey == nil {
		s.byKey = map[string]*p2Case{}
	}
	if old, ok := s.byKey[key]; ok {
		old.Covers++
		return
	}
	cs := &p2Case{Spec: s.spec, Subset: mask, Variant: variant, Msgs: cp, Covers: 1, scn: s}
	s.byKey[key] = cs
	s.cases = append(s.cases, cs)
}

// predictCommit runs the reference tally over an order (no crypto) and returns the position of the delivery at
// which the reference commits: -1 = already during the node's own set-up, len(msgs) = never.
func (s *p2Scn) predictCommit(msgs []string) int {
	ref := newP2Ref()
	if s.member {
		pv := s.seats(s.me, ucon.Prevote, s.ri)
		for _, m := range s.voters {
			pv += s.seats(m, ucon.Prevote, s.ri)
		}
		if own := s.seats(s.me, ucon.Precommit, s.ri); pv >= s.q && own > 0 {
			ref.count(ucon.Precommit, s.me.Name, "A", own)
			if own >= s.q {
				return -1
			}
		}
	}
	for i, name := range msgs {
		m, err := s.parse(name)
		if err != nil || !m.valid(s) || m.block == "Z" || m.kind != ucon.Precommit {
			continue
		}
		if ref.count(m.kind, m.sender.Name, m.block, s.seats(m.sender, m.kind, s.ri)) == "new" && ref.weight[int(ucon.Precommit)][m.block] >= s.q {
			return i
		}
	}
	return len(msgs)
}

// generate builds the case list: subset × extras × every distinct order.
func (s *p2Scn) generate(defects []string) {
	n := len(s.voters)
	for mask := 0; mask < 1<<uint(n); mask++ {
		in := map[string]bool{}
		var base []string
		skip := false
		for i, m := range s.voters {
			if mask&(1<<uint(i)) == 0 {
				continue
			}
			if s.seats(m, ucon.Precommit, s.ri) == 0 {
				skip = true // a member without a seat sends nothing
			}
			in[m.Name] = true
			base = append(base, "PC:"+m.Name+":A")
		}
		if skip {
			continue
		}
		permutations(base, func(o []string) { s.addCase(mask, "plain", o) })
		if s.spec.Extras < 1 {
			continue
		}
		ex := s.extras1(in, defects)
		for _, e := range ex {
			permutations(append(append([]string{}, base...), e.msgs...), func(o []string) { s.addCase(mask, e.variant, o) })
		}
		if s.spec.Extras < 2 {
			continue
		}
		pairable := func(e p2Extra) bool {
			return e.variant == "equivocator" || e.variant == "other-block voter" || e.variant == "duplicate"
		}
		for i := 0; i < len(ex); i++ {
			for j := i; j < len(ex); j++ {
				if j == i && ex[i].variant != "duplicate" {
					continue // the same extra twice is only meaningful as a triple delivery
				}
				if !pairable(ex[i]) || !pairable(ex[j]) {
					continue // pairs: two votes for the competing block (two equivocators), equivocator + duplicate, two duplicates
				}
				all := append(append(append([]string{}, base...), ex[i].msgs...), ex[j].msgs...)
				v := ex[i].variant + " + " + ex[j].variant
				permutations(all, func(o []string) { s.addCase(mask, v, o) })
			}
		}
	}
}

// generateLate: the post-commit dimension.  For every subset of the senders and EVERY delivery order of its precommits
// for A at whose LAST delivery the reference commits (member node: also "no delivery at all" when its own vote is the
// quorum), every sequence of 1..Late DISTINCT further votes out of the ones that can touch the announced set:
//
//	PC:<m>:B  m attached to the commit   = equivocation after the announcement (its weight leaves the live tally)
//	PC:<m>:B  m not attached             = other-block vote
//	PC:<m>:A  m not attached             = late precommit for the committed block (joins the live tally)
//	PC:<m>:A  m attached                 = duplicate
//
// Sequences of length 1 follow every committing order; longer ones the first committing order of each subset (the
// orders of one subset differ only in how the same announced set was reached).
func (s *p2Scn) generateLate() {
	n := len(s.voters)
	for mask := 0; mask < 1<<uint(n); mask++ {
		in := map[string]bool{}
		var base []string
		skip := false
		for i, m := range s.voters {
			if mask&(1<<uint(i)) == 0 {
				continue
			}
			if s.seats(m, ucon.Precommit, s.ri) == 0 {
				skip = true
			}
			in[m.Name] = true
			base = append(base, "PC:"+m.Name+":A")
		}
		if skip {
			continue
		}
		type lateMsg struct{ name, class string }
		var post []lateMsg
		for _, m := range s.voters {
			if s.seats(m, ucon.Precommit, s.ri) == 0 {
				continue
			}
			if in[m.Name] {
				post = append(post, lateMsg{"PC:" + m.Name + ":B", "equivocation of an attached sender"}, lateMsg{"PC:" + m.Name + ":A", "duplicate of an attached vote"})
			} else {
				post = append(post, lateMsg{"PC:" + m.Name + ":B", "other-block vote"}, lateMsg{"PC:" + m.Name + ":A", "late vote for the committed block"})
			}
		}
		first := true
		permutations(base, func(o []string) {
			k := s.predictCommit(o)
			if !(k == len(o)-1 && len(o) > 0) && !(k == -1 && len(o) == 0) {
				return // the reference commits earlier (the rest of the order is itself a continuation covered from the smaller subset) or never
			}
			maxLen := 1
			if first {
				maxLen = s.spec.Late
			}
			first = false
			var rec func(seq []lateMsg)
			rec = func(seq []lateMsg) {
				if len(seq) > 0 {
					all := append([]string{}, o...)
					var cl []string
					for _, x := range seq {
						all = append(all, x.name)
						cl = append(cl, x.class)
					}
					s.addCase(mask, "after the commit: "+strings.Join(cl, ", then "), all)
				}
				if len(seq) >= maxLen {
					return
				}
				for _, x := range post {
					dup := false
					for _, y := range seq {
						dup = dup || y.name == x.name
					}
					if !dup {
						rec(append(append([]lateMsg{}, seq...), x))
					}
				}
			}
			rec(nil)
		})
	}
}

// generateCert: certificate round — every (precommit subset, certificate subset) of the other members, every interleaving.
func (s *p2Scn) generateCert() {
	n := len(s.voters)
	for pm := 0; pm < 1<<uint(n); pm++ {
		for cm := 0; cm < 1<<uint(n); cm++ {
			var base []string
			for i, m := range s.voters {
				if pm&(1<<uint(i)) != 0 && s.seats(m, ucon.Precommit, s.ri) > 0 {
					base = append(base, "PC:"+m.Name+":A")
				}
				if cm&(1<<uint(i)) != 0 && s.seats(m, ucon.Certificate, s.ri) > 0 {
					base = append(base, "CT:"+m.Name+":A")
				}
			}
			if s.spec.Max > 0 && len(base) > s.spec.Max {
				continue
			}
			mask := pm | cm<<8
			permutations(base, func(o []string) { s.addCase(mask, "cert", o) })
			if s.spec.Extras >= 1 && len(base) <= 3 {
				for _, m := range s.voters {
					for _, k := range []string{"PC", "CT"} {
						v := "cert + other-block " + k
						permutations(append(append([]string{}, base...), k+":"+m.Name+":B"), func(o []string) { s.addCase(mask, v, o) })
					}
				}
			}
		}
	}
}

func (s *p2Scn) prepareWires() error {
	for _, cs := range s.cases {
		for _, m := range cs.Msgs {
			if _, ok := s.wire[m]; ok {
				continue
			}
			w, err := s.buildWire(m)
			if err != nil {
				return err
			}
			s.wire[m] = w
		}
	}
	for _, m := range s.setupMsgs() {
		if _, ok := s.wire[m]; !ok {
			w, err := s.buildWire(m)
			if err != nil {
				return err
			}
			s.wire[m] = w
		}
	}
	return nil
}

// setupMsgs: the prevotes that make a member node precommit by itself.
func (s *p2Scn) setupMsgs() []string {
	var out []string
	if s.member {
		for _, m := range s.voters {
			if s.seats(m, ucon.Prevote, s.ri) > 0 {
				out = append(out, "PV:"+m.Name+":A")
			}
		}
	}
	return out
}

// ---- the node of one case ---------------------------------------------------------------------------

type p2Post struct {
	what   string // vote | commit | update | change | evidence | relay | other
	kind   ucon.VoteType
	msg    *ucon.BlockHashWithVotes
	commit *ucon.CommitEvent
	update *ucon.UpdateExistedHeaderEvent
	raw    interface{} // the event exactly as the Voter handed it to the mux (announced.go)
}

type p2Node struct {
	s        *p2Scn
	mux      *event.TypeMux
	n        *ucon.VerifC03P2Node
	posts    []p2Post
	inserted []*types.Block
	relays   int
}

func (x *p2Node) Insert(b *types.Block) error { x.inserted = append(x.inserted, b); return nil }

func (x *p2Node) onPost(ev interface{}) {
	switch e := ev.(type) {
	case ucon.ContextChangeEvent:
		x.n.DeliverContext(e) // the mux fan-out: MessageHandler, Proposal, Voter
	case ucon.SendMessageEvent:
		vt := ucon.MsgCodeToVoteType(e.Code)
		if vt == ucon.VoteNone {
			x.posts = append(x.posts, p2Post{what: "other"})
			return
		}
		var m ucon.BlockHashWithVotes
		if err := rlp.DecodeBytes(e.Payload, &m); err != nil || m.Vote == nil {
			x.posts = append(x.posts, p2Post{what: "other"})
			return
		}
		x.posts = append(x.posts, p2Post{what: "vote", kind: vt, msg: &m, raw: ev})
	case ucon.CommitEvent:
		c := e
		x.posts = append(x.posts, p2Post{what: "commit", commit: &c, raw: ev})
	case ucon.UpdateExistedHeaderEvent:
		u := e
		x.posts = append(x.posts, p2Post{what: "update", update: &u, raw: ev})
	case ucon.RoundIndexChangeEvent:
		x.posts = append(x.posts, p2Post{what: "change", raw: ev})
	case ucon.TransferMessageEvent:
		x.relays++
	case staking.Evidence:
		x.posts = append(x.posts, p2Post{what: "evidence", raw: ev})
	default:
		x.posts = append(x.posts, p2Post{what: "other"})
	}
}

func (s *p2Scn) newNode() (*p2Node, error) {
	x := &p2Node{s: s, mux: new(event.TypeMux)}
	startRI := s.ri
	if s.spec.Stale {
		startRI = s.ri - 1
	}
	n, err := ucon.VerifC03P2NewNode(mc.NewCrashDB(), s.c.Chain, x, x.mux, s.me.Key, s.me.BlsSk, new(big.Int).SetUint64(s.c.Round), startRI)
	if err != nil {
		return nil, err
	}
	x.n = n
	p2Nodes.Store(x.mux, x)
	return x, nil
}

func (x *p2Node) close() { p2Nodes.Delete(x.mux) }

var p2Epoch = time.Unix(1700000000, 0)

func (x *p2Node) handle(wire []byte) error { return x.n.Handler.HandleMsg(wire, p2Epoch) }

// ---- reference tally ----------------------------------------------------------------------------------

type p2Ref struct {
	first  [6]map[string]string // kind -> sender -> block it named first
	equiv  [6]map[string]bool
	weight [6]map[string]uint32 // kind -> block -> counted weight
	votes  map[string]*ucon.SingleVote
}

func newP2Ref() *p2Ref {
	r := &p2Ref{votes: map[string]*ucon.SingleVote{}}
	for i := range r.first {
		r.first[i], r.equiv[i], r.weight[i] = map[string]string{}, map[string]bool{}, map[string]uint32{}
	}
	return r
}

// count records one valid vote; result new | exist | equivocation | double.
func (r *p2Ref) count(kind ucon.VoteType, sender, block string, w uint32) string {
	k := int(kind)
	f, ok := r.first[k][sender]
	switch {
	case !ok:
		r.first[k][sender] = block
		r.weight[k][block] += w
		return "new"
	case r.equiv[k][sender]:
		return "double"
	case f == block:
		return "exist"
	}
	r.equiv[k][sender] = true
	r.weight[k][f] -= w
	return "equivocation"
}

func (r *p2Ref) set(kind ucon.VoteType, block string) map[string]bool {
	out := map[string]bool{}
	for snd, b := range r.first[int(kind)] {
		if b == block && !r.equiv[int(kind)][snd] {
			out[snd] = true
		}
	}
	return out
}

func setStr(m map[string]bool) string {
	var ks []string
	for k := range m {
		ks = append(ks, k)
	}
	sort.Strings(ks)
	return strings.Join(ks, ",")
}

// ---- one execution ------------------------------------------------------------------------------------------

type p2Result struct {
	viols     []mc.Violation
	counts    map[string]int64
	log       []string
	committed string
	tallyBad  map[string]bool // checkTallies: discrepancies already reported in this execution
}

func (res *p2Result) viol(sig, detail string) {
	res.viols = append(res.viols, mc.Violation{Sig: "part2: " + sig, Detail: detail})
}
func (res *p2Result) count(k string) { res.counts["p2 "+k]++ }

func sameVote(a, b *ucon.SingleVote) bool {
	return a != nil && b != nil && a.VoterIdx == b.VoterIdx && a.Votes == b.Votes && string(a.Proof) == string(b.Proof) && string(a.Signature) == string(b.Signature)
}

func (s *p2Scn) runCase(cs *p2Case, verbose bool) *p2Result {
	res := &p2Result{counts: map[string]int64{}}
	msg, where := mc.CatchStack(func() { s.exec(cs, res, verbose) })
	if msg != "" {
		res.viol("panic while a delivery was processed at "+where, fmt.Sprintf("%s (at %s); deliveries %v", msg, where, cs.Msgs))
	}
	return res
}

func (s *p2Scn) exec(cs *p2Case, res *p2Result, verbose bool) {
	x, err := s.newNode()
	if err != nil {
		res.viol("harness: node construction failed", err.Error())
		return
	}
	defer x.close()
	logf := func(f string, a ...interface{}) {
		if verbose {
			res.log = append(res.log, fmt.Sprintf(f, a...))
		}
	}
	ref := newP2Ref()
	cert := s.spec.Cert
	certified := false    // the node has cast its own certificate vote
	sawCommit := false    // a CommitEvent was posted
	missedNoCert := false // certificate round: both quorums present, but the node has no certificate vote of its own to escalate with
	var ownPC *ucon.SingleVote
	var anns []*p2Ann              // everything the Voter posted so far: live object + rendering at the announcement (announced.go)
	evNo := 0                      // number of the event (set-up step or delivery) being processed
	sigSeen := map[string]string{} // BLS signature bytes -> how the node came to know them: "verified" (carried by a genuine vote it was given) | "own" (produced by the node itself)
	verdicts := map[string]bool{}  // invalid message -> accepted at its first delivery

	// due: the reference says block must be committed
	due := func(block string) bool {
		if block == "" || block == "Z" || s.blocks[block] == nil {
			return false
		}
		if ref.weight[int(ucon.Precommit)][block] < s.q {
			return false
		}
		return !cert || ref.weight[int(ucon.Certificate)][block] >= s.qc
	}

	// drain processes everything the node posted during the last event; trigger = the block whose tally the
	// event raised ("" = none).  Own votes posted during the event raise tallies too.
	drain := func(event string, trigger string) {
		posts := x.posts
		x.posts = nil
		triggers := []string{trigger}
		evNo++
		// every EARLIER announcement is read again through its live object, as a consumer that gets to it only now
		s.rereadAnnounced(cs, res, x, anns, event, logf)
		for _, p := range posts {
			if p.raw != nil {
				if kind, lines := eventLines(p.raw, s.nameOf); kind != "" {
					a := &p2Ann{kind: kind, raw: p.raw, commit: p.commit, at: event, first: lines, last: lines}
					if p.commit != nil && p.commit.Block != nil {
						a.bn = s.bname[p.commit.Block.Hash()]
						a.pcw = ref.weight[int(ucon.Precommit)][a.bn]
						a.set = setStr(ref.set(ucon.Precommit, a.bn))
					}
					anns = append(anns, a)
					res.count("announced events tracked: " + kind)
				}
			}
			switch p.what {
			case "vote":
				bn := s.bname[p.msg.BlockHash]
				logf("    own %s(%s) weight %d", c02.KName(p.kind), bn, p.msg.Vote.Votes)
				if !s.member {
					res.viol("a node whose key is not in the validator set cast a vote", fmt.Sprintf("%s: %s(%s)", event, c02.KName(p.kind), bn))
					continue
				}
				if p.kind == ucon.NextIndex || p.msg.RoundIndex != s.ri {
					continue
				}
				if w := s.seats(s.me, p.kind, s.ri); p.msg.Vote.Votes != w {
					res.viol("own vote carries a weight other than the node's sortition weight", fmt.Sprintf("%s: own %s claims %d, sortition gives %d", event, c02.KName(p.kind), p.msg.Vote.Votes, w))
				}
				switch p.kind {
				case ucon.Precommit:
					// escalation soundness with real credentials: a prevote quorum for exactly that block
					if ref.weight[int(ucon.Prevote)][bn] < s.q {
						res.viol("own precommit without a counted prevote quorum", fmt.Sprintf("%s: precommit(%s) with prevote weight %d < %d", event, bn, ref.weight[int(ucon.Prevote)][bn], s.q))
					}
					v := *p.msg.Vote
					ownPC = &v
				case ucon.Certificate:
					if ref.weight[int(ucon.Precommit)][bn] < s.q {
						res.viol("own certificate vote without a counted precommit quorum", fmt.Sprintf("%s: certificate(%s) with precommit weight %d < %d", event, bn, ref.weight[int(ucon.Precommit)][bn], s.q))
					}
					certified = true
				}
				v := *p.msg.Vote
				ref.votes[c02.KName(p.kind)+":"+s.me.Name+":"+bn] = &v
				sigSeen[string(v.Signature)] = "own"
				if ref.count(p.kind, s.me.Name, bn, p.msg.Vote.Votes) != "new" {
					res.viol("the node voted twice with one kind in one (round, index)", fmt.Sprintf("%s: %s(%s)", event, c02.KName(p.kind), bn))
				}
				triggers = append(triggers, bn)
			case "commit":
				ev := p.commit
				bn := s.bname[ev.Block.Hash()]
				logf("    COMMIT(%s) with %d chamber precommits", bn, len(ev.ChamberPrecommits))
				if sawCommit {
					res.viol("second CommitEvent in one (round, index)", event)
					continue
				}
				sawCommit = true
				res.committed = bn
				s.checkCommit(cs, res, ref, x, ev, event, logf)
			case "update":
				res.count("UpdateExistedHeaderEvent posted")
			case "evidence":
				res.count("double-vote evidence posted")
			case "change":
				res.count("RoundIndexChangeEvent posted")
			}
		}
		if sawCommit {
			return
		}
		for _, t := range triggers {
			if !due(t) {
				continue
			}
			if cert && !certified {
				// Voter.judgeVoteCount escalates a precommit quorum only through the node's own certificate vote;
				// a node without one commits on the next certificate vote it counts.  Liveness, not part of the
				// property statement: recorded, not reported.
				missedNoCert = true
				return
			}
			w := ref.weight[int(ucon.Precommit)][t]
			b := "above"
			if w == s.q {
				b = "exactly"
			}
			res.viol(fmt.Sprintf("no CommitEvent although the delivered valid precommit weight reached the quorum %s", b),
				fmt.Sprintf("after %s: block %s has weight %d (quorum %d) from {%s}; deliveries %v", event, t, w, s.q, setStr(ref.set(ucon.Precommit, t)), cs.Msgs))
			return
		}
	}

	// ---- node start: context of (round, index, step 0), the proposals, and for a member node its own way to the precommit
	if s.spec.Stale {
		// the node works through the previous round index first: proposal Z, one precommit for it (below quorum), then the index changes
		x.n.Step(ucon.UConStepStart)
		if err := x.handle(s.bwire["Z"]); err != nil {
			res.viol("harness: previous-index proposal rejected", err.Error())
			return
		}
		x.n.SetRoundIndex(s.ri)
		drain("previous index", "")
	}
	x.n.Step(ucon.UConStepStart)
	for _, bn := range []string{"B", "A"} { // A last: it is the proposal a member node prevotes
		if err := x.handle(s.bwire[bn]); err != nil {
			res.viol("harness: honest proposal rejected by the message handler", bn+": "+err.Error())
			return
		}
	}
	drain("start", "")
	if s.member {
		x.n.Step(ucon.UConStepPrevote)
		drain("step 2", "")
		for _, m := range s.setupMsgs() {
			if ownPC != nil {
				break
			}
			pm, _ := s.parse(m)
			if err := x.handle(s.wire[m]); err != nil {
				res.viol("valid vote rejected by the message handler", m+": "+err.Error())
			}
			ref.count(pm.kind, pm.sender.Name, pm.block, s.seats(pm.sender, pm.kind, s.ri))
			if sv := s.voteOf(m); sv != nil {
				sigSeen[string(sv.Signature)] = "verified"
			}
			logf("  setup %s", m)
			drain("setup "+m, "")
		}
		s.checkTallies(res, ref, x, "the node's own way to its precommit", "", cs)
		if ownPC != nil {
			res.count("member node precommitted by itself after a real prevote quorum")
		}
	}

	// ---- the enumerated deliveries
	for i, name := range cs.Msgs {
		m, err := s.parse(name)
		if err != nil {
			res.viol("harness: "+err.Error(), "")
			return
		}
		ev := fmt.Sprintf("delivery %d (%s)", i+1, name)
		if m.timer {
			x.n.Step(ucon.UConStepPrecommit)
			logf("  %s", name)
			drain(ev, "")
			continue
		}
		wire, err := s.msgWire(name)
		if err != nil {
			res.viol("harness: "+err.Error(), "")
			return
		}
		herr := x.handle(wire)
		valid := m.valid(s)
		logf("  %-22s valid=%v handler=%v", name, valid, herr)
		trigger := ""
		class := ""
		if !valid {
			class = invalidClass(m)
			if m.lender != nil {
				// the verdict on a borrowed signature must not depend on what the node saw before: say on which side of the
				// lender's genuine vote this delivery is
				class += s.forgeHistory(sigSeen, wire)
			}
		}
		switch {
		case valid && herr != nil:
			res.viol("valid vote rejected by the message handler", fmt.Sprintf("%s: %v", name, herr))
		case !valid && herr == nil:
			res.viol("invalid vote not rejected: "+class, fmt.Sprintf("%s accepted; deliveries %v", name, cs.Msgs))
		case !valid:
			res.count("invalid vote rejected: " + class)
		}
		if !valid {
			first, again := verdicts[name]
			switch {
			case !again:
				verdicts[name] = herr == nil
			case !first && herr == nil:
				res.viol("the verdict on one and the same invalid vote message depends on the delivery history (refused at its first delivery, accepted when delivered again): "+invalidClass(m),
					fmt.Sprintf("%s; deliveries %v", ev, cs.Msgs))
			case first && herr != nil:
				res.viol("the verdict on one and the same invalid vote message depends on the delivery history (accepted at its first delivery, refused when delivered again): "+invalidClass(m),
					fmt.Sprintf("%s; deliveries %v", ev, cs.Msgs))
			case !first && m.lender != nil && strings.HasSuffix(class, forgeAfter):
				res.count("forge: one forged message refused at its first delivery and again after the lender's genuine vote (same execution)")
			}
		}
		if valid {
			if sv := s.voteOf(name); sv != nil {
				sigSeen[string(sv.Signature)] = "verified"
			}
			if m.block == "Z" {
				res.count("stale-index vote delivered (must not count in the current index)")
			} else {
				w := s.seats(m.sender, m.kind, s.ri)
				r := ref.count(m.kind, m.sender.Name, m.block, w)
				res.count("delivery " + r)
				if r == "new" {
					ref.votes[name] = s.voteOf(name)
					trigger = m.block
				}
				if r == "equivocation" && !sawCommit {
					res.count("equivocator's weight removed before the commit")
				}
				if r == "equivocation" && sawCommit {
					res.count("equivocation after the commit")
				}
			}
		}
		drain(ev, trigger)
		s.checkTallies(res, ref, x, ev, class, cs)
	}
	if !sawCommit {
		mx := uint32(0)
		for _, w := range ref.weight[int(ucon.Precommit)] {
			if w > mx {
				mx = w
			}
		}
		switch {
		case missedNoCert:
			res.count("certificate round: quorums present but no commit by a node without a certificate seat (liveness only)")
		case mx < s.q:
			res.count("no commit, delivered weight below the quorum")
			if mx+1 == s.q {
				res.count("no commit, delivered weight one seat below the quorum")
			}
		case cert:
			res.count("no commit, certificate quorum not reached")
		}
	} else if missedNoCert {
		res.count("certificate round: commit delayed to the next certificate vote (node without a certificate vote of its own)")
	}
	res.counts["p2 messages relayed by the handler"] += int64(x.relays)
	// the consumer that gets to the CommitEvent only now (Server.commit runs on the engine's event loop): pack the header
	// from the LIVE event after everything that was delivered since and offer it to the real verifiers
	for _, a := range anns {
		if a.commit != nil && a.later > 0 {
			s.lateCommit(cs, res, x, a, fmt.Sprintf("end of the execution, %d events after %s", a.later, a.at), logf)
		}
	}
}

// p2Ann is one announced event of a part-2 execution (see announced.go).
type p2Ann struct {
	kind   string
	raw    interface{}
	commit *ucon.CommitEvent
	at     string // the event during which it was posted
	bn     string
	first  []string
	last   []string
	later  int
	pcw    uint32 // CommitEvent: reference precommit weight and set at the announcement
	set    string
}

// rereadAnnounced: after a later event, every announced event must read exactly as before; a CommitEvent that changed is
// packed and verified right away as well (the consumer may get to it at any moment).
func (s *p2Scn) rereadAnnounced(cs *p2Case, res *p2Result, x *p2Node, anns []*p2Ann, event string, logf func(string, ...interface{})) {
	for _, a := range anns {
		a.later++
		_, now := eventLines(a.raw, s.nameOf)
		res.count("announced events re-read after a later event")
		if a.commit != nil {
			res.count("announced CommitEvent re-read after a later event")
		}
		cls, det := diffLines(a.last, now)
		if cls == "" {
			continue
		}
		a.last = now
		logf("    announced %s (posted during %s) CHANGED: %s", a.kind, a.at, det)
		res.viol(fmt.Sprintf("an already announced %s changed afterwards (the event handed to the mux shares state with the Voter): %s", a.kind, cls),
			fmt.Sprintf("posted during %s; after %s the event object the consumer holds reads differently: %s; deliveries %v", a.at, event, det, cs.Msgs))
		if a.commit != nil {
			s.lateCommit(cs, res, x, a, "right after "+event, logf)
		}
	}
}

// lateCommit: Server.commit (and the fixture packer) on the LIVE event, the packed header to the real verifiers.
func (s *p2Scn) lateCommit(cs *p2Case, res *p2Result, x *p2Node, a *p2Ann, when string, logf func(string, ...interface{})) {
	res.count("late consumer: announced commits packed again from the live event after later events")
	s.packAndVerify(cs, res, x, a.commit, a.bn, when, a.pcw, a.set, true, logf)
}

func invalidClass(m p2Msg) string {
	switch {
	case m.lender != nil:
		return forgeClass(m)
	case m.defect != "":
		return m.defect
	case !m.sender.Entitled():
		return "sender not entitled (house / offline / zero stake)"
	}
	return "no seat"
}

// voteOf decodes the SingleVote a wire message carries (what the Voter must store verbatim).
func (s *p2Scn) voteOf(name string) *ucon.SingleVote {
	w, err := s.msgWire(name)
	if err != nil {
		return nil
	}
	m, err := ucon.Decode(w)
	if err != nil {
		return nil
	}
	var b ucon.BlockHashWithVotes
	if err := m.DecodePayload(&b); err != nil {
		return nil
	}
	return b.Vote
}

type p2Verdict struct {
	err   error
	panic string
}

var p2Verdicts sync.Map

// checkCommit: the oracle on one CommitEvent.
func (s *p2Scn) checkCommit(cs *p2Case, res *p2Result, ref *p2Ref, x *p2Node, ev *ucon.CommitEvent, event string, logf func(string, ...interface{})) {
	c := s.c
	bn := s.bname[ev.Block.Hash()]
	res.count("commits checked")
	if bn == "B" {
		res.count("commit of the competing block B")
	}
	if ev.Round == nil || ev.Round.Uint64() != c.Round || ev.RoundIndex != s.ri {
		res.viol("CommitEvent names another (round, index) than the votes", fmt.Sprintf("%s: %v.%d", event, ev.Round, ev.RoundIndex))
	}
	pcw := ref.weight[int(ucon.Precommit)][bn]
	// 1. soundness: a counted quorum
	if pcw < s.q {
		why := "counted weight below the quorum"
		ew := uint32(0)
		for snd, b := range ref.first[int(ucon.Precommit)] {
			if b == bn && ref.equiv[int(ucon.Precommit)][snd] {
				ew += s.seats(s.byName[snd], ucon.Precommit, s.ri)
			}
		}
		if ew > 0 && pcw+ew >= s.q {
			why = "quorum only with the weight of a sender that voted for two blocks"
		} else if pcw+1 == s.q {
			why = "counted weight one seat below the quorum"
		}
		res.viol("CommitEvent without a counted precommit quorum: "+why, fmt.Sprintf("%s: block %s weight %d quorum %d; deliveries %v", event, bn, pcw, s.q, cs.Msgs))
	} else if pcw == s.q {
		res.count("commit with attached weight exactly the quorum")
	} else {
		res.count("commit with attached weight above the quorum")
	}
	if s.spec.Cert {
		if cw := ref.weight[int(ucon.Certificate)][bn]; cw < s.qc {
			res.viol("CommitEvent of a certificate round without a counted certificate quorum", fmt.Sprintf("%s: block %s certificate weight %d quorum %d", event, bn, cw, s.qc))
		}
	}
	// 2. the attached sets are exactly the reference sets, vote by vote
	s.sameSet(res, "precommits", ucon.Precommit, bn, ev.ChamberPrecommits, ref, event, cs)
	if len(ev.HousePrecommits) != 0 {
		res.viol("CommitEvent carries house precommits although no house member is entitled to vote", event)
	}
	if s.spec.Cert {
		s.sameSet(res, "certificate votes", ucon.Certificate, bn, ev.ChamberCerts, ref, event, cs)
	} else if len(ev.ChamberCerts) != 0 {
		res.viol("CommitEvent of a non-certificate round carries certificate votes", event)
	}
	if len(ref.weight[int(ucon.Precommit)]) > 1 {
		res.count("commit while two blocks had precommits")
	}
	if _, ok := ev.ChamberPrecommits[s.me.Addr]; ok {
		res.count("own precommit (signed by the real Voter) in the attached set")
		if len(ev.ChamberPrecommits) == 1 {
			res.count("commit by the own vote alone")
		}
	}
	// 3. packing: fixture packer (c01.PackCommit = Server.commit's statements) and the real Server.commit
	s.packAndVerify(cs, res, x, ev, bn, event, pcw, setStr(ref.set(ucon.Precommit, bn)), false, logf)
}

// packAndVerify packs the header of a CommitEvent (fixture packer and the real Server.commit) and offers it to the real
// verifiers.  late = the event is the live object of a commit that was announced some events ago (pcw / set = the
// reference weight and set at the announcement).
func (s *p2Scn) packAndVerify(cs *p2Case, res *p2Result, x *p2Node, ev *ucon.CommitEvent, bn, event string, pcw uint32, set string, late bool, logf func(string, ...interface{})) {
	c := s.c
	sfx := ""
	if late {
		sfx = " (late consumer)"
	}
	type packed struct {
		by string
		h  *types.Header
	}
	var hs []packed
	if h, err := c01.PackCommit(c, *ev); err != nil {
		if late {
			res.viol("late consumer: packing an already announced CommitEvent failed (c01.PackCommit)", fmt.Sprintf("%s: %v", event, err))
		} else {
			res.viol("packing the CommitEvent failed (c01.PackCommit)", fmt.Sprintf("%s: %v", event, err))
		}
	} else {
		hs = append(hs, packed{"PackCommit", h})
	}
	before := len(x.inserted)
	if msg := mc.Catch(func() { x.n.Commit(*ev) }); msg != "" {
		res.viol("Server.commit panicked on the CommitEvent"+sfx, fmt.Sprintf("%s: %s", event, msg))
	} else if len(x.inserted) != before+1 {
		res.viol("Server.commit did not hand a block to the inserter"+sfx, event)
	} else {
		hs = append(hs, packed{"Server.commit", x.inserted[before].Header()})
	}
	for _, p := range hs {
		p := p
		if !late {
			s.checkPacked(res, p.by, p.h, ev, bn, event)
		}
		for _, path := range []struct {
			name string
			f    func() error
		}{
			{"VerifyHeader", func() error { return c01.VerifyHeader(c, p.h) }},
			{"VerifySeal", func() error { return c01.VerifySeal(c, p.h) }},
			{"VerifySideChainHeader", func() error { return c01.VerifySideChain(c, p.h) }},
		} {
			// the verifier is a function of the header bytes and the (fixed) look-back chain: byte-identical
			// headers (same votes in the same list order) are verified once
			mk := fmt.Sprintf("%s|%v|%s|%x|%x|%x", c.Name, c.IsCert, path.name, p.h.Hash(), p.h.Validator, p.h.Certificate)
			var err error
			var pmsg string
			if v, ok := p2Verdicts.Load(mk); ok {
				vd := v.(p2Verdict)
				err, pmsg = vd.err, vd.panic
				res.count("headers byte-identical to an already verified one (verdict reused)")
			} else {
				pmsg = mc.Catch(func() { err = path.f() })
				p2Verdicts.Store(mk, p2Verdict{err, pmsg})
				res.count("headers verified")
			}
			b := "above"
			if pcw == s.q {
				b = "exactly at"
			} else if pcw < s.q {
				b = "below"
			}
			switch {
			case pmsg != "" && late:
				res.viol(fmt.Sprintf("late consumer: %s panicked on the header packed from an already announced CommitEvent", path.name), fmt.Sprintf("%s [%s]: %s", event, p.by, pmsg))
			case pmsg != "":
				res.viol(fmt.Sprintf("%s panicked on the header packed from a CommitEvent", path.name), fmt.Sprintf("%s [%s]: %s", event, p.by, pmsg))
			case err != nil && late:
				res.viol(fmt.Sprintf("late consumer: the header packed from an already announced CommitEvent after later deliveries (as Server.commit does on the engine goroutine) is rejected by %s (weight at the announcement %s the quorum): %v", path.name, b, err),
					fmt.Sprintf("%s [%s]: block %s, announced with {%s} weight %d quorum %d, the event now attaches %d precommits; deliveries %v", event, p.by, bn, set, pcw, s.q, len(ev.ChamberPrecommits), cs.Msgs))
			case err != nil:
				res.viol(fmt.Sprintf("header packed from the CommitEvent is rejected by %s (attached weight %s the quorum): %v", path.name, b, err),
					fmt.Sprintf("%s [%s]: block %s, attached {%s} weight %d quorum %d; deliveries %v", event, p.by, bn, set, pcw, s.q, cs.Msgs))
			default:
				res.count("headers accepted" + sfx)
				res.count("headers accepted by " + path.name + sfx)
			}
			logf("      %-14s %-22s -> %v %s%s", p.by, path.name, err, pmsg, sfx)
		}
	}
}

// sameSet: attached votes == reference set, and each attached vote is the delivered one, verbatim.
func (s *p2Scn) sameSet(res *p2Result, what string, kind ucon.VoteType, bn string, got ucon.VotesInfoForBlockHash, ref *p2Ref, event string, cs *p2Case) {
	want := ref.set(kind, bn)
	g := map[string]bool{}
	for a := range got {
		n := "?" + a.String()
		for name, m := range s.byName {
			if m.Addr == a {
				n = name
			}
		}
		g[n] = true
	}
	if setStr(g) != setStr(want) {
		why := "other"
		var extra, missing []string
		for n := range g {
			if !want[n] {
				extra = append(extra, n)
			}
		}
		for n := range want {
			if !g[n] {
				missing = append(missing, n)
			}
		}
		switch {
		case len(extra) > 0 && len(missing) == 0:
			why = "a vote that must not count is attached"
			for _, n := range extra {
				if ref.equiv[int(kind)][n] {
					why = "the vote of a sender that voted for two blocks is attached"
				} else if f, ok := ref.first[int(kind)][n]; ok && f != bn {
					why = "a vote for another block is attached"
				}
			}
		case len(missing) > 0 && len(extra) == 0:
			why = "a counted vote is missing"
		case len(missing) > 0 && len(extra) > 0:
			why = "votes of another block attached instead of the counted ones"
		}
		res.viol(fmt.Sprintf("%s attached to the CommitEvent differ from the delivered distinct non-equivocating valid ones: %s", what, why),
			fmt.Sprintf("%s: block %s attached {%s}, reference {%s}; deliveries %v", event, bn, setStr(g), setStr(want), cs.Msgs))
		return
	}
	for a, v := range got {
		for name, m := range s.byName {
			if m.Addr != a {
				continue
			}
			if w := ref.votes[c02.KName(kind)+":"+name+":"+bn]; !sameVote(w, v) {
				res.viol(fmt.Sprintf("%s attached to the CommitEvent: a vote is not the delivered one, verbatim", what), fmt.Sprintf("%s: vote of %s: attached %+v delivered %+v", event, name, v, w))
			}
		}
	}
}

// checkPacked: header.Validator / header.Certificate list exactly the attached votes, once each.
func (s *p2Scn) checkPacked(res *p2Result, by string, h *types.Header, ev *ucon.CommitEvent, bn, event string) {
	if h.Hash() != ev.Block.Hash() {
		res.viol("packing changed the block hash", fmt.Sprintf("%s [%s]", event, by))
	}
	cmp := func(what string, lb params.LookBackType, list func(*ucon.UconValidators) []ucon.SingleVote, att ucon.VotesInfoForBlockHash) {
		uv, err := ucon.ExtractUconValidators(h, lb)
		if err != nil {
			res.viol("packed header does not decode: "+what, fmt.Sprintf("%s [%s]: %v", event, by, err))
			return
		}
		if uv.RoundIndex != s.ri {
			res.viol("packed header names another round index: "+what, fmt.Sprintf("%s [%s]: %d", event, by, uv.RoundIndex))
		}
		var gotK, wantK []string
		for _, v := range list(uv) {
			gotK = append(gotK, fmt.Sprintf("%d/%d/%x", v.VoterIdx, v.Votes, v.Proof))
		}
		for _, v := range att {
			wantK = append(wantK, fmt.Sprintf("%d/%d/%x", v.VoterIdx, v.Votes, v.Proof))
		}
		sort.Strings(gotK)
		sort.Strings(wantK)
		if strings.Join(gotK, " ") != strings.Join(wantK, " ") {
			why := "other votes"
			switch {
			case len(gotK) < len(wantK):
				why = "a vote is missing"
			case len(gotK) > len(wantK):
				why = "a vote is listed twice or added"
			}
			res.viol(fmt.Sprintf("%s packed into the header differ from the votes attached to the CommitEvent: %s", what, why),
				fmt.Sprintf("%s [%s]: packed %d entries, attached %d", event, by, len(gotK), len(wantK)))
		}
	}
	cmp("chamber precommits", params.LookBackPos, func(u *ucon.UconValidators) []ucon.SingleVote { return u.ChamberCommitters }, ev.ChamberPrecommits)
	if s.spec.Cert {
		cmp("certificate votes", params.LookBackCert, func(u *ucon.UconValidators) []ucon.SingleVote { return u.ChamberCerts }, ev.ChamberCerts)
	}
}

// ---- plans, run, replay -----------------------------------------------------------------------------------------

func p2Plans(quick bool) (specs []p2Spec, defects []string) {
	if quick {
		defects = []string{"claim"}
		specs = []p2Spec{
			// borrowed-signature dimension (forge.go): every (forger, lender) pair, every order relative to the lender's genuine vote
			{Cfg: "a", Me: "out", Forge: 1}, // four equal members, any three make the quorum: a counted forged vote completes a quorum
			{Cfg: "a", Me: "a0", Forge: 1},  // member node: it has verified the others' prevotes (same signature bytes) before its own precommit
			// post-commit dimension (generateLate): what is delivered AFTER the CommitEvent was posted and before its consumer packs it
			{Cfg: "b", Me: "out", Late: 1}, // the whale's vote alone is exactly the quorum: the commit is announced at the boundary, then the whale (or anybody) votes again
			{Cfg: "a", Me: "a0", Late: 2},  // member node: its own precommit + any two others (slack below one member's weight); pairs of further votes
			// outsider node: all four entitled members are senders
			{Cfg: "b", Me: "out", Extras: 1},  // the whale alone weighs exactly the quorum; B can win
			{Cfg: "c", Me: "out", Extras: 1},  // four equal members (as in a) + house / offline / zero-stake senders
			{Cfg: "a", Me: "out", Extras: 0},  // (a) itself: plain subsets × orders (its extras are left to thorough: c contains it)
			{Cfg: "b-", Me: "out", Extras: 0}, // the whale alone is one seat short of the quorum
			// member nodes: the own precommit is signed by the real Voter after a real prevote quorum
			{Cfg: "b", Me: "b0", Extras: 0}, // commit by the own vote alone, exactly at the quorum
			{Cfg: "b", Me: "b1", Extras: 1},
			{Cfg: "a", Me: "a0", Extras: 1},
			{Cfg: "b-", Me: "b0", Extras: 1}, // own vote one seat below the quorum
		}
		return
	}
	defects = []string{"claim", "wrongsig"}
	// (most valuable first: the internal deadline cuts the tail)
	specs = []p2Spec{
		// borrowed-signature dimension (forge.go), every subset of the other members' votes in every form
		{Cfg: "a", Me: "out", Forge: 2},
		{Cfg: "a", Me: "a0", Forge: 2},
		{Cfg: "b-", Me: "b0", Forge: 2}, // the node's own vote is one seat short of the quorum: any counted forged vote commits
		{Cfg: "b", Me: "b1", Forge: 2},
		{Cfg: "b", Me: "out", Forge: 2},
		{Cfg: "b", Cert: true, Me: "b1", Forge: 2}, // certificate round: forged CERTIFICATE votes (the lender's precommit and certificate vote carry the same bytes)
		{Cfg: "a", Cert: true, Me: "a0", Forge: 2},
		// post-commit dimension (generateLate), pairs of further votes
		{Cfg: "b", Me: "out", Late: 2},
		{Cfg: "a", Me: "out", Late: 2},
		{Cfg: "a", Me: "a0", Late: 2},
		{Cfg: "b-", Me: "b0", Late: 2}, // own vote one seat below the quorum + any other member
		{Cfg: "b", Me: "b1", Late: 2},
		{Cfg: "b", Me: "b0", Late: 2}, // commit by the own vote alone: only late votes can follow
		// every order to its end (deliveries after the commit included), the step-4 timer interleaved
		{Cfg: "b", Me: "out", Extras: 1, Timer: true, Full: true},
		{Cfg: "c", Me: "out", Extras: 1, Timer: true},
		{Cfg: "a", Me: "out", Extras: 1, Timer: true},
		{Cfg: "b-", Me: "out", Extras: 1, Timer: true},
	}
	for _, me := range []string{"a0", "b0", "b1", "c0"} {
		specs = append(specs, p2Spec{Cfg: me[:1], Me: me, Extras: 1, Timer: true, Full: true})
	}
	specs = append(specs,
		p2Spec{Cfg: "b-", Me: "b0", Extras: 1, Timer: true, Full: true},
		// certificate round (2·ACoCHTFrequency): precommits and certificate votes of the other members, every interleaving
		p2Spec{Cfg: "b", Cert: true, Me: "b0", Extras: 0},
		p2Spec{Cfg: "b", Cert: true, Me: "b1", Extras: 1}, // + one vote (precommit or certificate) for the competing block where at most 3 votes interleave
		p2Spec{Cfg: "a", Cert: true, Me: "a0", Extras: 0},
		p2Spec{Cfg: "b", Cert: true, Me: "out", Extras: 0, Max: 4},
		// round index 2 after the node went through index 1: re-votes, and votes of index 1 arriving late
		p2Spec{Cfg: "b", Me: "out", RI: 2, Extras: 1, Stale: true},
		// pairs of extra messages (two equivocators, equivocator + duplicate, two duplicates), up to the commit
		p2Spec{Cfg: "b", Me: "out", Extras: 2},
	)
	return
}

func part2(r *mc.Run) {
	start := time.Now()
	p2InstallHooks(r)
	params.InitNetworkId(params.NetworkIdForTestCase)
	c01.Quiet()
	r.Rule += " || PART 2 (real crypto): per fixture of checks/c01 (validator sets a, b [whale alone = quorum], b- [whale one seat short], c [+ house/offline/zero-stake records]) a real node without goroutines (Server+SortitionManager+Proposal+Voter+MessageHandler wired as StartMining does, real credential verification against the committed look-back set) receives real signed wire messages through MessageHandler.HandleMsg: every subset of senders precommitting block A × one extra message (vote of any sender for the competing block B = equivocation or other-block vote; duplicate; over-claimed weight; votes of non-entitled records; thorough: + BLS signature over another payload, the step-4 timer, late votes of the previous round index, pairs of extras, certificate round with every interleaving of precommits and certificate votes) × every distinct delivery order; node = outsider key, or a member whose own precommit is produced by the real Voter after a real prevote quorum; an order is executed up to the delivery at which the reference commits and orders sharing that prefix (identical executions up to the commit) run once (scenarios marked /full: every order to its end); oracle = reference tally of the delivery history (commit exactly when the delivered valid distinct non-equivocating weight reaches floor(0.685·T), attached set exact and verbatim, header packed by c01.PackCommit and by the real Server.commit lists exactly those votes and is accepted by VerifyHeader, VerifySeal and VerifySideChainHeader); distinct = (scenario, subset, variant, executed order) || PART 2 borrowed-signature dimension (forge.go, BLS on: the signer is looked up by VoterIdx and the signed payload hash‖round‖index names neither signer nor vote kind): for EVERY ordered pair (forger X, lender Y) of seat holders (Y also the node itself when it is a member) the forged precommits 'X's own index, sortition credential and envelope + the BLS signature bytes of Y's genuine vote for the same (block, round, index)' and '... of Y's genuine vote for the other block' (both directions), interleaved in EVERY order with Y's genuine precommit (before it, after it, the same forged message twice = both), with Y's prevote instead (the other vote kind carries the same bytes), with X's own genuine precommit, and with every subset (quick: in the cross-block / other-kind forms subsets of size <= 1, in the twice / own-genuine forms the empty subset) of the other members' genuine precommits; oracles: a forged vote is refused on either side of the lender's vote, the verdict on one message never changes between two deliveries, after EVERY delivery of every part-2 scenario the tallies and vote sets the real Voter holds equal the reference tally of the delivery history, and every CommitEvent passes the checks above (real verifiers accept the packed header) || PART 2 post-commit dimension (generateLate; the CommitEvent is consumed later, on another goroutine, while the Voter keeps processing votes): for every subset of the senders and EVERY delivery order at whose last delivery the reference commits (member nodes: the own vote included), every sequence of at most Late (quick: 1 on fixture b outsider node [commit exactly at the quorum by the whale alone], 2 on fixture a member node; thorough: 2 on a, b, b-, outsider and member nodes) distinct further votes that can touch the announced set — PC:m:B of an attached sender (equivocation after the announcement), PC:m:A of a sender not attached (late vote), duplicates, other-block votes (length 1 after every committing order, longer sequences after the first committing order of each subset); oracles in EVERY part-2 scenario: each event the Voter posted is kept as the live object and re-read after every later event — any difference to its rendering at the announcement is a violation — and every announced CommitEvent followed by further events is packed again from the live object by c01.PackCommit and by the real Server.commit (right after a change and at the end of the execution) and the header must again be accepted by VerifyHeader, VerifySeal and VerifySideChainHeader"
	r.Assume("part 2: credentials are real (VRF sortition proofs, BLS vote signatures and ECDSA envelopes produced with the fixture's keys and verified by the production code against the fixture's committed look-back validator set)")
	r.Assume("part 2, forged votes: the forger is a committee member with a seat (its sortition credential and envelope are genuine) and has seen the lender's genuine vote on the gossip network; it cannot produce a signature under a key it does not hold")
	r.Assume("part 2: the harness plays the event mux synchronously (one handler call = one atomic step); the competing block B is a second proposal of the same proposer (equivocating proposer); message timestamps are fixed")
	specs, defects := p2Plans(r.Quick())
	if only := os.Getenv("VERIF_C03_P2_ONLY"); only != "" {
		var f []p2Spec
		for _, s := range specs {
			if strings.HasPrefix(s.Cfg+"/"+s.Me, only) {
				f = append(f, s)
			}
		}
		specs = f
	}
	if fo := os.Getenv("VERIF_C03_P2_FORGE"); fo != "" { // only | off
		var f []p2Spec
		for _, s := range specs {
			if (s.Forge > 0) == (fo == "only") {
				f = append(f, s)
			}
		}
		specs = f
	}
	var all []*p2Case
	orders := 0
	scnInfo := map[string]interface{}{}
	for _, sp := range specs {
		if r.Expired() {
			break
		}
		s, err := newP2Scn(sp)
		if err != nil {
			r.HarnessError("part2 scenario " + sp.name() + ": " + err.Error())
			continue
		}
		var fst *forgeStats
		switch {
		case sp.Forge > 0:
			fst = s.generateForge()
		case sp.Late > 0:
			s.generateLate()
		case sp.Cert:
			s.generateCert()
		default:
			s.generate(defects)
		}
		if err := s.prepareWires(); err != nil {
			r.HarnessError("part2 scenario " + sp.name() + ": " + err.Error())
			continue
		}
		all = append(all, s.cases...)
		if fst != nil {
			n, err := s.checkBorrowed(fst.forged)
			if err != nil {
				r.HarnessError("part2 scenario " + sp.name() + ": forged alphabet: " + err.Error())
				continue
			}
			r.Count("p2 forge: (forger, lender) ordered pairs enumerated", int64(fst.pairs))
			r.Count("p2 forge: distinct forged messages (each checked: signature bytes = the lender's genuine ones, verify under the lender's key, fail under the forger's key, rest of the vote = the forger's genuine one)", int64(n))
			forms := map[string]interface{}{}
			for f, k := range fst.forms {
				r.Count("p2 forge: delivery orders of form "+f, int64(k))
				forms[f] = k
			}
			orders += s.orders
			scnInfo[s.spec.name()] = map[string]interface{}{"delivery_orders": s.orders, "round": s.c.Round, "round_index": s.ri, "quorum": s.q, "node": s.me.Name,
				"forger_lender_pairs": fst.pairs, "forged_messages": n, "orders_per_form": forms, "cases": len(s.cases)}
			continue
		}
		// subset classes (vacuity: which side of the quorum the subsets are on), own vote included
		own := uint32(0)
		if s.member {
			own = s.seats(s.me, ucon.Precommit, s.ri)
		}
		var seats []string
		for _, m := range s.voters {
			seats = append(seats, fmt.Sprintf("%s=%d", m.Name, s.seats(m, ucon.Precommit, s.ri)))
		}
		for mask := 0; mask < 1<<uint(len(s.voters)); mask++ {
			w := own
			for i, m := range s.voters {
				if mask&(1<<uint(i)) != 0 {
					w += s.seats(m, ucon.Precommit, s.ri)
				}
			}
			switch {
			case w == s.q:
				r.Count("p2 subsets with weight exactly the quorum", 1)
			case w > s.q:
				r.Count("p2 subsets above the quorum", 1)
			case w+1 == s.q:
				r.Count("p2 subsets one seat below the quorum", 1)
				fallthrough
			default:
				r.Count("p2 subsets below the quorum", 1)
			}
		}
		orders += s.orders
		scnInfo[s.spec.name()] = map[string]interface{}{"delivery_orders": s.orders, "round": s.c.Round, "round_index": s.ri, "quorum": s.q, "node": s.me.Name, "node_own_precommit_seats": own,
			"sender_precommit_seats": strings.Join(seats, " "), "non_entitled_senders": len(s.others), "cases": len(s.cases)}
	}
	r.Count("p2 scenarios", int64(len(scnInfo)))
	if os.Getenv("VERIF_C03_P2_DRY") != "" {
		var ks []string
		for k := range scnInfo {
			ks = append(ks, k)
		}
		sort.Strings(ks)
		for _, k := range ks {
			m := scnInfo[k].(map[string]interface{})
			fmt.Printf("p2 dry: %-22s orders %7v executions %7v\n", k, m["delivery_orders"], m["cases"])
		}
		return
	}
	var sampleMu sync.Mutex
	var samples []interface{}
	var done int64
	var flaky sync.Map
	r.ForEach(len(all), func(w, i int) {
		cs := all[i]
		res := cs.scn.runCase(cs, false)
		atomic.AddInt64(&done, 1)
		r.Distinct(fmt.Sprintf("p2|%s|%d|%s|%s", cs.Spec.name(), cs.Subset, cs.Variant, strings.Join(cs.Msgs, ",")))
		r.Count("p2 executions", 1)
		r.Count("p2 delivery orders covered by the executions", int64(cs.Covers))
		r.Count("p2 variant: "+cs.Variant, 1)
		for k, n := range res.counts {
			r.Count(k, n)
		}
		if len(res.viols) > 0 {
			// determinism gate: a violation counts only if the same case shows it again (up to three
			// re-executions: the order in which PackVotes lists the votes follows Go's map iteration, so a
			// defect that depends on that order need not show on every execution)
			again := map[string]bool{}
			for k := 0; k < 3; k++ {
				for _, g := range cs.scn.runCase(cs, false).viols {
					again[g.Sig] = true
				}
				all := true
				for _, v := range res.viols {
					all = all && again[v.Sig]
				}
				if all {
					break
				}
			}
			for _, v := range res.viols {
				if !again[v.Sig] {
					if _, dup := flaky.LoadOrStore(v.Sig, true); !dup {
						r.HarnessError(fmt.Sprintf("part2: violation %q of %s %v did not reproduce on three re-executions", v.Sig, cs.Spec.name(), cs.Msgs))
					}
					continue
				}
				v.System, v.Config, v.Input = p2System, cs.Spec.name(), cs
				r.Report(v)
			}
		}
		if i%997 == 3 {
			sampleMu.Lock()
			if len(samples) < 8 {
				samples = append(samples, map[string]interface{}{"scenario": cs.Spec.name(), "variant": cs.Variant, "deliveries": cs.Msgs, "committed": res.committed})
			}
			sampleMu.Unlock()
		}
	})
	r.SetExtra("part2", map[string]interface{}{"scenarios": scnInfo, "delivery_orders_enumerated": orders, "executions_planned": len(all), "executions_done": atomic.LoadInt64(&done),
		"samples": samples, "wall_s": time.Since(start).Seconds()})
}

func part2Replay(r *mc.Run, v *mc.Violation) {
	p2InstallHooks(r)
	params.InitNetworkId(params.NetworkIdForTestCase)
	c01.Quiet()
	bs, _ := json.Marshal(v.Input)
	var cs p2Case
	if err := json.Unmarshal(bs, &cs); err != nil {
		fmt.Println("bad replay input:", err)
		return
	}
	s, err := newP2Scn(cs.Spec)
	if err != nil {
		fmt.Println("scenario:", err)
		return
	}
	cs.scn = s
	fmt.Printf("scenario %s: round %d index %d, node %s, quorum %d\n", cs.Spec.name(), s.c.Round, s.ri, s.me.Name, s.q)
	for _, m := range s.c.Members {
		fmt.Printf("  %-4s entitled=%-5v precommit seats %d\n", m.Name, m.Entitled(), s.seats(m, ucon.Precommit, s.ri))
	}
	res := s.runCase(&cs, true)
	for _, l := range res.log {
		fmt.Println(l)
	}
	fmt.Println("committed:", res.committed)
	for _, x := range res.viols {
		fmt.Println("  violation:", x.Sig, "|", x.Detail)
		if x.Sig == v.Sig {
			x.System, x.Config, x.Input = p2System, cs.Spec.name(), cs
			r.Report(x)
		}
	}
}
