// C03 part 2, borrowed-signature dimension ("only votes with verified
// credentials are counted" + "commit => every verifier accepts", BLS on).
//
// Under BLS the signer of a vote is not recovered from the signature: it is
// LOOKED UP by SingleVote.VoterIdx, and the only thing that binds the vote to
// that member is the pairing check against that member's key.  The signed
// payload is hash ‖ round ‖ roundIndex — it names neither the signer nor the
// vote kind — so the signature bytes of any member's genuine vote are a
// well-formed signature for every other member's vote on the same block.
//
// Alphabet added here (message names, see part2.go):
//
//	<kind>:<X>:<blk>:sig=<Y>    X's own voter index, sortition credential and ECDSA envelope, BLS signature bytes
//	                            = those of Y's genuine vote for the same (block, round, index)
//	<kind>:<X>:<blk>:xsig=<Y>   … = those of Y's genuine vote for the OTHER block of the index
//
// Enumerated by generateForge for EVERY ordered pair (forger X, lender Y) of
// entitled seat holders (Y also ranges over the node itself when it is a
// member), in EVERY order relative to the lender's genuine vote (before it,
// after it, both = the same forged message twice) and to every subset of the
// other members' genuine precommits:
//
//	same    F=PC:X:A:sig=Y            with every subset of the genuine precommits of the members other than X
//	cross   F=PC:X:B:xsig=Y           (names B, carries Y's signature for A) with PC:Y:A + subsets of the rest
//	cross'  F=PC:X:A:xsig=Y           (names A, carries Y's signature for B) with PC:Y:B + subsets of the rest
//	kind    F=PC:X:A:sig=Y            with Y's PREVOTE (same bytes: the payload has no kind) and no precommit of Y
//	                                  (outsider node; a member node sees the prevotes on its own way to the precommit)
//	twice   F, F                      with PC:Y:A + subsets of the rest
//	both    F and X's genuine PC:X:A  with PC:Y:A + subsets of the rest (which of X's two votes does the node keep?)
//	cert    F=CT:X:A:sig=Y            certificate round (thorough): a forged CERTIFICATE vote, once and twice, with every
//	                                  subset of {Y's precommit, Y's certificate vote (same bytes again), the other
//	                                  members' certificate votes}
//
// Quick tier (Forge level 1): fixture a, outsider node and member node a0; "same" with every subset, cross / cross' /
// kind with subsets of size <= 1, twice / both with the empty subset.  Thorough (level 2): every subset in every form,
// fixtures a, b, b- (outsider and member nodes) and the certificate round of a and b.
//
// Oracles (all existing ones stay on): a forged vote is refused whatever was
// delivered before (the violation names on which side of the lender's vote it
// was accepted); the verdict on one message is the same at every delivery; the
// tallies and vote sets the Voter holds equal the reference tally of the
// delivery history after every delivery (checkTallies, through the read-only
// dump of export_verif_c02.go on the real node's Voter); every CommitEvent is
// checked as in part2.go (counted quorum, exact verbatim set, packed header
// accepted by VerifyHeader / VerifySeal / VerifySideChainHeader).
package c03

import (
	"fmt"
	"math/big"
	"sort"
	"strings"

	"github.com/youchainhq/go-youchain/bls"
	"github.com/youchainhq/go-youchain/common"
	"github.com/youchainhq/go-youchain/consensus/ucon"

	"verif/checks/c01"
	"verif/checks/c02"
)

const (
	forgeBefore = " [no vote carrying that signature was given to the node before]"
	forgeAfter  = " [after the node verified the lender's genuine vote carrying that signature]"
	forgeOwn    = " [the signature is the one the node produced for its own vote]"
)

// parseForge resolves the lender of a sig=/xsig= defect.
func (s *p2Scn) parseForge(m *p2Msg, name string) error {
	var ln string
	switch {
	case strings.HasPrefix(m.defect, "sig="):
		ln = m.defect[4:]
	case strings.HasPrefix(m.defect, "xsig="):
		ln = m.defect[5:]
	default:
		return nil
	}
	if m.lender = s.byName[ln]; m.lender == nil {
		return fmt.Errorf("unknown lender in %q", name)
	}
	if m.lender == m.sender {
		return fmt.Errorf("forger and lender coincide in %q", name)
	}
	return nil
}

func (m p2Msg) cross() bool { return strings.HasPrefix(m.defect, "xsig=") }

// signedBlock: the block whose payload the carried signature covers.
func (s *p2Scn) signedBlock(m p2Msg) string {
	if !m.cross() {
		return m.block
	}
	if m.block == "A" {
		return "B"
	}
	return "A"
}

// borrowedSig = the signature bytes of the lender's genuine vote (c01.Config.BlsSign is what SignVote attaches).
func (s *p2Scn) borrowedSig(m p2Msg, ri uint32) []byte {
	blk := s.blockOf(s.signedBlock(m))
	return s.c.BlsSign(m.lender, c01.VotePayload(blk.Hash(), new(big.Int).SetUint64(s.c.Round), ri))
}

// forgeClass: stable class of a forged vote (no member names).
func forgeClass(m p2Msg) string {
	if m.cross() {
		return "own index, credential and envelope with the BLS signature of ANOTHER member's vote for the other block of the index"
	}
	return "own index, credential and envelope with the BLS signature of ANOTHER member's vote for the same block, round and index"
}

// forgeHistory says on which side of the lender's genuine vote a forged delivery is.
func (s *p2Scn) forgeHistory(sigSeen map[string]string, wire []byte) string {
	sv := voteOfWire(wire)
	if sv == nil {
		return ""
	}
	switch sigSeen[string(sv.Signature)] {
	case "verified":
		return forgeAfter
	case "own":
		return forgeOwn
	}
	return forgeBefore
}

func voteOfWire(w []byte) *ucon.SingleVote {
	m, err := ucon.Decode(w)
	if err != nil {
		return nil
	}
	var b ucon.BlockHashWithVotes
	if err := m.DecodePayload(&b); err != nil {
		return nil
	}
	return b.Vote
}

// ---- generation ------------------------------------------------------------------------------------------------

type forgeStats struct {
	pairs  int
	forms  map[string]int // form -> delivery orders
	forged map[string]bool
}

// subsets calls fn with every subset of items whose size is at most max (max < 0: no limit).
func subsets(items []string, max int, fn func([]string)) {
	for mask := 0; mask < 1<<uint(len(items)); mask++ {
		var sub []string
		for i, it := range items {
			if mask&(1<<uint(i)) != 0 {
				sub = append(sub, it)
			}
		}
		if max >= 0 && len(sub) > max {
			continue
		}
		fn(sub)
	}
}

// generateForge builds the cases of the borrowed-signature dimension (see the file comment).
// Level 1 (quick): cross / cross' / kind with subsets of the rest of size <= 1, twice / both with the empty subset.
// Level 2 (thorough): every subset everywhere.
func (s *p2Scn) generateForge() *forgeStats {
	st := &forgeStats{forms: map[string]int{}, forged: map[string]bool{}}
	lim1, lim0 := 1, 0
	if s.spec.Forge >= 2 {
		lim1, lim0 = -1, -1
	}
	var seated []*c01.Member // senders with a precommit seat
	for _, m := range s.voters {
		if s.seats(m, ucon.Precommit, s.ri) > 0 {
			seated = append(seated, m)
		}
	}
	lenders := append([]*c01.Member{}, seated...)
	if s.member && s.seats(s.me, ucon.Precommit, s.ri) > 0 {
		lenders = append(lenders, s.me)
	}
	add := func(form, variant string, fixed []string, pool []string, max int) {
		subsets(pool, max, func(sub []string) {
			all := append(append([]string{}, fixed...), sub...)
			permutations(all, func(o []string) {
				st.forms[form]++
				s.addCase(0, variant, o)
			})
		})
	}
	if s.spec.Cert {
		s.generateForgeCert(st, add)
		return st
	}
	for _, x := range seated {
		for _, y := range lenders {
			if x == y {
				continue
			}
			st.pairs++
			var others, rest []string // genuine precommits for A of the senders other than X / other than X and Y
			for _, z := range seated {
				if z == x {
					continue
				}
				others = append(others, "PC:"+z.Name+":A")
				if z != y {
					rest = append(rest, "PC:"+z.Name+":A")
				}
			}
			f := "PC:" + x.Name + ":A:sig=" + y.Name
			fxB := "PC:" + x.Name + ":B:xsig=" + y.Name // names B, carries Y's signature for A
			fxA := "PC:" + x.Name + ":A:xsig=" + y.Name // names A, carries Y's signature for B
			st.forged[f], st.forged[fxB] = true, true
			var g []string // the lender's genuine precommit as a message (the node's own one is cast by the node itself)
			if y != s.me {
				g = []string{"PC:" + y.Name + ":A"}
			}
			add("same", "forged: another member's signature for the same block", []string{f}, others, -1)
			add("cross", "forged: another member's signature for the other block (vote names B)", append([]string{fxB}, g...), rest, lim1)
			add("twice", "forged: another member's signature for the same block, delivered twice", append([]string{f, f}, g...), rest, lim0)
			add("both", "forged: another member's signature for the same block + the forger's genuine vote", append([]string{f, "PC:" + x.Name + ":A"}, g...), rest, lim0)
			if y != s.me {
				st.forged[fxA] = true
				add("cross'", "forged: another member's signature for the other block (vote names A)", []string{fxA, "PC:" + y.Name + ":B"}, rest, lim1)
				if !s.member && s.seats(y, ucon.Prevote, s.ri) > 0 {
					add("kind", "forged: signature of another member's vote of the other kind (prevote)", []string{f, "PV:" + y.Name + ":A"}, rest, lim1)
				}
			}
		}
	}
	return st
}

// generateForgeCert: certificate round, the forged vote is a CERTIFICATE vote of X that carries Y's signature (Y's
// precommit and Y's certificate vote carry the same bytes): for every ordered pair, F alone and F twice with every subset
// of {Y's genuine precommit, Y's genuine certificate vote, the other members' genuine certificate votes}, every order.
func (s *p2Scn) generateForgeCert(st *forgeStats, add func(form, variant string, fixed []string, pool []string, max int)) {
	lenders := append([]*c01.Member{}, s.voters...)
	if s.member {
		lenders = append(lenders, s.me)
	}
	for _, x := range s.voters {
		if s.seats(x, ucon.Certificate, s.ri) == 0 {
			continue
		}
		for _, y := range lenders {
			if x == y {
				continue
			}
			st.pairs++
			f := "CT:" + x.Name + ":A:sig=" + y.Name
			st.forged[f] = true
			var pool, gs []string
			if y != s.me {
				if s.seats(y, ucon.Precommit, s.ri) > 0 {
					gs = append(gs, "PC:"+y.Name+":A")
				}
				if s.seats(y, ucon.Certificate, s.ri) > 0 {
					gs = append(gs, "CT:"+y.Name+":A")
				}
			}
			pool = append(pool, gs...)
			for _, z := range s.voters {
				if z != x && z != y && s.seats(z, ucon.Certificate, s.ri) > 0 {
					pool = append(pool, "CT:"+z.Name+":A")
				}
			}
			add("cert", "forged certificate vote: another member's signature for the same block", []string{f}, pool, -1)
			add("cert-twice", "forged certificate vote: another member's signature for the same block, delivered twice", []string{f, f}, gs, -1)
		}
	}
}

// checkBorrowed: sanity of the forged alphabet (vacuity guard): the carried signature is byte-identical to the one in the
// lender's genuine wire message, differs from the forger's own, verifies under the lender's key and does NOT verify
// under the forger's key; everything else in the message is the forger's genuine vote.
func (s *p2Scn) checkBorrowed(names map[string]bool) (checked int, err error) {
	mgr := bls.NewBlsManager()
	var ks []string
	for n := range names {
		ks = append(ks, n)
	}
	sort.Strings(ks)
	for _, n := range ks {
		m, err := s.parse(n)
		if err != nil {
			return checked, err
		}
		w, err := s.msgWire(n)
		if err != nil {
			return checked, err
		}
		got := voteOfWire(w)
		signed := s.signedBlock(m)
		lw, err := s.msgWire(m.kname + ":" + m.lender.Name + ":" + signed)
		if err != nil {
			return checked, err
		}
		ow, err := s.msgWire(m.kname + ":" + m.sender.Name + ":" + m.block)
		if err != nil {
			return checked, err
		}
		lv, ov := voteOfWire(lw), voteOfWire(ow)
		if got == nil || lv == nil || ov == nil {
			return checked, fmt.Errorf("%s: wire does not decode", n)
		}
		if string(got.Signature) != string(lv.Signature) {
			return checked, fmt.Errorf("%s: carried signature is not the one of the lender's genuine vote", n)
		}
		if string(got.Signature) == string(ov.Signature) {
			return checked, fmt.Errorf("%s: carried signature equals the forger's own", n)
		}
		if got.VoterIdx != ov.VoterIdx || got.Votes != ov.Votes || string(got.Proof) != string(ov.Proof) || got.VoterIdx == lv.VoterIdx {
			return checked, fmt.Errorf("%s: index / weight / credential are not the forger's own", n)
		}
		sig, err := mgr.DecSignature(got.Signature)
		if err != nil {
			return checked, fmt.Errorf("%s: %v", n, err)
		}
		payload := c01.VotePayload(s.blockOf(signed).Hash(), new(big.Int).SetUint64(s.c.Round), s.ri)
		if err := m.lender.BlsPk.Verify(payload, sig); err != nil {
			return checked, fmt.Errorf("%s: borrowed signature does not verify under the lender's key: %v", n, err)
		}
		if err := m.sender.BlsPk.Verify(c01.VotePayload(s.blockOf(m.block).Hash(), new(big.Int).SetUint64(s.c.Round), s.ri), sig); err == nil {
			return checked, fmt.Errorf("%s: borrowed signature verifies under the forger's key", n)
		}
		checked++
	}
	return checked, nil
}

// ---- tally oracle --------------------------------------------------------------------------------------------------

func (s *p2Scn) nameOf(a common.Address) string {
	for name, m := range s.byName {
		if m.Addr == a {
			return name
		}
	}
	return "?" + a.String()
}

// checkTallies: what the real Voter holds for the current (round, index) — counted weight and vote set per kind and
// block — equals the reference tally of the delivery history; nothing is counted in the house tallies (no house member
// is entitled to vote).  lastInvalid = class of the delivery just made if it was an invalid vote.
func (s *p2Scn) checkTallies(res *p2Result, ref *p2Ref, x *p2Node, event, lastInvalid string, cs *p2Case) {
	d := x.n.Voter.VerifC02Dump()
	var cur *ucon.VerifC02Wrapper
	for i := range d.Wrappers {
		if d.Wrappers[i].CtxRound == s.c.Round && d.Wrappers[i].CtxIndex == s.ri {
			cur = &d.Wrappers[i]
		}
	}
	after := ""
	if lastInvalid != "" {
		after = " right after an invalid vote was delivered (" + lastInvalid + ")"
	}
	var bns []string
	for bn := range s.blocks {
		bns = append(bns, bn)
	}
	sort.Strings(bns)
	for _, kind := range []ucon.VoteType{ucon.Prevote, ucon.Precommit, ucon.Certificate} {
		for _, bn := range bns {
			h := s.blocks[bn].Hash()
			want, wset := ref.weight[int(kind)][bn], ref.set(kind, bn)
			got, gset := uint32(0), map[string]bool{}
			if cur != nil {
				sta := &cur.Chamber.Sta[c02.StaIndex(kind)]
				got = sta.Counts[h]
				for a := range sta.Info[h] {
					gset[s.nameOf(a)] = true
				}
				hs := &cur.House.Sta[c02.StaIndex(kind)]
				if hs.Counts[h] != 0 || len(hs.Info[h]) != 0 {
					res.viol("a vote is counted in the house tally although no house member is entitled to vote"+after,
						fmt.Sprintf("%s: house %s(%s) = %d; deliveries %v", event, c02.KName(kind), bn, hs.Counts[h], cs.Msgs))
				}
			}
			// a discrepancy is reported at the delivery that introduced it, not again at every later delivery
			dk := fmt.Sprintf("%d/%s/%v/%v/%v", kind, bn, got > want, got < want, setStr(gset) != setStr(wset))
			if got != want || setStr(gset) != setStr(wset) {
				if res.tallyBad[dk] {
					continue
				}
				if res.tallyBad == nil {
					res.tallyBad = map[string]bool{}
				}
				res.tallyBad[dk] = true
			}
			switch {
			case got > want:
				res.viol(fmt.Sprintf("%s tally held by the Voter differs from the reference tally of the delivery history: higher%s", c02.KLong(kind), after),
					fmt.Sprintf("%s: %s(%s): voter counts %d from {%s}, reference %d from {%s}; deliveries %v", event, c02.KName(kind), bn, got, setStr(gset), want, setStr(wset), cs.Msgs))
			case got < want:
				res.viol(fmt.Sprintf("%s tally held by the Voter differs from the reference tally of the delivery history: lower%s", c02.KLong(kind), after),
					fmt.Sprintf("%s: %s(%s): voter counts %d from {%s}, reference %d from {%s}; deliveries %v", event, c02.KName(kind), bn, got, setStr(gset), want, setStr(wset), cs.Msgs))
			case setStr(gset) != setStr(wset):
				res.viol(fmt.Sprintf("%s vote set held by the Voter differs from the reference set of the delivery history%s", c02.KLong(kind), after),
					fmt.Sprintf("%s: %s(%s): voter holds {%s}, reference {%s}; deliveries %v", event, c02.KName(kind), bn, setStr(gset), setStr(wset), cs.Msgs))
			}
		}
	}
	res.count("tally comparisons (Voter's tallies and vote sets == reference, per kind and block)")
}
