package mc

import (
	"fmt"
	"strings"
	"sync"
	"sync/atomic"
)

// System is a closed driver around real implementation objects.
//
// Reset builds fresh real objects.  Enabled returns the finite op menu of the
// current state in a canonical, simplest-first order (it must be a function of
// the op history only).  Apply calls the real code for one op and returns an
// observation string; an empty Enabled() ends the execution (e.g. after a
// panic poisoned the instance).  Check evaluates the oracle in the current
// state; Key is the canonical property-relevant state ("" = never merge).
type System interface {
	Reset()
	Enabled() []string
	Apply(op string) string
	Check() []Violation
	Key() string
}

type SeqOpts struct {
	Name   string // system name (for replay files)
	Config string
	Depth  int
	// ShardDepth: prefixes of this length are distributed over the workers.
	ShardDepth int
	// MaxStates caps BFS (0 = none); hitting it clears exhaustive.
	MaxStates int
	// NoDistinct: do not feed Key() into the distinct counter.
	NoDistinct bool
}

// DFSAll enumerates EVERY operation sequence of length <= Depth (stateless
// search: each complete execution runs once on a fresh instance; siblings
// share no objects).  Check() is evaluated after every step that was not
// already checked by an execution sharing the prefix.
func (r *Run) DFSAll(factory func() System, o SeqOpts) {
	if o.ShardDepth <= 0 {
		o.ShardDepth = 2
	}
	if o.ShardDepth > o.Depth {
		o.ShardDepth = o.Depth
	}
	// phase 1: enumerate shard prefixes sequentially (these executions are
	// themselves checked, so nothing below ShardDepth is lost).
	var shards [][]int
	root := &dfsWorker{r: r, sys: factory(), o: o}
	root.depth = o.ShardDepth
	root.onLeaf = func(choices []int) { shards = append(shards, append([]int{}, choices...)) }
	root.explore(nil, 0)
	if o.ShardDepth >= o.Depth {
		return
	}
	// phase 2: each shard subtree explored by a worker.
	var next int64 = -1
	var wg sync.WaitGroup
	for w := 0; w < r.Workers; w++ {
		wg.Add(1)
		go func() {
			defer wg.Done()
			dw := &dfsWorker{r: r, sys: factory(), o: o, depth: o.Depth}
			for {
				i := atomic.AddInt64(&next, 1)
				if int(i) >= len(shards) || r.Expired() {
					return
				}
				if len(shards[i]) < o.ShardDepth {
					continue // execution ended early; nothing below it
				}
				dw.explore(shards[i], len(shards[i]))
			}
		}()
	}
	wg.Wait()
}

type dfsWorker struct {
	r      *Run
	sys    System
	o      SeqOpts
	depth  int
	onLeaf func([]int)
	n      int
}

// explore runs prefix then choice 0 to the horizon and recurses into every
// alternative at positions >= len(prefix).  Steps with index < newFrom were
// already checked and counted by an execution sharing that prefix.
func (d *dfsWorker) explore(prefix []int, newFrom int) {
	d.n++
	if d.n&63 == 0 && d.r.Expired() {
		return
	}
	choices, nalts := d.exec(prefix, newFrom)
	if d.onLeaf != nil {
		d.onLeaf(choices)
	}
	for i := len(choices) - 1; i >= len(prefix); i-- {
		for alt := 1; alt < nalts[i]; alt++ {
			np := make([]int, i+1)
			copy(np, choices[:i])
			np[i] = alt
			d.explore(np, i)
		}
	}
}

func (d *dfsWorker) exec(prefix []int, newFrom int) (choices, nalts []int) {
	r := d.r
	var ops, obs []string
	d.sys.Reset()
	atomic.AddInt64(&r.Executions, 1)
	for i := 0; i < d.depth; i++ {
		en := d.sys.Enabled()
		if len(en) == 0 {
			break
		}
		c := 0
		if i < len(prefix) {
			c = prefix[i]
			if c >= len(en) {
				panic(fmt.Sprintf("mc: replay divergence in %s: choice %d of %d at step %d (ops so far %v)", d.o.Name, c, len(en), i, ops))
			}
		}
		op := en[c]
		ob := d.sys.Apply(op)
		choices = append(choices, c)
		nalts = append(nalts, len(en))
		ops = append(ops, op)
		obs = append(obs, ob)
		if i >= newFrom {
			atomic.AddInt64(&r.Transitions, 1)
			atomic.AddInt64(&r.States, 1)
			if !d.o.NoDistinct {
				if k := d.sys.Key(); k != "" {
					r.Distinct(k)
				}
			}
			for _, v := range d.sys.Check() {
				v.System, v.Config = d.o.Name, d.o.Config
				v.Ops = append([]string{}, ops...)
				v.Obs = append([]string{}, obs...)
				r.Report(v)
			}
		}
	}
	if len(choices) >= 2 {
		r.Sample(strings.Join(ops, " ; "))
	}
	return
}

// BFS explores the reachable states (de-duplicated on Key()) up to Depth.
// The successor of a state is built by replaying its shortest path on a fresh
// instance and applying one more op.
func (r *Run) BFS(factory func() System, o SeqOpts) (states int) {
	type node struct{ path []string }
	seen := map[string]struct{}{}
	var smu sync.Mutex
	s0 := factory()
	s0.Reset()
	seen[s0.Key()] = struct{}{}
	atomic.AddInt64(&r.States, 1)
	for _, v := range s0.Check() {
		v.System, v.Config = o.Name, o.Config
		r.Report(v)
	}
	frontier := []node{{}}
	pool := make([]System, r.Workers)
	for i := range pool {
		pool[i] = factory()
	}
	for depth := 0; depth < o.Depth && len(frontier) > 0; depth++ {
		var next []node
		var nmu sync.Mutex
		var idx int64 = -1
		var wg sync.WaitGroup
		capped := false
		for w := 0; w < r.Workers; w++ {
			wg.Add(1)
			go func(sys System) {
				defer wg.Done()
				var local []node
				for {
					i := atomic.AddInt64(&idx, 1)
					if int(i) >= len(frontier) || r.Expired() {
						break
					}
					p := frontier[i].path
					replay := func() []string {
						sys.Reset()
						var obs []string
						for _, op := range p {
							obs = append(obs, sys.Apply(op))
						}
						return obs
					}
					obs := replay()
					en := sys.Enabled()
					for j, op := range en {
						if j > 0 {
							obs = replay()
						}
						ob := sys.Apply(op)
						atomic.AddInt64(&r.Transitions, 1)
						atomic.AddInt64(&r.Executions, 1)
						vs := sys.Check()
						if len(vs) > 0 {
							ops := append(append([]string{}, p...), op)
							for _, v := range vs {
								v.System, v.Config = o.Name, o.Config
								v.Ops = ops
								v.Obs = append(append([]string{}, obs...), ob)
								r.Report(v)
							}
						}
						k := sys.Key()
						smu.Lock()
						_, dup := seen[k]
						if !dup {
							seen[k] = struct{}{}
						}
						n := len(seen)
						smu.Unlock()
						if dup {
							continue
						}
						atomic.AddInt64(&r.States, 1)
						if !o.NoDistinct {
							r.Distinct(k)
						}
						if o.MaxStates > 0 && n > o.MaxStates {
							capped = true
							continue
						}
						np := append(append(make([]string, 0, len(p)+1), p...), op)
						local = append(local, node{np})
						if n <= 4 || n%97 == 1 {
							r.Sample(strings.Join(np, " ; "))
						}
					}
				}
				nmu.Lock()
				next = append(next, local...)
				nmu.Unlock()
			}(pool[w])
		}
		wg.Wait()
		if capped {
			r.Cap(fmt.Sprintf("%s: state cap %d reached at depth %d", o.Name, o.MaxStates, depth+1))
		}
		if r.Expired() {
			r.SetExtra(o.Name+"_depth_completed", depth)
			return len(seen)
		}
		frontier = next
		r.SetExtra(o.Name+"_depth_completed", depth+1)
		r.SetExtra(o.Name+"_frontier_at_end", len(frontier))
	}
	return len(seen)
}

// ReplaySeq re-executes an op list on a fresh instance without the explorer
// and returns observations and the violations seen after every step.
func ReplaySeq(sys System, ops []string) (obs []string, viols []Violation, err error) {
	sys.Reset()
	for i, op := range ops {
		en := sys.Enabled()
		ok := false
		for _, e := range en {
			if e == op {
				ok = true
				break
			}
		}
		if !ok {
			return obs, viols, fmt.Errorf("replay divergence: op %q not enabled at step %d (enabled %v)", op, i, en)
		}
		obs = append(obs, sys.Apply(op))
		viols = append(viols, sys.Check()...)
	}
	return obs, viols, nil
}

// ConfirmSeq is the determinism gate: every reported sequence violation of
// system `name` is replayed twice; violations that never reproduce are turned
// into harness errors, diverging observations are flagged.
func (r *Run) ConfirmSeq(name string, factory func() System) {
	r.mu.Lock()
	var vs []*Violation
	for _, v := range r.viols {
		if v.System == name && len(v.Ops) > 0 {
			vs = append(vs, v)
		}
	}
	r.mu.Unlock()
	for _, v := range vs {
		hits := 0
		for k := 0; k < 2; k++ {
			obs, got, err := ReplaySeq(factory(), v.Ops)
			if err != nil {
				r.HarnessError(fmt.Sprintf("%s: %v", v.Sig, err))
				continue
			}
			for _, g := range got {
				if g.Sig == v.Sig {
					hits++
					break
				}
			}
			if strings.Join(obs, "|") != strings.Join(v.Obs, "|") {
				r.HarnessError(fmt.Sprintf("%s: observations diverge on replay", v.Sig))
			}
		}
		if hits == 0 {
			r.mu.Lock()
			delete(r.viols, v.Sig)
			r.mu.Unlock()
			r.HarnessError(fmt.Sprintf("violation %q did not reproduce on replay; dropped", v.Sig))
		}
	}
}

// Forker is a System whose current state can be copied cheaply (e.g. a chain
// node = database copy + reopen).  DFSFork then explores every op sequence
// without replaying prefixes: each tree node is executed exactly once.
type Forker interface {
	System
	Fork() Forker
	Close()
}

// DFSFork enumerates EVERY op sequence of length <= Depth from the state the
// factory returns.  Shards (all paths of length ShardDepth) are distributed
// over the workers; a shard is rebuilt by replaying its path once.
func (r *Run) DFSFork(factory func() Forker, o SeqOpts) {
	if o.ShardDepth <= 0 {
		o.ShardDepth = 1
	}
	if o.ShardDepth > o.Depth {
		o.ShardDepth = o.Depth
	}
	type shard struct{ ops []string }
	var shards []shard
	// phase 1: expand to ShardDepth sequentially (checked and counted here)
	var expand func(n Forker, ops, obs []string)
	expand = func(n Forker, ops, obs []string) {
		if len(ops) == o.ShardDepth {
			shards = append(shards, shard{append([]string{}, ops...)})
			return
		}
		for _, op := range n.Enabled() {
			c := n.Fork()
			ob := c.Apply(op)
			r.visit(c, o, append(ops, op), append(obs, ob))
			expand(c, append(ops, op), append(obs, ob))
			c.Close()
		}
	}
	root := factory()
	root.Reset()
	expand(root, nil, nil)
	root.Close()
	if o.ShardDepth >= o.Depth {
		return
	}
	var next int64 = -1
	var wg sync.WaitGroup
	for w := 0; w < r.Workers; w++ {
		wg.Add(1)
		go func() {
			defer wg.Done()
			for {
				i := atomic.AddInt64(&next, 1)
				if int(i) >= len(shards) || r.Expired() {
					return
				}
				n := factory()
				n.Reset()
				var obs []string
				for _, op := range shards[i].ops {
					obs = append(obs, n.Apply(op))
				}
				r.dfsFork(n, o, shards[i].ops, obs)
				n.Close()
			}
		}()
	}
	wg.Wait()
}

func (r *Run) visit(c Forker, o SeqOpts, ops, obs []string) {
	atomic.AddInt64(&r.Transitions, 1)
	atomic.AddInt64(&r.States, 1)
	if !o.NoDistinct {
		if k := c.Key(); k != "" {
			r.Distinct(k)
		}
	}
	for _, v := range c.Check() {
		v.System, v.Config = o.Name, o.Config
		v.Ops = append([]string{}, ops...)
		v.Obs = append([]string{}, obs...)
		r.Report(v)
	}
}

func (r *Run) dfsFork(n Forker, o SeqOpts, ops, obs []string) {
	if len(ops) >= o.Depth {
		atomic.AddInt64(&r.Executions, 1)
		if len(ops) >= 2 {
			r.Sample(strings.Join(ops, " ; "))
		}
		return
	}
	en := n.Enabled()
	if len(en) == 0 {
		atomic.AddInt64(&r.Executions, 1)
		return
	}
	for _, op := range en {
		if r.Expired() {
			return
		}
		c := n.Fork()
		ob := c.Apply(op)
		nops, nobs := append(ops[:len(ops):len(ops)], op), append(obs[:len(obs):len(obs)], ob)
		r.visit(c, o, nops, nobs)
		r.dfsFork(c, o, nops, nobs)
		c.Close()
	}
}
