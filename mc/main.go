package mc

import (
	"flag"
	"fmt"
	"os"
	"path/filepath"
	"runtime"
	"runtime/debug"
	"runtime/pprof"
	"strconv"
)

// Main is the body of every cmd/cNN binary:
//
//	cNN [--tier quick|thorough] [--replay file] [--seed n] [--root /verif]
func Main(id string, run func(*Run), replay func(*Run, *Violation)) {
	fs := flag.NewFlagSet(id, flag.ExitOnError)
	tier := fs.String("tier", envOr("VERIF_TIER", "quick"), "quick|thorough")
	rp := fs.String("replay", "", "replay file")
	seed := fs.Int64("seed", envInt("VERIF_SEED", 1), "seed (checks enumerate, they do not sample; recorded only)")
	root := fs.String("root", "", "verif root (default: directory above the binary)")
	fs.Parse(os.Args[1:])
	// executions are short-lived object graphs: trade memory for fewer collections
	if os.Getenv("GOGC") == "" {
		debug.SetGCPercent(400)
	}
	// soft memory limit: with GC percent 400 a few GB of live objects would otherwise
	// grow into tens of GB of heap (the sandbox has no memory limit of its own)
	if os.Getenv("GOMEMLIMIT") == "" {
		debug.SetMemoryLimit(10 << 30)
	}
	r := NewRun(id, *tier, *seed)
	r.Root = *root
	if r.Root == "" {
		exe, _ := os.Executable()
		r.Root = filepath.Dir(filepath.Dir(exe))
	}
	if *rp != "" {
		v, err := LoadReplay(*rp)
		if err != nil {
			fmt.Fprintln(os.Stderr, err)
			os.Exit(2)
		}
		if replay == nil {
			fmt.Fprintln(os.Stderr, "no replayer for", id)
			os.Exit(2)
		}
		r.ReplayFile = *rp
		replay(r, v)
		if r.ViolationCount() > 0 {
			fmt.Printf("REPLAY reproduces: %s\n", v.Sig)
			os.Exit(1)
		}
		fmt.Println("REPLAY did not reproduce a violation")
		os.Exit(0)
	}
	run(r)
	if f := os.Getenv("VERIF_HEAPPROF"); f != "" {
		writeHeapProfile(f)
	}
	os.Exit(r.Finish())
}

func writeHeapProfile(f string) {
	runtime.GC()
	w, err := os.Create(f)
	if err != nil {
		return
	}
	defer w.Close()
	pprof.WriteHeapProfile(w)
	if g, err := os.Create(f + ".goroutines"); err == nil {
		pprof.Lookup("goroutine").WriteTo(g, 1)
		g.Close()
	}
}

func envOr(k, d string) string {
	if v := os.Getenv(k); v != "" {
		return v
	}
	return d
}

func envInt(k string, d int64) int64 {
	if v, err := strconv.ParseInt(os.Getenv(k), 10, 64); err == nil {
		return v
	}
	return d
}
