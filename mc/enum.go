package mc

import (
	"sync"
	"sync/atomic"
)

// Enum enumerates the full product of the given dimension sizes (mixed-radix
// counter, dimension 0 fastest) over the workers.  fn receives the worker id
// and the index vector (valid only during the call) and reports through r.
func (r *Run) Enum(dims []int, fn func(w int, idx []int)) {
	total := int64(1)
	for _, d := range dims {
		total *= int64(d)
	}
	if total == 0 {
		return
	}
	const chunk = 16
	var next int64
	var wg sync.WaitGroup
	for w := 0; w < r.Workers; w++ {
		wg.Add(1)
		go func(w int) {
			defer wg.Done()
			idx := make([]int, len(dims))
			for {
				lo := atomic.AddInt64(&next, chunk) - chunk
				if lo >= total || r.Expired() {
					return
				}
				hi := lo + chunk
				if hi > total {
					hi = total
				}
				for n := lo; n < hi; n++ {
					x := n
					for i, d := range dims {
						idx[i] = int(x % int64(d))
						x /= int64(d)
					}
					atomic.AddInt64(&r.Evaluations, 1)
					fn(w, idx)
				}
			}
		}(w)
	}
	wg.Wait()
}

// ForEach runs fn(i) for i in [0,n) over the workers.
func (r *Run) ForEach(n int, fn func(w, i int)) {
	r.Enum([]int{n}, func(w int, idx []int) { fn(w, idx[0]) })
}
