package mc

import (
	"sync"

	"github.com/youchainhq/go-youchain/youdb"
)

// CrashDB is a youdb.Database that keeps, next to the live key-value map, the
// log of every write as one atomic record (a single Put/Delete, or a whole
// batch at Write()).  At(i) materialises the database as it is on disk after
// the first i records: the crash model is LevelDB's — single writes and
// batches are atomic and the log is prefix-closed.
type CrashDB struct {
	mu   sync.RWMutex
	live map[string][]byte
	log  []Record
	base map[string][]byte // content before record 0
}

type KV struct {
	Key, Val []byte
	Del      bool
}

type Record struct{ Writes []KV }

func NewCrashDB() *CrashDB {
	return &CrashDB{live: map[string][]byte{}, base: map[string][]byte{}}
}

func cp(b []byte) []byte { return append([]byte{}, b...) }

func (d *CrashDB) Put(k, v []byte) error {
	d.mu.Lock()
	d.live[string(k)] = cp(v)
	d.log = append(d.log, Record{[]KV{{Key: cp(k), Val: cp(v)}}})
	d.mu.Unlock()
	return nil
}

func (d *CrashDB) Delete(k []byte) error {
	d.mu.Lock()
	delete(d.live, string(k))
	d.log = append(d.log, Record{[]KV{{Key: cp(k), Del: true}}})
	d.mu.Unlock()
	return nil
}

func (d *CrashDB) Get(k []byte) ([]byte, error) {
	d.mu.RLock()
	defer d.mu.RUnlock()
	if v, ok := d.live[string(k)]; ok {
		return cp(v), nil
	}
	return nil, errNotFound
}

type notFound struct{}

func (notFound) Error() string { return "not found" }

var errNotFound = notFound{}

func (d *CrashDB) Has(k []byte) (bool, error) {
	d.mu.RLock()
	defer d.mu.RUnlock()
	_, ok := d.live[string(k)]
	return ok, nil
}

func (d *CrashDB) Close() {}

func (d *CrashDB) NewBatch() youdb.Batch { return &crashBatch{db: d} }

// LogLen is the number of atomic write records so far.
func (d *CrashDB) LogLen() int {
	d.mu.RLock()
	defer d.mu.RUnlock()
	return len(d.log)
}

func (d *CrashDB) Log() []Record {
	d.mu.RLock()
	defer d.mu.RUnlock()
	return append([]Record{}, d.log...)
}

// At returns a fresh CrashDB whose content is base + the first i records (its
// own log starts empty).
func (d *CrashDB) At(i int) *CrashDB {
	d.mu.RLock()
	defer d.mu.RUnlock()
	n := NewCrashDB()
	for k, v := range d.base {
		n.live[k] = v
	}
	for _, rec := range d.log[:i] {
		for _, w := range rec.Writes {
			if w.Del {
				delete(n.live, string(w.Key))
			} else {
				n.live[string(w.Key)] = w.Val
			}
		}
	}
	for k, v := range n.live {
		n.base[k] = v
	}
	return n
}

// Snapshot = At(LogLen()).
func (d *CrashDB) Snapshot() *CrashDB { return d.At(d.LogLen()) }

func (d *CrashDB) Keys() []string {
	d.mu.RLock()
	defer d.mu.RUnlock()
	ks := make([]string, 0, len(d.live))
	for k := range d.live {
		ks = append(ks, k)
	}
	return ks
}

func (d *CrashDB) Len() int {
	d.mu.RLock()
	defer d.mu.RUnlock()
	return len(d.live)
}

type crashBatch struct {
	db   *CrashDB
	w    []KV
	size int
}

func (b *crashBatch) Put(k, v []byte) error {
	b.w = append(b.w, KV{Key: cp(k), Val: cp(v)})
	b.size += len(v)
	return nil
}

func (b *crashBatch) Delete(k []byte) error {
	b.w = append(b.w, KV{Key: cp(k), Del: true})
	b.size++
	return nil
}

func (b *crashBatch) ValueSize() int { return b.size }

func (b *crashBatch) Write() error {
	if len(b.w) == 0 {
		return nil
	}
	b.db.mu.Lock()
	for _, w := range b.w {
		if w.Del {
			delete(b.db.live, string(w.Key))
		} else {
			b.db.live[string(w.Key)] = w.Val
		}
	}
	b.db.log = append(b.db.log, Record{append([]KV{}, b.w...)})
	b.db.mu.Unlock()
	return nil
}

func (b *crashBatch) Reset() { b.w = nil; b.size = 0 }
