// Package mc is the model-checking framework used by every check under
// /verif/checks: bounded exhaustive explorers over the real implementation
// (seqx: stateless DFS over all operation sequences, BFS with state
// de-duplication; enum: mixed-radix input enumeration; crashdb: write-log
// database with every-prefix materialisation) plus the run context that turns
// counters and violations into evidence files, replay files and exit codes.
package mc

import (
	"encoding/json"
	"fmt"
	"hash/fnv"
	"io/ioutil"
	"os"
	"path/filepath"
	"regexp"
	"runtime"
	"sort"
	"strings"
	"sync"
	"sync/atomic"
	"time"
)

// Violation is one counterexample.  Sig is the stable identity of the failure
// (what fails, at which call site / on which specific input); it is what the
// known-findings file is matched against and what violations are de-duplicated
// on.  Ops/Obs (sequence systems) or Input (enumerations) make it replayable.
type Violation struct {
	Property string      `json:"property"`
	Sig      string      `json:"signature"`
	Detail   string      `json:"detail,omitempty"`
	System   string      `json:"system,omitempty"`
	Config   string      `json:"config,omitempty"`
	Ops      []string    `json:"ops,omitempty"`
	Obs      []string    `json:"obs,omitempty"`
	Input    interface{} `json:"input,omitempty"`
}

// Run is the context of one check invocation.
type Run struct {
	ID       string
	Tier     string // quick | thorough
	Seed     int64
	Level    string // evidence level (exploration | fault_enumeration | model_checking)
	Start    time.Time
	Deadline time.Time
	Workers  int
	Root     string // /verif

	States      int64
	Transitions int64
	Executions  int64 // complete executions on the real implementation
	Evaluations int64

	mu          sync.Mutex
	Rule        string
	samples     []interface{}
	sampleW     []int
	extra       map[string]interface{}
	counters    map[string]*int64
	Assumptions []string
	exhaustive  int32 // 1 = yes
	caps        []string
	wdGen       int
	finished    bool
	viols       map[string]*Violation
	harnessErrs []string

	dmu      [64]sync.Mutex
	distinct [64]map[uint64]struct{}

	ReplayFile string // non-empty: replay mode
}

func NewRun(id, tier string, seed int64) *Run {
	r := &Run{ID: id, Tier: tier, Seed: seed, Level: "model_checking", Start: time.Now(),
		Workers: runtime.NumCPU(), extra: map[string]interface{}{}, counters: map[string]*int64{},
		viols: map[string]*Violation{}, exhaustive: 1}
	for i := range r.distinct {
		r.distinct[i] = map[uint64]struct{}{}
	}
	if w := os.Getenv("VERIF_WORKERS"); w != "" {
		fmt.Sscan(w, &r.Workers)
	}
	if r.Workers < 1 {
		r.Workers = 1
	}
	return r
}

func (r *Run) Quick() bool { return r.Tier != "thorough" }

// SetBudget sets the internal deadline.  Hitting it never fails a check: the
// run ends with exhaustive:false and reports what was covered.
func (r *Run) SetBudget(d time.Duration) {
	r.Deadline = r.Start.Add(d)
	r.armWatchdog()
}

// armWatchdog: explorers poll Expired() and return soon after the deadline.  A run that has still not
// finished long after it (a goroutine of the code under test that never returns, a wait the harness
// did not bound) must not hang the registered command: the run is ended from here with what it has
// (exhaustive:false, the cap says why); violations reported so far still decide the exit code.
func (r *Run) armWatchdog() {
	r.mu.Lock()
	gen := r.wdGen + 1
	r.wdGen = gen
	r.mu.Unlock()
	grace := r.Deadline.Sub(r.Start) / 2
	if grace < 3*time.Minute {
		grace = 3 * time.Minute
	}
	go func() {
		for {
			// checks may move r.Deadline later (time spent in a part with its own cap) or clear it
			d := r.Deadline
			if d.IsZero() {
				return
			}
			if at := d.Add(grace); time.Now().Before(at) {
				time.Sleep(time.Until(at) + time.Second)
				continue
			}
			break
		}
		r.mu.Lock()
		stale := r.wdGen != gen || r.finished
		r.mu.Unlock()
		if stale {
			return
		}
		r.Cap(fmt.Sprintf("watchdog: the explorer had not returned %s after its deadline; run ended with what was covered", grace))
		fmt.Fprintln(os.Stderr, "WATCHDOG: run ended after its deadline + grace")
		os.Exit(r.Finish())
	}()
}

// Expired reports whether the internal deadline passed (and records the cap).
func (r *Run) Expired() bool {
	if r.Deadline.IsZero() || time.Now().Before(r.Deadline) {
		return false
	}
	if atomic.CompareAndSwapInt32(&r.exhaustive, 1, 0) {
		r.Cap("internal deadline reached")
	}
	return true
}

func (r *Run) Cap(what string) {
	atomic.StoreInt32(&r.exhaustive, 0)
	r.mu.Lock()
	defer r.mu.Unlock()
	for _, c := range r.caps {
		if c == what {
			return
		}
	}
	r.caps = append(r.caps, what)
}

// Distinct records one non-trivial case key (see Rule); the evidence reports
// how many different keys were seen.
func (r *Run) Distinct(key string) bool {
	h := fnv.New64a()
	h.Write([]byte(key))
	v := h.Sum64()
	i := v & 63
	r.dmu[i].Lock()
	_, ok := r.distinct[i][v]
	if !ok {
		r.distinct[i][v] = struct{}{}
	}
	r.dmu[i].Unlock()
	return !ok
}

func (r *Run) DistinctCount() int {
	n := 0
	for i := range r.distinct {
		r.dmu[i].Lock()
		n += len(r.distinct[i])
		r.dmu[i].Unlock()
	}
	return n
}

// Sample keeps the first few cases verbatim for the evidence file.
func (r *Run) Sample(s interface{}) {
	// weight: variety first (distinct ops of a sequence), then length
	str := fmt.Sprint(s)
	w := len(str)
	if w > 99 {
		w = 99
	}
	if parts := strings.Split(str, " ; "); len(parts) > 1 {
		seen := map[string]bool{}
		for _, p := range parts {
			seen[p] = true
		}
		w += 100 * len(seen)
	}
	r.mu.Lock()
	defer r.mu.Unlock()
	if len(r.samples) < 8 {
		r.samples = append(r.samples, s)
		r.sampleW = append(r.sampleW, w)
		return
	}
	// keep the first two as they came; among the others prefer the longer (deeper / richer) cases
	min := 2
	for i := 3; i < len(r.samples); i++ {
		if r.sampleW[i] < r.sampleW[min] {
			min = i
		}
	}
	if w > r.sampleW[min] && len(str) <= 600 {
		r.samples[min], r.sampleW[min] = s, w
	}
}

func (r *Run) SetExtra(k string, v interface{}) {
	r.mu.Lock()
	r.extra[k] = v
	r.mu.Unlock()
}

// Counter returns a named atomic counter that ends up in the evidence
// (vacuity guards: how often each oracle branch fired).
func (r *Run) Counter(name string) *int64 {
	r.mu.Lock()
	defer r.mu.Unlock()
	c, ok := r.counters[name]
	if !ok {
		c = new(int64)
		r.counters[name] = c
	}
	return c
}

func (r *Run) Count(name string, n int64) { atomic.AddInt64(r.Counter(name), n) }

func (r *Run) Assume(s string) {
	r.mu.Lock()
	r.Assumptions = append(r.Assumptions, s)
	r.mu.Unlock()
}

// Report records a violation (de-duplicated on Sig, shortest trace kept).
func (r *Run) Report(v Violation) {
	v.Property = r.ID
	r.mu.Lock()
	defer r.mu.Unlock()
	old, ok := r.viols[v.Sig]
	if !ok || (len(v.Ops) > 0 && len(v.Ops) < len(old.Ops)) {
		vv := v
		r.viols[v.Sig] = &vv
	}
}

func (r *Run) HarnessError(s string) {
	r.mu.Lock()
	r.harnessErrs = append(r.harnessErrs, s)
	r.mu.Unlock()
}

func (r *Run) ViolationCount() int {
	r.mu.Lock()
	defer r.mu.Unlock()
	return len(r.viols)
}

// ---- known findings ---------------------------------------------------------

type Finding struct {
	Property string `json:"property"`
	Status   string `json:"status"` // known | fixed
	Match    string `json:"match"`  // regular expression on the violation signature (known only)
	What     string `json:"what"`
	Commit   string `json:"commit,omitempty"`
	Line     string `json:"line,omitempty"`
}

type findingsFile struct {
	Findings []Finding `json:"findings"`
}

func (r *Run) loadFindings() []Finding {
	bs, err := ioutil.ReadFile(filepath.Join(r.Root, "known_findings.json"))
	if err != nil {
		return nil
	}
	var f findingsFile
	if err := json.Unmarshal(bs, &f); err != nil {
		fmt.Fprintf(os.Stderr, "known_findings.json unreadable: %v\n", err)
		return nil
	}
	return f.Findings
}

// Finish writes the evidence file and replay files, prints the protocol lines
// and returns the process exit code.
func (r *Run) Finish() int {
	r.mu.Lock()
	r.finished = true
	r.mu.Unlock()
	findings := r.loadFindings()
	var sigs []string
	for s := range r.viols {
		sigs = append(sigs, s)
	}
	sort.Strings(sigs)
	exit := 0
	nKnown, nNew := 0, 0
	knownPrinted := map[string]bool{}
	for _, s := range sigs {
		v := r.viols[s]
		var known *Finding
		for i := range findings {
			f := &findings[i]
			if f.Property != r.ID || f.Status != "known" || f.Match == "" {
				continue
			}
			if ok, _ := regexp.MatchString(f.Match, v.Sig); ok {
				known = f
				break
			}
		}
		if known != nil {
			nKnown++
			if !knownPrinted[known.What] {
				knownPrinted[known.What] = true
				fmt.Printf("KNOWN-FINDING: property=%s %s\n", r.ID, known.What)
			}
			continue
		}
		nNew++
		path := r.writeReplay(v)
		fmt.Printf("VIOLATION property=%s replay=%s\n", r.ID, path)
		fmt.Printf("  signature: %s\n", v.Sig)
		if v.Detail != "" {
			fmt.Printf("  detail: %s\n", trunc(v.Detail, 2000))
		}
		if len(v.Ops) > 0 {
			fmt.Printf("  ops: %s\n", trunc(strings.Join(v.Ops, " ; "), 2000))
		}
		exit = 1
	}
	for _, h := range r.harnessErrs {
		fmt.Printf("HARNESS-ERROR property=%s %s\n", r.ID, trunc(h, 1000))
	}
	r.writeEvidence(nNew, nKnown)
	return exit
}

func trunc(s string, n int) string {
	if len(s) > n {
		return s[:n] + "…"
	}
	return s
}

func (r *Run) writeReplay(v *Violation) string {
	dir := filepath.Join(r.Root, "replays", r.ID)
	if alt := os.Getenv("VERIF_EVIDENCE_DIR"); alt != "" { // scratch runs (mutants) keep out of the real artefacts
		dir = filepath.Join(alt, "replays", r.ID)
	}
	os.MkdirAll(dir, 0755)
	h := fnv.New64a()
	h.Write([]byte(v.Sig))
	path := filepath.Join(dir, fmt.Sprintf("%016x.json", h.Sum64()))
	bs, _ := json.MarshalIndent(v, "", " ")
	ioutil.WriteFile(path, bs, 0644)
	return path
}

func (r *Run) writeEvidence(nNew, nKnown int) {
	cov := map[string]interface{}{}
	for k, v := range r.extra {
		cov[k] = v
	}
	cnt := map[string]int64{}
	for k, v := range r.counters {
		cnt[k] = atomic.LoadInt64(v)
	}
	if len(cnt) > 0 {
		cov["oracle_branch_counters"] = cnt
	}
	ev := atomic.LoadInt64(&r.Evaluations)
	ex := atomic.LoadInt64(&r.Executions)
	if ev == 0 {
		ev = ex
	}
	cov["evaluations"] = ev
	cov["distinct_nontrivial"] = r.DistinctCount()
	cov["rule"] = r.Rule
	if len(r.samples) == 0 {
		r.samples = append(r.samples, "(no case was explored)")
	}
	cov["samples"] = r.samples
	cov["exhaustive"] = atomic.LoadInt32(&r.exhaustive) == 1
	if len(r.caps) > 0 {
		cov["caps_hit"] = r.caps
	}
	if r.Level == "model_checking" {
		cov["states"] = atomic.LoadInt64(&r.States)
		cov["transitions"] = atomic.LoadInt64(&r.Transitions)
		cov["traces_validated_against_impl"] = ex
		cov["traces_note"] = "exploration runs on the real implementation: every explored execution is an implementation trace; there is no separate model to conform"
	}
	cov["known_findings_hit"] = nKnown
	if len(r.harnessErrs) > 0 {
		cov["harness_errors"] = r.harnessErrs
	}
	out := map[string]interface{}{
		"property_id": r.ID,
		"tier":        r.Tier,
		"seed":        r.Seed,
		"level":       r.Level,
		"coverage":    cov,
		"assumptions": r.Assumptions,
		"wall_s":      time.Since(r.Start).Seconds(),
		"violations":  nNew,
	}
	if out["assumptions"] == nil || len(r.Assumptions) == 0 {
		out["assumptions"] = []string{}
	}
	dir := filepath.Join(r.Root, "evidence")
	if alt := os.Getenv("VERIF_EVIDENCE_DIR"); alt != "" {
		dir = alt
	}
	os.MkdirAll(dir, 0755)
	bs, _ := json.MarshalIndent(out, "", " ")
	ioutil.WriteFile(filepath.Join(dir, r.ID+".json"), append(bs, '\n'), 0644)
}

// LoadReplay reads a replay file written by Finish.
func LoadReplay(path string) (*Violation, error) {
	bs, err := ioutil.ReadFile(path)
	if err != nil {
		return nil, err
	}
	var v Violation
	if err := json.Unmarshal(bs, &v); err != nil {
		return nil, err
	}
	return &v, nil
}

// Pinned returns the counterexamples kept under findings/<ID>/ (replay files of
// defects found earlier, fixed or known): checks whose quick bounds do not reach
// them run them first, so a returning defect is reported by every tier.
func (r *Run) Pinned() []*Violation {
	files, _ := filepath.Glob(filepath.Join(r.Root, "findings", r.ID, "*.json"))
	sort.Strings(files)
	var out []*Violation
	for _, f := range files {
		if v, err := LoadReplay(f); err == nil && v.Input != nil {
			out = append(out, v)
		}
	}
	return out
}

// Catch runs f and returns the panic message ("" if none).
func Catch(f func()) (msg string) {
	defer func() {
		if e := recover(); e != nil {
			msg = fmt.Sprintf("%v", e)
			if msg == "" {
				msg = "panic"
			}
		}
	}()
	f()
	return ""
}

// CatchStack is Catch that also returns a trimmed stack of the panic site.
func CatchStack(f func()) (msg, where string) {
	defer func() {
		if e := recover(); e != nil {
			msg = fmt.Sprintf("%v", e)
			if msg == "" {
				msg = "panic"
			}
			buf := make([]byte, 8192)
			n := runtime.Stack(buf, false)
			where = panicSite(string(buf[:n]))
		}
	}()
	f()
	return "", ""
}

// panicSite extracts the first go-youchain frame below the panic call.
func panicSite(stack string) string {
	lines := strings.Split(stack, "\n")
	seenPanic := false
	for i := 0; i < len(lines); i++ {
		l := lines[i]
		if strings.HasPrefix(l, "panic(") {
			seenPanic = true
			continue
		}
		if seenPanic && strings.Contains(l, "go-youchain/") && !strings.HasPrefix(l, "\t") {
			if j := strings.LastIndex(l, "("); j > 0 {
				l = l[:j]
			}
			if j := strings.Index(l, "go-youchain/"); j >= 0 {
				l = l[j+len("go-youchain/"):]
			}
			return l
		}
	}
	return ""
}
