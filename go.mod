module verif

go 1.12

require github.com/youchainhq/go-youchain v0.0.0

replace github.com/youchainhq/go-youchain => /repo

replace github.com/lucas-clemente/quic-go v0.14.5 => github.com/youchainhq/quic-go v0.14.5
