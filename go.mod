module verif

go 1.12

require (
	github.com/youchainhq/go-youchain v0.0.0
	golang.org/x/crypto v0.0.0-20200423211502-4bdfaf469ed5
	gonum.org/v1/gonum v0.0.0-20190628223043-536a303fd62f
)

replace github.com/youchainhq/go-youchain => /repo

replace github.com/lucas-clemente/quic-go v0.14.5 => github.com/youchainhq/quic-go v0.14.5
