#!/bin/bash
# tools/run_all.sh [quick|thorough] [ids...] — run the registered checks one after the other, summary at the end.
cd "$(dirname "$0")/.."
tier="${1:-quick}"; shift || true
ids="$*"
[ -z "$ids" ] && ids=$(python3 -c "import json;print(' '.join(c['property_id'] for c in json.load(open('MANIFEST.json'))['checks']))")
mkdir -p bin/logs
for id in $ids; do
  s=$(date +%s)
  ./run.sh "$id" "$tier" > "bin/logs/$id.$tier.log" 2>&1
  rc=$?
  e=$(( $(date +%s) - s ))
  v=$(grep -c '^VIOLATION' "bin/logs/$id.$tier.log")
  k=$(grep -c '^KNOWN-FINDING' "bin/logs/$id.$tier.log")
  echo "$id exit=$rc violations=$v known=$k wall=${e}s"
done
