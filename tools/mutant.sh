#!/bin/bash
# tools/mutant.sh <property-id> <patch.diff> [tier] — apply a patch to a scratch worktree of /repo HEAD
# (plus the uncommitted export_verif_*.go hook files), run the check against it, remove the worktree.
# Exit code = exit code of the check (1 = VIOLATION reported = mutant caught).
set -u
id="$1"; patch="$(readlink -f "$2")"; tier="${3:-quick}"
wt="/tmp/wt-mut-$id-$$"
git -C /repo worktree add -q --detach "$wt" HEAD || exit 9
( cd /repo && git ls-files --others --exclude-standard | grep 'export_verif' | while read f; do mkdir -p "$wt/$(dirname "$f")"; cp "$f" "$wt/$f"; done )
if ! git -C "$wt" apply "$patch"; then echo "PATCH-DOES-NOT-APPLY $patch"; git -C /repo worktree remove --force "$wt"; exit 8; fi
cd "$(dirname "$0")/.."
mkdir -p bin/mut
VERIF_REPO="$wt" VERIF_EVIDENCE_DIR="bin/mut" ./run.sh "$id" "$tier" > "bin/mut/$id.$(basename "$patch").log" 2>&1
rc=$?
grep -E '^VIOLATION|signature:|BUILD-FAILED' "bin/mut/$id.$(basename "$patch").log" | head -6
git -C /repo worktree remove --force "$wt"
rm -f bin/*-$(echo "$wt" | md5sum | cut -c1-8)* 2>/dev/null
exit $rc
