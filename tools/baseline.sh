#!/bin/bash
# tools/baseline.sh — run the repository's own test suite (guard off: no build tag) on a scratch worktree of
# /repo HEAD and compare with the pinned list of stable passing tests (/root/.vp/BASELINE.json).
# Prints the pinned tests that did not pass; exit 0 iff none.
export GOFLAGS=-mod=mod GOPROXY=off GOSUMDB=off GOTOOLCHAIN=local
wt=/tmp/wt-baseline-$$
git -C /repo worktree add -q --detach "$wt" HEAD || exit 9
out=/tmp/baseline-$$.json
( cd "$wt" && go test -json -vet=off -count=1 -timeout 25m ./... > "$out" 2>/tmp/baseline-$$.err )
python3 - "$out" <<'EOF'
import json,sys
want=set(json.load(open('/root/.vp/BASELINE.json'))['stable_pass'])
got={}
for l in open(sys.argv[1]):
    try: e=json.loads(l)
    except Exception: continue
    if e.get('Test') and e.get('Action') in('pass','fail','skip'):
        got[e['Package']+'::'+e['Test']]=e['Action']
bad=sorted(t for t in want if got.get(t)!='pass')
print("pinned",len(want),"passed",len(want)-len(bad))
for t in bad: print("NOT-PASSING",t,got.get(t))
sys.exit(1 if bad else 0)
EOF
rc=$?
git -C /repo worktree remove --force "$wt"
rm -f "$out" /tmp/baseline-$$.err
exit $rc
