#!/usr/bin/env python3
"""tools/seed_store.py — copy verified seeded changes into /verif/seeded/<ID>-<X>/ with meta.json.
Table below: what each change needs in order to manifest and whether a check had to be strengthened."""
import json, os, re, shutil, sys, glob
ROOT = os.path.dirname(os.path.dirname(os.path.abspath(__file__)))
sys.path.insert(0, os.path.dirname(__file__))
from seed_table import SEEDS
for key, info in SEEDS.items():
    pid, x = key.split('-')
    src = '/tmp/seed-%s-out/%s' % (pid.lower(), x)
    if x in 'CD':
        src = '/tmp/seed2-%s-out/%s' % (pid.lower(), {'C': 'A', 'D': 'B'}[x])
    if x in 'EF':
        src = '/tmp/seed3-%s-out/%s' % (pid.lower(), {'E': 'A', 'F': 'B'}[x])
    if x in 'GH':
        src = '/tmp/seed4-%s-out/%s' % (pid.lower(), {'G': 'A', 'H': 'B'}[x])
    dst = os.path.join(ROOT, 'seeded', key)
    if os.path.isdir(src):
        os.makedirs(os.path.join(dst, 'demo'), exist_ok=True)
        shutil.copy(os.path.join(src, 'patch.diff'), os.path.join(dst, 'patch.diff'))
        for f in glob.glob(os.path.join(src, 'demo', '*')):
            if os.path.isdir(f):
                shutil.copytree(f, os.path.join(dst, 'demo', os.path.basename(f)), dirs_exist_ok=True)
            else:
                shutil.copy(f, os.path.join(dst, 'demo'))
        if os.path.exists(os.path.join(src, 'notes.md')):
            shutil.copy(os.path.join(src, 'notes.md'), os.path.join(dst, 'author_notes.md'))
    elif not os.path.isdir(dst):
        print('missing', key); continue
    log = os.path.join(ROOT, 'bin/seedlogs/%s.log' % key)
    caught = {}
    verified = {}
    if os.path.exists(log):
        txt = open(log).read()
        m = re.search(r'--- WITHOUT change:\s*\nrc=(\d+)', txt); verified['demo_without_change_rc'] = int(m.group(1)) if m else None
        m = re.search(r'--- WITH change:\s*\nrc=(\d+)', txt); verified['demo_with_change_rc'] = int(m.group(1)) if m else None
        verified['build_ok'] = 'PATCH-FAILS' not in txt
        for blk in re.split(r'--- check ', txt)[1:]:
            cid = blk.split(':')[0]
            sigs = re.findall(r'signature: (.*)', blk)
            rc = re.search(r'rc=(\d+)', blk)
            caught[cid] = {'exit': int(rc.group(1)) if rc else None, 'signatures': sigs[:4]}
    meta = {
        'property': pid, 'change': x,
        'origin': 'written by an independent sub-agent that was given only the text of the property and its own scratch worktree of the repository (nothing from /verif)' + (' - second wave: additionally told which functions the first-wave changes for this property had touched, so as to pick other mechanisms' if x in 'CDEFGH' else ''),
        'breaks': info['breaks'], 'needs_to_manifest': info['needs'],
        'demonstration': info['demo'],
        'confirmed_by_coordinator': verified,
        'what_was_run': 'tools/seed_verify.sh (patch applies, go build ./..., demonstration passes without / fails with the change) and tools/mutant.sh <check> patch.diff (scratch worktree of /repo HEAD + patch, VERIF_REPO=<worktree> ./run.sh <check> quick)',
        'checks_run_at_first_contact': caught,
        'detected_by': info['detected_by'],
        'strengthening': info.get('strengthened', 'none needed'),
        **({'obsolete': info['obsolete']} if 'obsolete' in info else {}),
        **({'recheck': info['recheck']} if 'recheck' in info else {}),
    }
    json.dump(meta, open(os.path.join(dst, 'meta.json'), 'w'), indent=1)
    print('stored', key, info['detected_by'])
