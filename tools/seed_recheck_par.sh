#!/bin/bash
# tools/seed_recheck_par.sh [parallel-streams] — like seed_recheck.sh, but one stream per property (the runs of one
# check share log names and must be sequential; different checks run side by side).  Writes seeded/RESULTS.md.
cd "$(dirname "$0")/.."
par="${1:-6}"
mkdir -p bin/recheck   # one row file per (change, check); KEYS=<regex> restricts which changes are re-run, the table is assembled from all rows
one() { # property id: all its seeds, sequentially
  pid=$1
  for k in $(ls seeded | grep -E "^$pid-[A-Z]$" | grep -E "${KEYS:-.}"); do
    checks=$(python3 -c "import json;m=json.load(open('seeded/$k/meta.json'));print(' '.join(m.get('recheck',['$pid'])))")
    for c in $checks; do
      patch=seeded/$k/patch.diff; [ -f seeded/$k/patch-rebased.diff ] && patch=seeded/$k/patch-rebased.diff
      log=$(timeout 3000 tools/mutant.sh $c $patch 2>&1); rc=$?
      sig=$(echo "$log" | grep -m1 'signature:' | sed 's/.*signature: //' | cut -c1-160)
      res="MISSED"; [ $rc -eq 1 ] && res="caught"
      [ $rc -ne 1 ] && python3 -c "import json,sys;sys.exit(0 if 'obsolete' in json.load(open('seeded/$k/meta.json')) else 1)" && res="obsolete (no longer breaks the property: see meta.json)"
      echo "$log" | grep -q 'PATCH-DOES-NOT-APPLY\|BUILD-FAILED' && res="n/a (patch/build)"
      echo "| $k | $c | $res | $sig |" > bin/recheck/$k.$c.row
      echo "$k $c $res"
    done
  done
}
export -f one; export KEYS
ls seeded | grep -E '^C[0-9]+-[A-Z]$' | cut -d- -f1 | sort -u | xargs -P "$par" -I{} bash -c 'one {}'
out=seeded/RESULTS.md
echo "# Seeded changes against the current checks ($(date -u +%F' '%H:%M) UTC, /repo $(git -C /repo rev-parse --short HEAD), /verif $(git rev-parse --short HEAD))" > $out
echo >> $out; echo "Quick tier of the property's own check against every stored change (tools/mutant.sh: scratch worktree of /repo HEAD + patch). 'caught' = exit 1 with VIOLATION lines." >> $out
echo >> $out; echo "| change | check | result | first signature |" >> $out; echo "|---|---|---|---|" >> $out
cat bin/recheck/*.row | sort >> $out
echo >> $out; echo "caught: $(grep -c '| caught |' $out)   missed: $(grep -c '| MISSED |' $out)   obsolete: $(grep -c '| obsolete' $out)   n/a: $(grep -c '| n/a' $out)" >> $out
tail -1 $out
