#!/bin/bash
# tools/seed_verify.sh <out-dir e.g. /tmp/seed-c08-out/A> <worktree> <demo-dest-dir-in-tree> <go test/run command...>
# Confirms a seeded change: patch applies, tree builds, the demonstration FAILS with the change and PASSES without.
set -u
out="$1"; wt="$2"; dest="$3"; shift 3
export GOFLAGS=-mod=mod GOPROXY=off GOSUMDB=off GOTOOLCHAIN=local
cd "$wt" || exit 9
git checkout -q -- . && git clean -fdq
mkdir -p "$dest"; cp "$out"/demo/${DEMOGLOB:-*.go} "$dest"/ 2>/dev/null
echo "--- WITHOUT change:"; ( "$@" > /tmp/seedv.$$ 2>&1; echo "rc=$?"; tail -3 /tmp/seedv.$$ )
git apply "$out/patch.diff" || { echo PATCH-FAILS; exit 8; }
echo "--- build:"; go build ./... 2>&1 | tail -3
echo "--- WITH change:"; ( "$@" > /tmp/seedv.$$ 2>&1; echo "rc=$?"; grep -E "^(--- FAIL|FAIL|ok|panic)" /tmp/seedv.$$ | head -5 )
git checkout -q -- . && git clean -fdq
rm -f /tmp/seedv.$$
