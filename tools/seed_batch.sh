#!/bin/bash
# tools/seed_batch.sh <ID> <X> <demo-dest-dir> <pkg-for-test-run> <run-regex> [check-ids...]
# verify the seeded change, run the listed checks (default: the property's own) against it, store under seeded/.
id="$1"; x="$2"; dest="$3"; pkg="$4"; rx="$5"; shift 5
checks="${*:-$id}"
lc=$(echo $id | tr A-Z a-z)
# wave 2 (letters C, D) lives in /tmp/seed2-<id>(-out)/{A,B}
case "$x" in C) out=/tmp/seed2-$lc-out/A; wt=/tmp/seed2-$lc;; D) out=/tmp/seed2-$lc-out/B; wt=/tmp/seed2-$lc;; E) out=/tmp/seed3-$lc-out/A; wt=/tmp/seed3-$lc;; F) out=/tmp/seed3-$lc-out/B; wt=/tmp/seed3-$lc;; G) out=/tmp/seed4-$lc-out/A; wt=/tmp/seed4-$lc;; H) out=/tmp/seed4-$lc-out/B; wt=/tmp/seed4-$lc;; *) out=/tmp/seed-$lc-out/$x; wt=/tmp/seed-$lc;; esac
cd "$(dirname "$0")/.."
echo "##### $id-$x"
tools/seed_verify.sh $out $wt $dest go test -count=1 -vet=off -run "$rx" $pkg 2>&1 | tail -12
for c in $checks; do
  echo "--- check $c:"
  timeout 2400 tools/mutant.sh $c $out/patch.diff 2>&1 | cut -c1-200 | head -8
  echo "rc=${PIPESTATUS[0]}"
done
