#!/bin/bash
# tools/seed_recheck.sh [keys...] — run every stored seeded change (seeded/<ID>-<X>/patch.diff) against the check(s) named in
# its meta.json "recheck" list (default: the property's own check) with the CURRENT machinery; writes seeded/RESULTS.md.
cd "$(dirname "$0")/.."
keys="$*"; [ -z "$keys" ] && keys=$(ls seeded | grep -E '^C[0-9]+-[A-Z]$')
out=seeded/RESULTS.md
echo "# Seeded changes against the current checks ($(date -u +%F' '%H:%M) UTC, /repo $(git -C /repo rev-parse --short HEAD), /verif $(git rev-parse --short HEAD))" > $out
echo >> $out; echo "| change | check | result | first signature |" >> $out; echo "|---|---|---|---|" >> $out
for k in $keys; do
  pid=${k%-*}
  checks=$(python3 -c "import json;m=json.load(open('seeded/$k/meta.json'));print(' '.join(m.get('recheck',['$pid'])))")
  for c in $checks; do
    # a seed whose lines were touched by a later fix: in /repo is kept as patch.diff (original) + patch-rebased.diff
    patch=seeded/$k/patch.diff; [ -f seeded/$k/patch-rebased.diff ] && patch=seeded/$k/patch-rebased.diff
    log=$(timeout 2400 tools/mutant.sh $c $patch 2>&1); rc=$?
    sig=$(echo "$log" | grep -m1 'signature:' | sed 's/.*signature: //' | cut -c1-160)
    res="MISSED"; [ $rc -eq 1 ] && res="caught"; [ $rc -ne 1 ] && python3 -c "import json,sys;sys.exit(0 if 'obsolete' in json.load(open('seeded/$k/meta.json')) else 1)" && res="obsolete (no longer breaks the property: see meta.json)"; echo "$log" | grep -q 'PATCH-DOES-NOT-APPLY\|BUILD-FAILED' && res="n/a (patch/build)"
    echo "| $k | $c | $res | $sig |" >> $out
    echo "$k $c $res"
  done
done
