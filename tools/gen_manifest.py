#!/usr/bin/env python3
import json, sys, os
sys.path.insert(0, os.path.dirname(__file__))
from manifest_data import CHECKS
root = os.path.dirname(os.path.dirname(os.path.abspath(__file__)))
props = [json.loads(l)["id"] for l in open(os.path.join(root, "properties.jsonl"))]
hooks = [l.strip() for l in open(os.path.join(root, "tools/hook_commits.txt")) if l.strip()]
m = {
 "version": 1,
 "setup_cmd": "./setup.sh",
 "hooks": {
  "guard": "verif (Go build tag)",
  "enable": "go build -tags verif (run.sh does this for every check; go.mod replaces github.com/youchainhq/go-youchain with /repo so the current working tree is compiled)",
  "baseline_off_cmd": "cd /repo && GOFLAGS=-mod=mod GOPROXY=off GOSUMDB=off GOTOOLCHAIN=local go test -json -vet=off -count=1 -timeout 25m ./...",
  "source_commits": hooks,
  "add_only": True,
 },
 "engines": [
  {"name": "mc", "path": "mc/", "serves_properties": sorted(CHECKS),
   "kind_free_text": "hand-written explorers over the real implementation: stateless DFS over all op sequences (seqx.DFSAll), database-fork DFS (seqx.DFSFork), BFS with state de-duplication (seqx.BFS), mixed-radix exhaustive input enumeration (enum), write-log database with every-prefix crash materialisation (crashdb); run context producing evidence, replay files, known-finding filtering"},
 ],
 "checks": [],
 "not_applicable": [],
}
for pid in props:
    c = CHECKS.get(pid)
    if not c:
        m["not_applicable"].append({"property_id": pid, "reason": "not claimed yet: check under construction in this session (see DESIGN.md §3 for its design)"})
        continue
    m["checks"].append({
        "property_id": pid,
        "quick_cmd": "./run.sh %s quick" % pid,
        "thorough_cmd": "./run.sh %s thorough" % pid,
        "evidence_file": "evidence/%s.json" % pid,
        "replay_cmd_template": "./run.sh %s quick --replay {path}" % pid,
        "engine": "mc",
        "level_claimed": {"category": c["level"], "text": c["text"], "design_ref": c["ref"]},
        "level_note": c["note"],
        "technique": c["technique"],
    })
json.dump(m, open(os.path.join(root, "MANIFEST.json"), "w"), indent=1)
print("checks:", [c["property_id"] for c in m["checks"]], "not_applicable:", len(m["not_applicable"]))
