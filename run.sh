#!/bin/bash
# run.sh <property-id> <quick|thorough> [extra args]   — used by every MANIFEST command.
# Always rebuilds the check binary against the CURRENT working tree of the repository
# (go.mod replace => /repo) with the hooks on (-tags verif).
# VERIF_REPO=<dir> points the build at another checkout (scratch worktrees for
# seeded/mutant runs) without touching /repo or go.mod.
set -u
cd "$(dirname "$0")"
export GOFLAGS=-mod=mod GOPROXY=off GOSUMDB=off GOTOOLCHAIN=local
id="$1"; tier="${2:-quick}"; shift; shift || true
lc="$(echo "$id" | tr 'A-Z' 'a-z')"
mkdir -p bin
repo="${VERIF_REPO:-/repo}"
out="bin/$lc"
modflag=""
if [ "$repo" != "/repo" ]; then
  tag="$(echo "$repo" | md5sum | cut -c1-8)"
  sed "s#=> /repo\$#=> $repo#" go.mod > "bin/alt-$tag.mod"
  cp go.sum "bin/alt-$tag.sum"
  modflag="-modfile=bin/alt-$tag.mod"
  out="bin/$lc-$tag"
fi
# third-party start-up check that panics under this toolchain (see overlay/): replaced at build time only
quic="$(go list $modflag -m -f '{{.Dir}}' github.com/lucas-clemente/quic-go 2>/dev/null)"
ovl=""
if [ -n "$quic" ] && [ -f "$quic/internal/handshake/unsafe.go" ]; then
  printf '{"Replace":{"%s":"%s"}}\n' "$quic/internal/handshake/unsafe.go" "$(pwd)/overlay/quic_handshake_unsafe_stub.go" > bin/overlay.json
  ovl="-overlay=bin/overlay.json"
fi
(
  flock 9
  if ! go build $modflag $ovl -tags verif -o "$out" "./cmd/$lc" 2> "$out.build.err"; then
    cat "$out.build.err" >&2
    echo "BUILD-FAILED property=$id (the tree does not compile with hooks on)" >&2
    exit 3
  fi
) 9> "bin/.lock-$lc" || exit 3
exec "$out" --tier "$tier" --root "$(pwd)" "$@"
